// siminstr mechanically rewrites the concurrency constructs of the tinode server so that they run on
// the deterministic runtime simrt. It never changes which Go behaviours are legal; it only takes over
// the choices Go leaves unspecified (which goroutine runs, which ready select case fires, map order).
// It refuses (exit 2) any construct it does not understand.
//
// usage: siminstr -dir <repo copy> -simrt <import path of simrt> pkgpattern...
package main

import (
	"bytes"
	"flag"
	"fmt"
	"go/ast"
	"go/constant"
	"go/format"
	"go/token"
	"go/types"
	"os"
	"path/filepath"
	"strconv"
	"strings"

	"golang.org/x/tools/go/ast/astutil"
	"golang.org/x/tools/go/packages"
)

var (
	dir      = flag.String("dir", ".", "root of the repo copy")
	simrtPkg = flag.String("simrt", "github.com/tinode/chat/server/simrt", "import path of simrt")
	tags     = flag.String("tags", "", "build tags")
	mapOnly  = flag.String("maponly", "", "comma separated package patterns where only map ranges are rewritten")
	verbose  = flag.Bool("v", false, "print statistics")
)

type stats struct {
	gos, selects, sends, recvs, chanRanges, mapRanges, syncTypes, calls, syncMapRanges int
}

func fatalf(format string, a ...any) {
	fmt.Fprintf(os.Stderr, "siminstr: "+format+"\n", a...)
	os.Exit(2)
}

func main() {
	flag.Parse()
	pats := flag.Args()
	if len(pats) == 0 {
		fatalf("no packages given")
	}
	mo := map[string]bool{}
	if *mapOnly != "" {
		for _, p := range strings.Split(*mapOnly, ",") {
			mo[p] = true
			pats = append(pats, p)
		}
	}
	cfg := &packages.Config{
		Mode: packages.NeedName | packages.NeedFiles | packages.NeedSyntax | packages.NeedTypes |
			packages.NeedTypesInfo | packages.NeedImports | packages.NeedDeps | packages.NeedCompiledGoFiles,
		Dir:   *dir,
		Tests: false,
	}
	if *tags != "" {
		cfg.BuildFlags = []string{"-tags", *tags}
	}
	pkgs, err := packages.Load(cfg, pats...)
	if err != nil {
		fatalf("load: %v", err)
	}
	if packages.PrintErrors(pkgs) > 0 {
		fatalf("packages had errors")
	}
	var total stats
	for _, p := range pkgs {
		only := false
		for pat := range mo {
			if strings.HasSuffix(p.PkgPath, strings.TrimPrefix(pat, "./")) {
				only = true
			}
		}
		for i, f := range p.Syntax {
			name := p.CompiledGoFiles[i]
			if strings.HasSuffix(name, "_test.go") {
				continue
			}
			in := &instr{pkg: p, file: f, fset: p.Fset, info: p.TypesInfo, base: filepath.Base(name), mapOnly: only}
			in.run()
			if !in.changed {
				continue
			}
			var buf bytes.Buffer
			f.Comments = nil
			if err := format.Node(&buf, p.Fset, f); err != nil {
				fatalf("%s: print: %v", name, err)
			}
			if err := os.WriteFile(name, buf.Bytes(), 0o644); err != nil {
				fatalf("%s: %v", name, err)
			}
			total.add(in.st)
		}
	}
	if *verbose {
		fmt.Printf("siminstr: go=%d select=%d send=%d recv=%d chanrange=%d maprange=%d synctypes=%d calls=%d syncmaprange=%d\n",
			total.gos, total.selects, total.sends, total.recvs, total.chanRanges, total.mapRanges, total.syncTypes, total.calls, total.syncMapRanges)
	}
}

func (s *stats) add(o stats) {
	s.gos += o.gos
	s.selects += o.selects
	s.sends += o.sends
	s.recvs += o.recvs
	s.chanRanges += o.chanRanges
	s.mapRanges += o.mapRanges
	s.syncTypes += o.syncTypes
	s.calls += o.calls
	s.syncMapRanges += o.syncMapRanges
}

type instr struct {
	pkg     *packages.Package
	file    *ast.File
	fset    *token.FileSet
	info    *types.Info
	base    string
	mapOnly bool
	changed bool
	st      stats
	tmp     int
	skip    map[ast.Node]bool
}

func (in *instr) site(n ast.Node) *ast.BasicLit {
	pos := in.fset.Position(n.Pos())
	return &ast.BasicLit{Kind: token.STRING, Value: strconv.Quote(fmt.Sprintf("%s:%d", in.base, pos.Line))}
}

func (in *instr) fail(n ast.Node, format string, a ...any) {
	pos := in.fset.Position(n.Pos())
	fatalf("%s:%d: %s", in.base, pos.Line, fmt.Sprintf(format, a...))
}

func (in *instr) newTmp(prefix string) *ast.Ident {
	in.tmp++
	return ast.NewIdent(fmt.Sprintf("_sim%s%d", prefix, in.tmp))
}

func simrtSel(name string) *ast.SelectorExpr {
	return &ast.SelectorExpr{X: ast.NewIdent("simrt"), Sel: ast.NewIdent(name)}
}

func call(fn ast.Expr, args ...ast.Expr) *ast.CallExpr {
	return &ast.CallExpr{Fun: fn, Args: args}
}

func define(lhs ast.Expr, rhs ast.Expr) *ast.AssignStmt {
	return &ast.AssignStmt{Lhs: []ast.Expr{lhs}, Tok: token.DEFINE, Rhs: []ast.Expr{rhs}}
}

func (in *instr) pkgOf(id *ast.Ident) string {
	if obj, ok := in.info.Uses[id]; ok {
		if pn, ok := obj.(*types.PkgName); ok {
			return pn.Imported().Path()
		}
	}
	return ""
}

// isPkgSel reports whether e is pkgpath.name.
func (in *instr) isPkgSel(e ast.Expr, path, name string) bool {
	se, ok := e.(*ast.SelectorExpr)
	if !ok || se.Sel.Name != name {
		return false
	}
	id, ok := se.X.(*ast.Ident)
	return ok && in.pkgOf(id) == path
}

func (in *instr) isConst(e ast.Expr) bool {
	if tv, ok := in.info.Types[e]; ok {
		if tv.Value != nil && tv.Value.Kind() != constant.Unknown {
			return true
		}
		if tv.IsNil() {
			return true
		}
	}
	return false
}

func pure(e ast.Expr) bool {
	switch v := e.(type) {
	case *ast.Ident:
		return true
	case *ast.SelectorExpr:
		return pure(v.X)
	case *ast.StarExpr:
		return pure(v.X)
	case *ast.ParenExpr:
		return pure(v.X)
	case *ast.IndexExpr:
		return pure(v.X) && pure(v.Index)
	case *ast.BasicLit:
		return true
	}
	return false
}

func (in *instr) run() {
	in.skip = map[ast.Node]bool{}
	// Communication clauses of selects are handled by the select rewrite, not by the send/recv rewrites.
	ast.Inspect(in.file, func(n ast.Node) bool {
		if cc, ok := n.(*ast.CommClause); ok && cc.Comm != nil {
			in.skip[cc.Comm] = true
			switch c := cc.Comm.(type) {
			case *ast.ExprStmt:
				in.skip[ast.Unparen(c.X)] = true
			case *ast.AssignStmt:
				in.skip[ast.Unparen(c.Rhs[0])] = true
			}
		}
		return true
	})
	astutil.Apply(in.file, nil, in.post)
	if in.changed {
		astutil.AddImport(in.fset, in.file, *simrtPkg)
		for _, p := range []string{"sync", "math/rand", "expvar", "time"} {
			if !astutil.UsesImport(in.file, p) {
				astutil.DeleteImport(in.fset, in.file, p)
			}
		}
	}
}

func (in *instr) post(c *astutil.Cursor) bool {
	n := c.Node()
	if n == nil {
		return true
	}
	switch v := n.(type) {
	case *ast.RangeStmt:
		in.rangeStmt(c, v)
	case *ast.CallExpr:
		if !in.mapOnly {
			in.callExpr(c, v)
		}
	}
	if in.mapOnly {
		return true
	}
	switch v := n.(type) {
	case *ast.GoStmt:
		in.goStmt(c, v)
	case *ast.SelectStmt:
		in.selectStmt(c, v)
	case *ast.SendStmt:
		if !in.skip[v] {
			in.sendStmt(c, v)
		}
	case *ast.UnaryExpr:
		if v.Op == token.ARROW && !in.skip[v] {
			in.recvExpr(c, v)
		}
	case *ast.SelectorExpr:
		if id, ok := v.X.(*ast.Ident); ok && in.pkgOf(id) == "sync" {
			switch v.Sel.Name {
			case "Mutex", "RWMutex", "WaitGroup":
				c.Replace(simrtSel(v.Sel.Name))
				in.changed = true
				in.st.syncTypes++
			case "Map", "Once", "Pool":
			default:
				in.fail(v, "unsupported sync.%s", v.Sel.Name)
			}
		}
	}
	return true
}

func (in *instr) callExpr(c *astutil.Cursor, ce *ast.CallExpr) {
	switch {
	case in.isPkgSel(ce.Fun, "time", "Sleep"):
		ce.Fun = simrtSel("Sleep")
	case in.isPkgSel(ce.Fun, "time", "AfterFunc"):
		ce.Fun = simrtSel("AfterFunc")
	case in.isPkgSel(ce.Fun, "time", "NewTimer"):
		ce.Fun = simrtSel("NewTimer")
	case in.isPkgSel(ce.Fun, "time", "After"):
		ce.Fun = simrtSel("After")
	case in.isPkgSel(ce.Fun, "math/rand", "Intn"):
		ce.Fun = simrtSel("RandIntn")
	case in.isPkgSel(ce.Fun, "math/rand", "Seed"):
		ce.Fun = simrtSel("RandSeed")
	case in.isPkgSel(ce.Fun, "expvar", "Publish"):
		ce.Fun = simrtSel("Publish")
	default:
		if se, ok := ce.Fun.(*ast.SelectorExpr); ok {
			if id, ok := se.X.(*ast.Ident); ok && in.pkgOf(id) == "math/rand" {
				in.fail(ce, "unsupported math/rand.%s", se.Sel.Name)
			}
			// (*time.Timer).Reset
			if se.Sel.Name == "Reset" && len(ce.Args) == 1 {
				if tv, ok := in.info.Types[se.X]; ok {
					if p, ok := tv.Type.(*types.Pointer); ok {
						if nt, ok := p.Elem().(*types.Named); ok && nt.Obj().Pkg() != nil && nt.Obj().Pkg().Path() == "time" && nt.Obj().Name() == "Timer" {
							c.Replace(call(simrtSel("TimerReset"), se.X, ce.Args[0]))
							in.changed = true
							in.st.calls++
						}
					}
				}
			}
			// (*sync.Map).Range
			if se.Sel.Name == "Range" && len(ce.Args) == 1 {
				if tv, ok := in.info.Types[se.X]; ok {
					t := tv.Type
					isPtr := false
					if p, ok := t.(*types.Pointer); ok {
						t = p.Elem()
						isPtr = true
					}
					if nt, ok := t.(*types.Named); ok && nt.Obj().Pkg() != nil && nt.Obj().Pkg().Path() == "sync" && nt.Obj().Name() == "Map" {
						x := se.X
						if !isPtr {
							x = &ast.UnaryExpr{Op: token.AND, X: x}
						}
						c.Replace(call(simrtSel("SyncMapRange"), x, ce.Args[0]))
						in.changed = true
						in.st.syncMapRanges++
					}
				}
			}
		}
		return
	}
	in.changed = true
	in.st.calls++
}

func (in *instr) goStmt(c *astutil.Cursor, gs *ast.GoStmt) {
	in.changed = true
	in.st.gos++
	ce := gs.Call
	if fl, ok := ce.Fun.(*ast.FuncLit); ok && len(ce.Args) == 0 {
		c.Replace(&ast.ExprStmt{X: call(simrtSel("Go"), in.site(gs), fl)})
		return
	}
	if id, ok := ce.Fun.(*ast.Ident); ok {
		if _, isBuiltin := in.info.Uses[id].(*types.Builtin); isBuiltin {
			in.fail(gs, "go with builtin %s", id.Name)
		}
	}
	var stmts []ast.Stmt
	var fn ast.Expr = ce.Fun
	if !pureFuncName(in, ce.Fun) {
		f := in.newTmp("f")
		stmts = append(stmts, define(f, ce.Fun))
		fn = f
	}
	var args []ast.Expr
	for _, a := range ce.Args {
		if in.isConst(a) {
			args = append(args, a)
			continue
		}
		t := in.newTmp("a")
		stmts = append(stmts, define(t, a))
		args = append(args, t)
	}
	inner := &ast.CallExpr{Fun: fn, Args: args, Ellipsis: ce.Ellipsis}
	lit := &ast.FuncLit{Type: &ast.FuncType{Params: &ast.FieldList{}}, Body: &ast.BlockStmt{List: []ast.Stmt{&ast.ExprStmt{X: inner}}}}
	stmts = append(stmts, &ast.ExprStmt{X: call(simrtSel("Go"), in.site(gs), lit)})
	if len(stmts) == 1 {
		c.Replace(stmts[0])
		return
	}
	if _, labeled := c.Parent().(*ast.LabeledStmt); labeled {
		in.fail(gs, "labeled go statement")
	}
	c.Replace(&ast.BlockStmt{List: stmts})
}

// pureFuncName: a package-level function (no receiver to bind), safe to name inside the closure.
func pureFuncName(in *instr, e ast.Expr) bool {
	switch v := e.(type) {
	case *ast.Ident:
		if _, ok := in.info.Uses[v].(*types.Func); ok {
			return true
		}
	case *ast.SelectorExpr:
		if id, ok := v.X.(*ast.Ident); ok && in.pkgOf(id) != "" {
			return true
		}
	}
	return false
}

func (in *instr) sendStmt(c *astutil.Cursor, ss *ast.SendStmt) {
	in.changed = true
	in.st.sends++
	fn := "SendI"
	if in.isConst(ss.Value) && !in.info.Types[ss.Value].IsNil() {
		fn = "Send"
	} else if ct, ok := in.info.Types[ss.Chan]; ok {
		if ch, ok := ct.Type.Underlying().(*types.Chan); ok {
			if vt, ok := in.info.Types[ss.Value]; ok && types.Identical(ch.Elem(), vt.Type) {
				fn = "Send"
			}
		}
	}
	c.Replace(&ast.ExprStmt{X: call(simrtSel(fn), in.site(ss), ss.Chan, ss.Value)})
}

func (in *instr) recvExpr(c *astutil.Cursor, ue *ast.UnaryExpr) {
	in.changed = true
	in.st.recvs++
	fn := "Recv"
	switch p := c.Parent().(type) {
	case *ast.AssignStmt:
		if len(p.Lhs) == 2 && len(p.Rhs) == 1 {
			fn = "RecvOk"
		}
	case *ast.ValueSpec:
		if len(p.Names) == 2 && len(p.Values) == 1 {
			fn = "RecvOk"
		}
	}
	c.Replace(call(simrtSel(fn), in.site(ue), ue.X))
}

func (in *instr) selectStmt(c *astutil.Cursor, ss *ast.SelectStmt) {
	in.changed = true
	in.st.selects++
	if _, labeled := c.Parent().(*ast.LabeledStmt); labeled {
		in.fail(ss, "labeled select statement")
	}
	var pre []ast.Stmt
	var cases []ast.Expr
	var clauses []ast.Stmt
	hasDefault := false
	sel := in.newTmp("s")
	idx := 0
	for _, cl := range ss.Body.List {
		cc := cl.(*ast.CommClause)
		if cc.Comm == nil {
			hasDefault = true
			clauses = append(clauses, &ast.CaseClause{List: nil, Body: cc.Body})
			continue
		}
		var body []ast.Stmt
		switch cm := cc.Comm.(type) {
		case *ast.SendStmt:
			ch := in.newTmp("c")
			pre = append(pre, define(ch, cm.Chan))
			var val ast.Expr = cm.Value
			if !in.isConst(cm.Value) {
				v := in.newTmp("v")
				pre = append(pre, define(v, cm.Value))
				val = v
			}
			cases = append(cases, call(simrtSel("SendCase"), ch, val))
		case *ast.ExprStmt:
			ue, ok := ast.Unparen(cm.X).(*ast.UnaryExpr)
			if !ok || ue.Op != token.ARROW {
				in.fail(cm, "unexpected select comm")
			}
			ch := in.newTmp("c")
			pre = append(pre, define(ch, ue.X))
			cases = append(cases, call(simrtSel("RecvCase"), ch))
		case *ast.AssignStmt:
			ue, ok := ast.Unparen(cm.Rhs[0]).(*ast.UnaryExpr)
			if !ok || ue.Op != token.ARROW {
				in.fail(cm, "unexpected select comm")
			}
			ch := in.newTmp("c")
			pre = append(pre, define(ch, ue.X))
			cases = append(cases, call(simrtSel("RecvCase"), ch))
			fn := "Val"
			if len(cm.Lhs) == 2 {
				fn = "ValOk"
			}
			body = append(body, &ast.AssignStmt{Lhs: cm.Lhs, Tok: cm.Tok, Rhs: []ast.Expr{call(simrtSel(fn), ch, sel)}})
		default:
			in.fail(cm, "unexpected select comm %T", cm)
		}
		body = append(body, cc.Body...)
		clauses = append(clauses, &ast.CaseClause{
			List: []ast.Expr{&ast.BasicLit{Kind: token.INT, Value: strconv.Itoa(idx)}},
			Body: body,
		})
		idx++
	}
	hd := "false"
	if hasDefault {
		hd = "true"
	}
	args := append([]ast.Expr{in.site(ss), ast.NewIdent(hd)}, cases...)
	pre = append(pre, define(sel, call(simrtSel("Select"), args...)))
	pre = append(pre, &ast.SwitchStmt{
		Tag:  &ast.SelectorExpr{X: sel, Sel: ast.NewIdent("Index")},
		Body: &ast.BlockStmt{List: clauses},
	})
	c.Replace(&ast.BlockStmt{List: pre})
}

func (in *instr) rangeStmt(c *astutil.Cursor, rs *ast.RangeStmt) {
	tv, ok := in.info.Types[rs.X]
	if !ok {
		in.fail(rs, "no type for range expression")
	}
	_, labeled := c.Parent().(*ast.LabeledStmt)
	switch tv.Type.Underlying().(type) {
	case *types.Chan:
		if in.mapOnly {
			return
		}
		in.changed = true
		in.st.chanRanges++
		var pre []ast.Stmt
		ch := rs.X
		if !pure(ch) {
			if labeled {
				in.fail(rs, "labeled range over impure channel expression")
			}
			t := in.newTmp("c")
			pre = append(pre, define(t, ch))
			ch = t
		}
		okv := in.newTmp("ok")
		var lhs ast.Expr = ast.NewIdent("_")
		tok := token.DEFINE
		if rs.Key != nil {
			lhs = rs.Key
			if rs.Tok == token.ASSIGN {
				in.fail(rs, "range over channel with assignment")
			}
		}
		recv := &ast.AssignStmt{Lhs: []ast.Expr{lhs, okv}, Tok: tok, Rhs: []ast.Expr{call(simrtSel("RecvOk"), in.site(rs), ch)}}
		brk := &ast.IfStmt{Cond: &ast.UnaryExpr{Op: token.NOT, X: okv}, Body: &ast.BlockStmt{List: []ast.Stmt{&ast.BranchStmt{Tok: token.BREAK}}}}
		body := append([]ast.Stmt{recv, brk}, rs.Body.List...)
		loop := &ast.ForStmt{Body: &ast.BlockStmt{List: body}}
		if len(pre) > 0 {
			c.Replace(&ast.BlockStmt{List: append(pre, loop)})
		} else {
			c.Replace(loop)
		}
	case *types.Map:
		if rs.Key == nil && rs.Value == nil {
			return
		}
		in.changed = true
		in.st.mapRanges++
		var pre []ast.Stmt
		m := rs.X
		if !pure(m) {
			if labeled {
				in.fail(rs, "labeled range over impure map expression")
			}
			t := in.newTmp("m")
			pre = append(pre, define(t, m))
			m = t
		}
		if rs.Tok == token.ASSIGN {
			in.fail(rs, "range over map with assignment")
		}
		var key ast.Expr
		if id, ok := rs.Key.(*ast.Ident); ok && id.Name != "_" {
			key = id
		} else {
			key = in.newTmp("k")
		}
		okv := in.newTmp("ok")
		var head []ast.Stmt
		var val ast.Expr = ast.NewIdent("_")
		if rs.Value != nil {
			if id, ok := rs.Value.(*ast.Ident); !ok || id.Name != "_" {
				val = rs.Value
			}
		}
		get := &ast.AssignStmt{Lhs: []ast.Expr{val, okv}, Tok: token.DEFINE, Rhs: []ast.Expr{&ast.IndexExpr{X: m, Index: key}}}
		head = append(head, get, &ast.IfStmt{Cond: &ast.UnaryExpr{Op: token.NOT, X: okv},
			Body: &ast.BlockStmt{List: []ast.Stmt{&ast.BranchStmt{Tok: token.CONTINUE}}}})
		loop := &ast.RangeStmt{Key: ast.NewIdent("_"), Value: key, Tok: token.DEFINE,
			X:    call(simrtSel("Keys"), m),
			Body: &ast.BlockStmt{List: append(head, rs.Body.List...)}}
		if len(pre) > 0 {
			c.Replace(&ast.BlockStmt{List: append(pre, loop)})
		} else {
			c.Replace(loop)
		}
	}
}
