#!/usr/bin/env python3
"""vseams.py <scratch-repo>: textual seam insertion in the SCRATCH copy (never in /repo), before cmd/siminstr runs.
cluster.go talks to its peers through *rpc.Client over TCP; the cluster simulator (harness/c17.go) replaces exactly
these call sites by the simulated network `simRPC`. Every pattern must match the expected number of times: if the
code under test has changed shape the build fails (exit 2) instead of silently leaving a real socket in."""
import sys, re
root = sys.argv[1]
path = root + "/server/cluster.go"
s = open(path).read()
rules = [
    ('net.DialTimeout("tcp", n.address, clusterNetworkTimeout)', 'simRPC.dial(n)', 1),
    ('n.endpoint = rpc.NewClient(conn)', 'n.endpoint = simRPC.newClient(n, conn)', 1),
    ('n.endpoint.Close()', 'simRPC.closeEndpoint(n)', 3),
    ('n.endpoint.Call(proc, req, resp)', 'simRPC.call(n, proc, req, resp)', 1),
    ('n.endpoint.Go(proc, req, resp, responseChan)', 'simRPC.goCall(n, proc, req, resp, responseChan)', 1),
    ('Node:        globals.cluster.thisNodeName,\n\t\t\t\t\tFingerprint: globals.cluster.fingerprint,', 'Node:        simRPC.ownerName(n),\n\t\t\t\t\tFingerprint: simRPC.ownerFingerprint(n),', 1),
]
for old, new, n in rules:
    c = s.count(old)
    if c != n:
        sys.stderr.write(f"vseams: pattern {old!r} found {c} times in cluster.go, expected {n}\n")
        sys.exit(2)
    s = s.replace(old, new)
open(path, "w").write(s)
