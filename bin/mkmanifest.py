#!/usr/bin/env python3
"""Regenerates /verif/MANIFEST.json from bin/vprops.py (claimed checks) and properties.jsonl."""
import json, sys, os
sys.path.insert(0, "/verif/bin")
from vprops import PROPS, NOT_APPLICABLE, LEVEL_TEXT

props = [json.loads(l) for l in open("/verif/properties.jsonl")]
checks = []
for pid in sorted(PROPS):
    spec = PROPS[pid]
    checks.append({
        "property_id": pid,
        "quick_cmd": f"bin/vcheck {pid} --tier quick",
        "thorough_cmd": f"bin/vcheck {pid} --tier thorough",
        "evidence_file": f"/verif/evidence/{pid}.json",
        "replay_cmd_template": f"bin/vcheck {pid} --replay {{path}}",
        "engine": spec.get("engine_name", "wsim"),
        "level_claimed": {"category": spec.get("level", "exploration"), "text": LEVEL_TEXT.get(pid, LEVEL_TEXT["default"]), "design_ref": "DESIGN.md section 5, " + pid},
        "level_note": spec.get("level_note", "trusted base: simrt scheduler + cmd/siminstr rewriting (determinism self-tested in setup), simdb as a faithful stub of the MySQL adapter contract (DESIGN.md Appendix A), testing/synctest fake clock, rapid as choice source and shrinker"),
        "technique": spec.get("technique", "deterministic simulation with fault injection (seeded schedules/faults, history and white-box oracles)"),
    })
engines = {}
for pid, spec in PROPS.items():
    engines.setdefault(spec.get("engine_name", "wsim"), []).append(pid)
ENG = {
    "wsim": ("/verif/harness", "whole-server deterministic simulator: package main instrumented by cmd/siminstr runs on simrt (token scheduler over testing/synctest), simdb simulated disk with store-call failures and crash/restart, in-memory gRPC and long-polling clients, rapid-drawn programs/faults/schedules"),
    "clustersim": ("/verif/harness", "N real Cluster objects in one bubble over a simulated RPC network (loss, delay, reorder, partition, pause)"),
    "sqlfault": ("/verif/sqlfault", "real SQL adapter methods over a fake database/sql driver; statement-fault enumeration"),
}
m = {
    "version": 1,
    "setup_cmd": "bin/vsetup",
    "hooks": {"guard": "verif", "enable": "no hooks live in /repo: every check copies /repo's working tree to a scratch dir, rewrites it mechanically with cmd/siminstr, adds simrt/simdb/harness files and builds with `go1.26.8 test -c -tags verif`",
              "baseline_off_cmd": "cd /repo/server && go test -vet=off -count=1 . ./store/... ./drafty/... ./ringhash/... ./db/common/...", "source_commits": [], "add_only": True},
    "engines": [{"name": n, "path": ENG[n][0], "serves_properties": sorted(v), "kind_free_text": ENG[n][1]} for n, v in sorted(engines.items())],
    "checks": checks,
    "notes": "See DESIGN.md. Repaired defects and known findings: known-findings.txt. Replays of repaired defects: findings/.",
    "not_applicable": [{"property_id": p["id"], "reason": NOT_APPLICABLE.get(p["id"], "check not built yet (work in progress)")} for p in props if p["id"] not in PROPS],
}
json.dump(m, open("/verif/MANIFEST.json", "w"), indent=1)
print("claimed:", sorted(PROPS), "not applicable:", [x["property_id"] for x in m["not_applicable"]])
