# Per-property run parameters and evidence texts for bin/vcheck.

ENGINE_A_COMPONENTS = {
    "real": ["server (package main: hub, topics, sessions, presence, calls, push fan-out, user cache; mechanically instrumented by cmd/siminstr)",
             "server/store", "server/store/types", "server/auth/{token,basic,code,anon}", "server/drafty", "server/media", "server/media/fs",
             "server/pbx + pbconverter (gRPC transport codec)", "server/push registry", "server/ringhash"],
    "stub": ["database adapter (simdb: in-memory stub of the MySQL adapter contract, one atomic durable transaction per call)",
             "push delivery (simpush records receipts)", "credential delivery (simcred records codes)",
             "network transport (in-memory gRPC stream; no sockets)", "goroutine scheduler, select choice, map iteration order, clocks (simrt + testing/synctest)"],
}

TECH = "deterministic simulation with fault injection: seeded search over schedules and fault sequences, history/white-box oracles"

def A(test, rule, quick=(8, 250, 240), thorough=(16, 6000, 3000), **kw):
    d = {"test": test, "rule": rule, "engine": "A",
         "quick": {"procs": quick[0], "checks": quick[1], "timeout": quick[2]},
         "thorough": {"procs": thorough[0], "checks": thorough[1], "timeout": thorough[2]}}
    d.update(kw)
    return d

COMMON_ASSUME = [
    "simdb implements the store contract of DESIGN.md Appendix A; a defect inside a real adapter's SQL is invisible here",
    "one adapter call is atomic and durable (what the SQL adapters' transactions promise; C18 checks that promise)",
    "clients speak through the in-memory gRPC stream using the server's own pbCliSerialize/pbServDeserialize as codec",
]

PROPS = {
    "C01": A("TestSim_C01",
             "one evaluation = one simulated run: rapid draws population (2-4 users x 1-2 sessions, 1-2 groups/channels, optional p2p, optional root), "
             "1-3 phases of 2-12 client actions (publish/no-echo/on-behalf-of/leave/resubscribe/get/disconnect, optional delays so topics idle out) "
             "and per phase at most one store fault (k-th call of a method fails, or the process crashes before/after it), plus a schedule "
             "(policy, seed, forced preemptions). Non-trivial = at least 2 acknowledged publishes from 2 different clients on one topic, or a fired "
             "fault with at least 2 acknowledged publishes; distinct = distinct (program hash, schedule hash).",
             probes=["fault.crash", "fault.store_err", "fault.disconnect", "c01.crash_in_store_call"],
             assumptions=COMMON_ASSUME),
    "C02": A("TestSim_C02",
             "one evaluation = one simulated run of the 'pubfan' workload: population (2-4 users x 1-2 sessions, groups/channels with channel readers, p2p, optional root), "
             "0-6 permission-shaping steps (owner changes a member's grant / bans, member changes own request, unsubscribes, detaches), then 1-3 phases of 3-12 actions "
             "(publish, no-echo, custom/forged heads, on behalf of, to me/fnd/sys, by the other spelling of the name, subscribe/leave/unsubscribe/mode change/disconnect); "
             "3 of 4 publishes are isolated probes judged exactly against the white-box snapshot taken when they fire (recipient set, per-copy fields, push receipt), "
             "the rest overlap with the churn. Non-trivial = at least one accepted isolated publish with at least 3 recipient classes present among "
             "{publishing session, other reader session, channel reader, ineligible/detached client}; distinct = distinct (program hash, schedule hash).",
             probes=["fault.disconnect"], assumptions=COMMON_ASSUME),
    "C03": A("TestSim_C03",
             "same 'pubfan' workload as C02. Every isolated publish is classified from the snapshot at fire time (no session / no hi / not logged in / on-behalf-of by non-root / "
             "not attached / not subscribed / W missing in want, in given, in both / read-only / inactive / channel name of a non-channel / eligible) and must be answered 202 iff eligible; "
             "a rejected one must get an error code and leave the whole simulated disk byte-identical, cause no frame at any other client, no push and no id consumption. "
             "Non-trivial = at least one accepted and at least two differently-rejected isolated publishes in the run; distinct = distinct (program hash, schedule hash).",
             probes=["fault.disconnect"], assumptions=COMMON_ASSUME),
    "C04": A("TestSim_C04",
             "one evaluation = one simulated run: population as in C01 (1-2 groups/channels, optional p2p, gRPC and long-polling clients mixed), 4-14 messages published by "
             "everybody in turn, then 3-14 strictly sequential isolated actions: delete with 1-4 generated ranges (unsorted, overlapping, nested, adjacent, touching, duplicated, "
             "single ids as hi=0/hi=low/hi=low+1, hi beyond the last id, low 0/negative, inverted; soft or hard; by owner, plain member, reader-less member, channel reader), "
             "{get data} and {get del} with absent/zero/inverted/beyond-last since/before/limit, publish, unsubscribe/resubscribe, own mode change (dropping/regaining R or D), "
             "and a full reload of the topic (everybody leaves, 4 s idle-out, come back). An exact ledger (messages, hard-deleted set, per-user soft-deleted sets, delete transactions) "
             "is compared after every accepted delete with what every user can see on the simulated disk, and with every history / deletion-log answer. "
             "Non-trivial = a run with an accepted delete list of at least 2 entries followed by a checked {get data}; distinct = distinct (program hash, schedule hash).",
             probes=["c04.reload"], assumptions=COMMON_ASSUME + ["which delete lists are valid is the server's decision (400 vs 200); only negative, inverted and beyond-last-low entries are required to be refused",
                                                                "row limits of {get del} are not modelled; the gRPC codec carries neither get.del options nor integer ctrl params, those are checked on long-polling clients only"]),
}

PROPS["C13"] = A("TestSim_C13",
    "one evaluation = one simulated run: a small population with a bystander session, plus 1-2 hostile clients (long-polling JSON for byte-level input, gRPC for "
    "structured protobuf input) that are logged in / handshake only / nothing / root, sending 3-25 generated inputs: raw byte strings and JSON fragments, marshalled messages "
    "truncated / bit-flipped / spliced / doubled, and structurally valid messages of all ten kinds (and multi-part and empty ones) whose topic names, user ids, modes, "
    "schemes, versions, seq numbers, ranges, get/set options, tags, credentials, Drafty content with out-of-range spans, heads (webrtc/replace/mime of wrong type), "
    "attachments and extra.obo take boundary values, interleaved with the bystander's {get me}. Oracle: no task of the server ends in a panic (process death), every request "
    "with an id that is not a note is answered (anonymous dispatch-level refusals are matched to the request they answer), the bystander keeps being answered, requests sent before "
    "handshake/login are refused. Non-trivial = a run in which a hostile input got past dispatch into a topic or hub handler (a topic or subscription was loaded from the store); "
    "distinct = distinct (program hash, schedule hash).",
    probes=[], assumptions=COMMON_ASSUME + ["websocket transport not simulated: byte-level inputs travel through the long-polling handler (same dispatchRaw)",
                                            "push preview rendering (fcm/tnpg payload preparation from message content) is stubbed: simpush records receipts without rendering previews"])

PROPS["C14"] = A("TestSim_C14",
    "one evaluation = one simulated run: 2-4 users x 1-2 sessions (gRPC and long-polling mixed) on 1-2 shared groups/channels and a p2p topic; 1-3 phases of 3-14 actions per run drawn from "
    "subscribe, leave, unsubscribe, publish, abrupt disconnect (also between request and reply), reconnect, slow consumer (client stops reading) plus bursts of 5-200 publishes that overflow its queue "
    "and get it evicted, {del topic} by owner and by others, {del user}, attach/detach of 'me', waits of 0.1-6 s chosen around the 4 s idle unload, optionally one store failure inside topic loading / "
    "subscription lookup / deletion; half of the requests are pipelined without waiting for replies. All four schedule policies with forced preemptions at channel operations and locks. "
    "Oracle at final quiescence: every {sub}/{leave}/{del} with an id on a live connection was answered (a leave that crossed its own eviction may be answered by the 205 notice; replies lost to a "
    "logged queue overflow are excluded); white-box: topic.sessions and session.subs are mutually consistent, no terminated or unregistered session is attached, per-user online counters equal the "
    "attached foreground sessions, closed gRPC connections are gone from the registry; no task is blocked outside the wait sites learned from the idle system after configuration, none waits for a "
    "lock or wait group, one topic actor per registered topic; step budget not exhausted. Non-trivial = at least two of {disconnect, slow consumer, eviction} occurred in the run; distinct = distinct (program, schedule).",
    probes=["fault.disconnect", "fault.slow_consumer", "fault.store_err", "c14.leave_crossed_eviction", "c14.abandoned_lp_session"],
    assumptions=COMMON_ASSUME + ["the data-race clause (shared data touched only under its lock/atomic) is not decided by the serial scheduler: every hand-off between tasks creates a happens-before edge; see DESIGN.md 2.11",
                                 "long-polling sessions abandoned by their client are excluded from the attachment bijection (they are detached only when the registry expires them)"])

PROPS["C09"] = A("TestSim_C09",
    "one evaluation = one simulated run: population as in C01 (groups, channels with channel readers, p2p; gRPC and long-polling clients), 2-8 messages published, then 4-16 strictly "
    "sequential isolated actions: notes read/recv/kp/kpa/unknown/data with seq in {0, negative, 1, stale, current, current+1, middle, last, last+1, huge} from attached and detached sessions "
    "(recv is routed through the hub), publishes, leave/subscribe, unsubscribe, own and owner-made permission changes (dropping R or W), full topic reloads. "
    "Exact model of (read, recv) per subscription compared after every action with the topic cache and the simulated disk; bounds 0<=read<=recv<=last in cache and store; monotonicity per "
    "subscription incarnation; relay oracle per note from the snapshot at fire time (exactly the attached sessions of readers other than the origin, never channel readers, kp never to the typist and "
    "only from writers, plus 'me' sessions of offline readers; true sender; recipient's own topic name); an invalid note causes no frame anywhere, no store write and no push. "
    "Non-trivial = at least two different note kinds and one invalid note judged in the run; distinct = distinct (program hash, schedule hash).",
    probes=["c09.reload"], assumptions=COMMON_ASSUME + ["notes addressed to a topic the session is not attached to are answered 409 by design (docs/API.md); only 'no side effect' is required for them",
                                                       "over gRPC only kp/read/recv/call note kinds exist in the protobuf enum; other kinds are exercised from long-polling clients"])

PERM_RULE = ("one evaluation = one simulated run of the 'perm' workload: population of 2-4 users (owner, members, channel readers, optional root, optional stranger subscribed to nothing) x 1-2 sessions "
    "on 1-2 groups/channels and a p2p topic, then 4-18 strictly sequential isolated requests drawn from {sub}/{set sub} on self and on others with 16 mode strings (empty, N, full, O only, "
    "with/without O, A, S, D, J, lower case, junk), {leave unsub}, {del sub}, {del topic} soft/hard, {set desc public/defacs/private}, {set tags}, subscribing to another user's fnd, to sys, to a p2p "
    "topic by its p2p name, changing own mode from a session that is not attached, and full reloads of the topic. After every request: white-box snapshot and simulated disk are checked for ")

PROPS["C06"] = A("TestSim_C06", PERM_RULE +
    "exactly one effective owner per group in cache and store, equal to the recorded owner; ownership moves only when the recorded new owner had been granted O and sent the accepting request, the "
    "previous owner then has O in neither mode; nobody but the owner removes, bans or demotes the owner, deletes the group or changes public/default access/tags. "
    "Non-trivial = a completed ownership transfer or at least two refused attacks on the owner; distinct = distinct (program hash, schedule hash).",
    probes=["perm.reload"], assumptions=COMMON_ASSUME)
PROPS["C07"] = A("TestSim_C07", PERM_RULE +
    "authorisation of every observed change of a (topic, user) grant or requested mode (actor held A or O; sharer invites only with the default grant; first subscribe gets the topic default for the "
    "level or the previous grant of the soft-deleted subscription; administrators raise themselves only by bits other than O and D; O granted only by the owner; requested mode changed only by its user, "
    "invite defaults or the transfer strip), no attached session of a user whose grant lacks J, p2p topics with at most two participants and modes within JRWPA including A, me/fnd attached only "
    "by their user, sys only by root, subscriber count within the configured limit in cache and store. Non-trivial = at least 4 requests by at least 3 actor kinds with at least one refused; "
    "distinct = distinct (program hash, schedule hash).",
    probes=["perm.reload"], assumptions=COMMON_ASSUME, configs=[{}, {"max_subscriber_count": 3}, {}, {"max_subscriber_count": 2}])
PROPS["C08"] = A("TestSim_C08", PERM_RULE +
    "equality of every loaded group/p2p topic with its stored rows (last id, delete id, owner, default access, public, tags; per subscriber want, given, private, read/recv marks, delete id; "
    "set of subscribers), i.e. what a fresh load would produce; in one third of the requests the k-th store call (k=1..4) of the request fails: the request must then be answered with an error, "
    "and a refused or failed request must leave the simulated disk unchanged. Non-trivial = a run with an injected store failure or a real reload of a topic; "
    "distinct = distinct (program hash, schedule hash).",
    probes=["perm.reload", "fault.store_err"], assumptions=COMMON_ASSUME + ["the reload-twin-run comparison of client-visible answers (DESIGN.md C08 oracle 2/3) is replaced by the direct cache/store comparison plus real reloads inside the run",
        "crash points are exercised by C01 (publish path); here only store failures are injected"])

AUTH_RULE = ("one evaluation = one simulated run of the 'auth' workload: a small population with a root user, plus two fresh probe connections (one long-polling JSON, one gRPC) that send 4-24 strictly "
    "sequential isolated requests drawn from: handshakes (valid, garbage version, too old, repeated same/different version), logins (password, wrong password, unknown login, unknown scheme, anonymous, "
    "tokens issued by this server - including tokens collected from earlier replies in the run - bit-flipped, truncated, extended, signed with a foreign key, wrong serial number), privileged requests "
    "({get}/{sub}/{leave}/{set}/{del}/{pub} with a forged head.sender, notes, extra.obo), account creation (also a login differing only in case), the password-reset flow (reset request, right and wrong "
    "codes), clock jumps of 30 s to one day (token and code expiry), suspension/un-suspension of accounts by root, reconnects and a server crash/restart on the same simulated disk. ")
PROPS["C11"] = A("TestSim_C11", AUTH_RULE +
    "An exact model of (handshake version, user, level) per connection is compared after every request with the server's session (white-box) and with the reply class: nothing but {hi} is served before the "
    "handshake, nothing privileged before login, failed/expired/suspended/second logins leave the identity unchanged, obo only for root, delivered messages carry the session's user as author and no client-chosen "
    "sender header, the version cannot change. Non-trivial = a connection that sent at least one request in a wrong state and later a privileged one that was served; distinct = distinct (program hash, schedule hash).",
    quick=(8, 150, 300), thorough=(16, 3000, 3000), probes=["fault.clock_jump", "fault.crash", "fault.store_err", "c11.login_needs_validation"], assumptions=COMMON_ASSUME,
    configs=[{}, {"require_cred": True}])
PROPS["C12"] = A("TestSim_C12", AUTH_RULE +
    "A secret authenticates iff the model says it is valid at that simulated instant (issued token not expired and account live; correct password; reset code not used, not expired, fewer wrong guesses than the cap) "
    "and then yields exactly the issued user and level; every other secret is refused; a second account whose login differs only in case is refused. "
    "Non-trivial = at least one accepted secret and at least three differently-invalid secrets judged on handshaken connections; distinct = distinct (program hash, schedule hash).",
    quick=(8, 150, 300), thorough=(16, 3000, 3000), probes=["fault.clock_jump", "fault.crash", "c12.reset_code_accepted", "c12.reset_code_wrong_guess"],
    configs=[{}, {"require_cred": True}],
    assumptions=COMMON_ASSUME + ["the bit-level mutation space and the API-key byte space are sampled through the workload, not enumerated (pure-function clauses; DESIGN.md section 6)",
                                 "tokens issued under another key/serial are forged by the harness with the documented layout; backward clock steps are not simulated"])

PROPS["C15"] = A("TestSim_C15",
    "one evaluation = one simulated run of the 'calls' workload: 2-3 users x 1-2 sessions (gRPC and long-polling) on a p2p topic (plus a group and the users' other p2p topics as wrong targets), calls configured "
    "with a 6 s establishment timeout, 4-18 actions drawn from invitations ({pub head.webrtc}), call events ringing/accept/offer/answer/ice-candidate/hang-up/unknown with the current, a stale, a future or a zero call id "
    "sent from every session of caller, callee and outsiders (attached or not), leave, subscribe, abrupt disconnect, reconnect, ordinary publishes and waits of 1-9 s across the timeout. Three quarters of the runs are "
    "sequential: every action is an isolated probe judged against a reference state machine (idle / ringing / established; who may ring, accept, exchange, hang up; busy; endings finished/declined/missed/disconnected) "
    "that is compared with the topic's call record (white-box), with the replies (486 busy and 403 outside p2p leave no trace in store or traffic) and with the relays (the forwarded {info} reaches exactly the other "
    "party's session once, unaltered, ignored events reach nobody and change nothing, no {info what=call} ever reaches a non-participant). One quarter are concurrent: the actions race and only the history is judged. "
    "In every run, after all sessions have left: no topic still holds a call, and the store shows for every invitation exactly one ending and at most one earlier acceptance, each a replacement of the invitation "
    "with its content and author; in sequential runs the ending is the one the model derived. Non-trivial = at least one call started and ended; distinct = distinct (program hash, schedule hash).",
    probes=["fault.disconnect", "c15.accepted", "c15.busy_judged", "c15.ignored_event_judged", "c15.relay_judged_ringing", "c15.relay_judged_accept", "c15.relay_judged_offer",
            "c15.relay_judged_answer", "c15.relay_judged_ice-candidate", "c15.end_finished", "c15.end_declined", "c15.end_missed", "c15.end_disconnected"],
    assumptions=COMMON_ASSUME + ["an action that falls on the exact instant of the establishment timeout is judged leniently (timer and request are concurrent)",
        "media payloads are opaque strings; ICE server configuration is a fixed stub"])

PROPS["C05"] = A("TestSim_C05", PERM_RULE +
    "what every session has been told about its own user's permissions. The recorded frames of every session that stayed attached to 'me' are folded the way a client SDK (and the cluster proxy of a topic) tracks "
    "permissions: full modes from {meta sub} listings on 'me', {meta desc} and the {ctrl params.acs} answers to the session's own requests; textual deltas and full values carried by {pres what=acs} (on 'me' and on "
    "the topic, with the cleared-name conventions for actor/target/source) applied with AccessMode.ApplyMutation. At the end of the run the tracked (want, given) of the session's user on every group and p2p topic "
    "where that user still is a subscriber must equal what the loaded topic (else the store) holds; a delta that cannot be applied is a violation too. ONLY this notification-replay clause of C05 is decided here; "
    "the algebraic clauses (canonical text form, parse/print round trip, rejection of unknown letters, difference-then-apply over all 256x256 pairs) are pure functions of their input and are not claimed. "
    "Non-trivial = at least 2 (session, topic) pairs judged after at least 4 requests; distinct = distinct (program hash, schedule hash).",
    probes=["perm.reload", "perm.pattern_step"],
    assumptions=COMMON_ASSUME + ["the cluster proxy party named by the property is represented by the same fold (updateAcsFromPresMsg uses ApplyMutation on the same {pres acs} stream); real proxy topics are not simulated",
        "only the session's own user's permissions are tracked, not those of other subscribers shown to administrators"])

PROPS["C10"] = A("TestSim_C10",
    "one evaluation = one simulated run of the 'presence' workload: 3-4 users x 1-2 sessions (gRPC and long-polling) on 1-2 groups and p2p topics; the last user is a pure observer whose sessions stay attached to 'me' only "
    "and record, per source, what they were last told ({get sub} answer when attaching, then every {pres} on 'me'); the other users' sessions perform 4-20 sequential actions drawn from: connect as a foreground or a background "
    "session, attach/detach 'me', abrupt disconnect, attach/detach a group or p2p topic, mute (drop P) and un-mute, publish, read note, eviction and re-invitation by the group owner, and waits of 1-9 s around the 4 s "
    "idle-unload and 5 s deferred-notification timers. After two settling periods (24 simulated s): for every p2p partner of the observer with P on both sides the observer's last word is 'online' iff that user has a "
    "foreground session attached to 'me' (white-box), and for every group the observer is a full member of with P it is 'online' iff the group has an attached session. Leak predicate over every {pres} frame delivered "
    "to any client during the run: the recipient has (or had within the 3 simulated seconds before delivery) a subscription to the source topic - else 'presence-to-stranger' - and for on/off/ua/upd/msg/read/recv/del also "
    "effective P in the store or in the loaded topic's own view; acs and gone notices are exempt. Online counters of every loaded group/p2p topic equal the attached foreground sessions per user and are never negative. "
    "Non-trivial = at least one observer judgement and at least two online/offline flips seen by the observer; distinct = distinct (program hash, schedule hash).",
    quick=(8, 150, 400), thorough=(16, 3000, 3000),
    probes=["fault.disconnect", "c10.p2p_judged", "c10.group_judged"],
    assumptions=COMMON_ASSUME + ["convergence is judged only for observers that never attach to the topics they are told about (a session attached to a topic is deliberately skipped by that topic's 'me' notifications)",
        "a frame is justified by the recipient's state at any instant of the 3 simulated seconds before its delivery (long-polling clients receive frames at their next poll)",
        "cluster proxies of 'me' topics are not simulated"])

PROPS["C16"] = A("TestSim_C16",
    "one evaluation = one simulated run of the 'files' workload: a small population attached to a group, then 4-16 strictly sequential actions drawn from: upload (multipart body with a file of 0-9000 bytes around the "
    "4096-byte limit; content kinds PNG / HTML / PDF / plain text / binary with an allowed or a bogus client-supplied type / XML; methods POST, PUT, GET, DELETE, HEAD; API key in header, query, form field, cookie, "
    "missing, forged; credentials as token or password in X-Tinode-Auth, Authorization, query (URL-safe base64), form field, cookies, as the id of a live session, missing, forged token, wrong password), download "
    "(GET/HEAD/POST/DELETE with the same key and credential variants; ten URL shapes: as returned, with asatt=1, with dot-dot segments that clean to the same or to another path, absolute URL of another host, "
    "suffix after the id, encoded slashes, unknown id, wrong directory, the server-side path of the stored file), publish with an attachment list, avatar update on 'me' with an attachment list, hard deletion of "
    "all messages, deletion of the topic, and waits of 30 s to 2 h of simulated time during which the real collector loop ticks (period 60 s, grace one hour). A ledger of uploads (bytes, recorded type, owner, "
    "completion time) is compared after every action with the simulated disk and with the real files of the fs media handler: a request with a wrong method, key, credentials or an oversize body must be refused "
    "and leave store and upload directory byte-identical (oversize: 413); a valid one must succeed and record size, owner and the detected content type; a 200 download carries exactly the bytes and type of the "
    "upload its URL names and is forced to 'attachment' for HTML, XML, text and application types; no odd URL shape is served; accepted attachment lists leave a link; nothing that is linked or younger than the "
    "grace hour disappears, everything unlinked and older than grace + 80 s does, records and bytes disappear together, and at the end the upload directory holds exactly the recorded files. "
    "Non-trivial = at least one accepted upload and one download judged; distinct = distinct (program hash, schedule hash).",
    quick=(8, 120, 400), thorough=(16, 3000, 3000),
    probes=["fault.clock_jump", "c16.collected", "c16.linked_pubatt", "c16.linked_avatar"],
    assumptions=COMMON_ASSUME + ["file bytes live on the real file system under the run's scratch directory (the fs media handler is real code); disk errors, short writes and a full disk are not injected",
        "the content type oracle uses inputs whose type is unambiguous (magic numbers, plain ASCII), not a re-implementation of the sniffing algorithm",
        "CORS preflight (OPTIONS) handling and the S3 media handler are not exercised"])

PROPS["C19"] = A("TestSim_C19",
    "one evaluation = one simulated run of the 'tags and search' workload: 2-4 users (optionally one root) x 1-2 sessions with 1-2 groups, then 6-29 strictly sequential isolated requests drawn from: {set tags} on 'me' or an owned "
    "group with 0-6 tags from a pool of plain, upper-case, padded, duplicated, too short, too long, badly starting tags and tags of the reserved (basic:, simcred:) and masked (rtg:) namespaces - alone, together with the "
    "tags the target has on the Disk, or together with what {get tags} just reported, optionally leaving some out, or the clear marker; {get tags}; request, confirmation and deletion of a credential; login change; "
    "creation of a group or of an account with such tags; suspension/un-suspension and soft/hard deletion of an account by root; deletion of a group; detaching from fnd or me; a 12 s wait that unloads idle topics; and searches: "
    "a query of 1-5 terms (plain, login-like, credential-like, prefixed, masked, quoted with spaces or commas, empty quotes, illegal characters, non-ASCII) joined by spaces, tabs, commas with and without spaces, doubled commas, with "
    "leading/trailing separators, or one of nine malformed shapes, set as fnd.public or fnd.private and executed with {get fnd sub}. One request in four of a faulty run has the k-th store call fail. After every request: every "
    "stored tag list is trimmed, lower-case, duplicate-free, starts with a letter or digit, 2-96 runes per tag, at most max_tag_count tags, and equals its tag index; a request other than a credential or login request never "
    "changes the reserved tags of any user, topics never carry reserved tags; fault-free, the reserved tags of a user are exactly basic:<login> plus simcred:<value> of the confirmed credentials; {get tags} reports the stored "
    "tags; a refused tag update changes nothing. Every search is compared with an independent reading of the documented grammar (comma = OR, whitespace = AND, a term next to a comma is an OR term, quotes literal, "
    "credential-like and - public queries - login-like terms also in their prefixed form): malformed (unterminated quote, doubled commas, quote glued to a word) and term-less queries are answered 400; a term of a masked namespace "
    "that is not among the searcher's stored tags gives 403 and nothing else does; otherwise the (required, optional) lists handed to the store equal the reference's, activeOnly is set exactly for non-root searchers, and the users "
    "and topics in the answer are exactly those the reference evaluation finds on the Disk (never the searcher, never a suspended or deleted account or topic for a non-root searcher). "
    "Non-trivial = at least one refused tag update and one judged search; distinct = distinct (program hash, schedule hash).",
    quick=(8, 150, 400), thorough=(16, 3000, 3000),
    configs=[{}, {"masked_tags": ["rtg", "simcred"]}],
    probes=["fault.store_err", "c19.search_judged", "c19.masked_term_denied", "c19.query_malformed", "c19.query_and_or", "c19.tag_update_refused", "c19.cred_confirmed", "c19.login_changed"],
    assumptions=COMMON_ASSUME + ["the query parser, tag rewriting and tag normalisation are pure functions: they are exercised through the fnd and tag-update flows over a generated alphabet, not enumerated over all strings",
        "'looks like a credential' is the stub validator's rule (contains @, at most 64 bytes); e-mail and phone validators (libphonenumber) are not loaded",
        "the reference reader follows docs/API.md; for fnd.private the original term is accepted next to the rewritten one (the documentation says only the rewritten one is kept, the property does not)",
        "result limits (max_results) are not reached"])

PROPS["C17"] = A("TestSim_C17",
    "one evaluation = one simulated run of the cluster simulator: 3-5 real Cluster objects (failoverInit, run loop, electLeader, sendHealthChecks, Health, Vote, rehash, isPartitioned, reconnect; peers listed in a different "
    "order on every node; heartbeat 50-200 ms with the real jitter, vote_after 2-8, node_fail_after 2-6) over a simulated inter-node network, driven through 1-8 network phases of 0.1-6 s each drawn from: fully connected, "
    "one node isolated, split in two, everybody alone, 1-4 directed links cut (asymmetric), each with 0-50% request loss, 0-50% reply loss (the request was executed) and per-message delays of 0-900 ms (reordering); "
    "then all faults stop. Requests and replies are gob-copied; each request gets at most one reply; nodes keep their state. Invariants evaluated at every delivered vote/health check and phase boundary (white-box on every "
    "node's term/leader/ring plus the recorded vote history): no term has two self-declared leaders; a node grants at most one YES per term and none in a term in which it was a candidate; terms never decrease; a node "
    "declares itself leader only with YES replies delivered to it from a strict majority of all configured nodes (itself included); nodes with equal ring signatures place 40 sample names identically; nodes whose "
    "signatures differ reject each other's Route and TopicMaster requests; a leader cut off from more than half of the configured nodes for node_fail_after+3 heartbeats reports isPartitioned; no node's goroutine panics. "
    "Adoption: after the last fault the run continues until one node has been the only self-declared leader in one term at two observations 20 heartbeats apart (no liveness bound is demanded: the property states "
    "none; runs that never stabilise within 12 such rounds are counted by a probe); every node must then name that leader in that term and have its ring signature. Non-trivial = at least one vote request was sent and at least one leader was observed; distinct = distinct (program hash, schedule hash).",
    quick=(8, 40, 600), thorough=(16, 1200, 3000),
    probes=["fault.partition", "fault.partition_one_way", "fault.msg_loss", "fault.reply_loss", "fault.msg_delay", "fault.partition_refused", "c17.dial_refused", "c17.minority_leader_judged", "c17.signature_gate_judged", "c17.signature_gate_established_judged", "c17.stable_leader_judged"],
    assumptions=["the ring laws over all key sets and all orderings (order independence, totality, minimal movement) are pure functions of the node list and are sampled in situ only (40 names per pair of nodes per phase)",
                 "node crash with loss of state, clock skew between nodes and paused nodes are not simulated (the property quantifies over nodes that have kept their state); every node reads the same simulated clock",
                 "the wire is replaced at the six places where cluster.go touches *rpc.Client / net.Dial (bin/vseams.py, scratch copy only); net/rpc itself, TCP and gob type registration are not exercised",
                 "proxy/master topic traffic is not generated: the signature gate is probed with synthetic Route/TopicMaster requests, the hub's rehash handling runs against a server without proxy topics"],
    components={"real": ["server/cluster_leader.go (all of it)", "server/cluster.go: Cluster/ClusterNode state, call/callAsync/reconnect, rehash, isPartitioned, gcProxySessions, invalidateProxySubs, Route and TopicMaster signature gates",
                         "server/ringhash", "the booted single-node server (hub rehash handling)"],
                "stub": ["inter-node transport: simRPC (harness/simrpc.go.txt) instead of net/rpc over TCP", "goroutine scheduler, timers, randomness (simrt + testing/synctest)"]})
PROPS["C17"]["engine_name"] = "clustersim"
PROPS["C17"]["engine"] = "B"

PROPS["C18"] = {
    "engine": "sqlfault", "engine_name": "sqlfault", "level": "fault_enumeration", "test": "TestSQLFault",
    "technique": "fault injection by complete enumeration: every statement position x fault kind of every transactional adapter operation, real adapter code over a simulated database connection, oracle over the recorded statement history",
    "level_note": "trusted base: the fake database/sql driver (sqlfault/zz_sqlfault_test.go) and Go's database/sql; the enumeration is deterministic and complete over its catalogue (exhaustive: true in the evidence), not over all argument values",
    "rule": "complete enumeration, MySQL adapter: for each of the 20 transactional adapter operations (plus 13 single-statement writes checked for error reporting only) x argument shapes "
            "(81 in all) x result scripts (every query returns 0, 1 or 2 rows; every exec reports 0 or 1 affected rows) the fault-free statement stream of length n is recorded against a fake "
            "database/sql driver, then the operation is re-run on a fresh connection pool with a fault at every statement position k = 1..n (BEGIN, every Exec/Query/Prepare, COMMIT) for each "
            "fault kind: generic error, duplicate key (MySQL 1062), connection loss (driver.ErrBadConn, the connection stays broken), deadline (statement blocks until its context expires; "
            "sql_timeout = tx timeout = 50 ms). One evaluation = one (operation, shape, script, k, fault) run of the real adapter method; non-trivial = a run with an injected fault; all are distinct by construction. "
            "Oracle over the recorded stream and the return value: at most one BEGIN and no write outside it; after a failed statement no COMMIT, the transaction ended by ROLLBACK (or the broken "
            "connection discarded) and a non-nil error returned; without a failure exactly one COMMIT (or a documented sentinel error with ROLLBACK); a failing COMMIT is reported; after return "
            "no connection is in use and none is inside a transaction; every statement of a deadline run is bound to a context that can expire. Duplicate keys that the adapter handles by design "
            "(INSERT falls back to UPDATE, duplicate tag ignored) are listed as notes.",
    "assumptions": ["the fake database executes no SQL: WHAT a committed transaction wrote is not checked, only that the operation is one transaction that commits or rolls back as a whole (the all-or-nothing "
                    "effect itself is then the database's promise)",
                    "MySQL adapter only; the PostgreSQL adapter shares the code shape (the one defect found was present in both and repaired in both) but is not enumerated: a fake pgx backend was not built",
                    "a deadline on a statement issued through tx.Exec without its own context is delivered by the fake through the transaction context; the real driver can interrupt such a statement only when the connection is closed"],
    "components": {"real": ["server/db/mysql adapter methods (unexported adapter struct, constructed directly)", "jmoiron/sqlx", "database/sql (pool, Tx, retry on ErrBadConn, rollback on context expiry)", "server/store uid codec"],
                   "stub": ["database/sql/driver implementation: executes no SQL, returns synthetic rows typed from the adapter's own CREATE TABLE statements, records the statement stream, injects the faults"]},
}

NOT_APPLICABLE = {
    "C20": "pure functions of one input (id codecs, name spellings, JSON<->protobuf converters): no schedule, clock, fault, crash point or second party for a simulator to decide; see DESIGN.md section 6",
}

LEVEL_TEXT = {
    "C18": "Complete enumeration of a finite fault space: each transactional operation of the real MySQL adapter is run against a fake database connection once fault-free and once per (statement position, fault kind); the recorded BEGIN/statement/COMMIT/ROLLBACK history is judged. Exhaustive over the catalogue of operations, argument shapes and row scripts listed in the evidence.",
    "default": "Seeded deterministic simulation of the whole server (real hub/topic/session code on a token scheduler; simulated disk, clock, transports) with the property's oracle evaluated on every run. Sampling, not enumeration: a clean batch is evidence over the schedules, fault positions and request histories drawn, not a proof.",
}
