//go:build mysql && verif

// Statement-fault enumerator ("engine C") for the MySQL adapter, property C18.
//
// The REAL adapter methods run against a FAKE database/sql driver which records every
// BEGIN / statement / COMMIT / ROLLBACK and can fail exactly one of them. For every
// (operation, argument shape, row script) the fault-free statement stream of length n is
// recorded, then the operation is re-run on a fresh fake database for every k in 1..n and
// every fault kind. An oracle over the recorded stream and the returned error decides
// whether the operation was atomic and reported the failure.
//
// This file is copied into server/db/mysql/ of a scratch copy of the repository and run as
//   go test -tags mysql,verif -run TestSQLFault -count=1 ./server/db/mysql
// See README.md next to the original of this file.

package mysql

import (
	"context"
	"database/sql"
	"database/sql/driver"
	"encoding/json"
	"errors"
	"fmt"
	"go/ast"
	"go/parser"
	"go/token"
	"io"
	"os"
	"regexp"
	"runtime/debug"
	"sort"
	"strconv"
	"strings"
	"sync"
	"testing"
	"time"

	ms "github.com/go-sql-driver/mysql"
	"github.com/jmoiron/sqlx"
	"github.com/tinode/chat/server/auth"
	"github.com/tinode/chat/server/store"
	t "github.com/tinode/chat/server/store/types"
)

// ---------------------------------------------------------------------------------------
// Fault kinds and row scripts
// ---------------------------------------------------------------------------------------

type faultKind int

const (
	fkNone faultKind = iota
	fkGeneric
	fkDupe
	fkBadConn
	fkDeadline
)

var faultNames = [...]string{"none", "generic", "dupe", "badconn", "deadline"}

func (f faultKind) String() string { return faultNames[f] }

var allFaults = []faultKind{fkGeneric, fkDupe, fkBadConn, fkDeadline}

var errInjected = errors.New("injected")
var errNoDeadline = errors.New("injected: statement has no cancellable context")

// Timeout given to the adapter for runs with the deadline fault.
const sfDeadline = 50 * time.Millisecond

// script: what every query / exec of one run returns.
type script struct {
	rows     int   // number of synthetic rows returned by every query
	affected int64 // RowsAffected reported by every exec
}

func (s script) String() string { return fmt.Sprintf("rows=%d,affected=%d", s.rows, s.affected) }

var allScripts = []script{{0, 0}, {0, 1}, {1, 0}, {1, 1}, {2, 0}, {2, 1}}

// ---------------------------------------------------------------------------------------
// Schema: table -> columns, parsed out of the adapter's own CreateDb.
// ---------------------------------------------------------------------------------------

type colKind int

const (
	ckInt  colKind = iota
	ckBool         // TINYINT: scanned into bool by the adapter, always 1
	ckText
	ckTime
	ckJSON
)

type colDef struct {
	name string // name reported to database/sql
	src  string // column of the table the value is taken from (lower case), "" for expressions
	kind colKind
}

type tableDef struct {
	name string
	cols []colDef
}

type sfSchema struct {
	tables map[string]*tableDef
	order  []string
}

// constString evaluates a constant string expression: literals joined with '+'.
func constString(e ast.Expr) (string, bool) {
	switch v := e.(type) {
	case *ast.BasicLit:
		if v.Kind == token.STRING {
			s, err := strconv.Unquote(v.Value)
			return s, err == nil
		}
	case *ast.BinaryExpr:
		if v.Op == token.ADD {
			l, ok1 := constString(v.X)
			r, ok2 := constString(v.Y)
			return l + r, ok1 && ok2
		}
	case *ast.ParenExpr:
		return constString(v.X)
	}
	return "", false
}

var reCreateTable = regexp.MustCompile(`(?is)^\s*CREATE\s+TABLE\s+` + "`?" + `(\w+)` + "`?" + `\s*\((.*)\)\s*;?\s*$`)

// splitTop splits s at sep found outside parentheses, quotes and backticks.
func splitTop(s string, sep byte) []string {
	var out []string
	depth := 0
	var quote byte
	start := 0
	for i := 0; i < len(s); i++ {
		c := s[i]
		if quote != 0 {
			if c == quote {
				quote = 0
			}
			continue
		}
		switch c {
		case '\'', '"', '`':
			quote = c
		case '(':
			depth++
		case ')':
			depth--
		default:
			if c == sep && depth == 0 {
				out = append(out, s[start:i])
				start = i + 1
			}
		}
	}
	return append(out, s[start:])
}

func sqlTypeKind(typ string) (colKind, bool) {
	typ = strings.ToUpper(typ)
	if i := strings.IndexByte(typ, '('); i >= 0 {
		typ = typ[:i]
	}
	switch typ {
	case "BIGINT", "INT", "INTEGER", "SMALLINT", "MEDIUMINT":
		return ckInt, true
	case "TINYINT", "BOOL", "BOOLEAN":
		return ckBool, true
	case "DATETIME", "TIMESTAMP", "DATE":
		return ckTime, true
	case "JSON":
		return ckJSON, true
	case "CHAR", "VARCHAR", "TEXT", "MEDIUMTEXT", "LONGTEXT", "TINYTEXT", "BLOB", "VARBINARY", "BINARY":
		return ckText, true
	}
	return ckInt, false
}

// parseSchema reads adapter.go (the test runs in the package directory), finds CreateDb and
// evaluates the constant SQL of every tx.Exec("CREATE TABLE ...") call in it.
func parseSchema() (*sfSchema, error) {
	fset := token.NewFileSet()
	f, err := parser.ParseFile(fset, "adapter.go", nil, 0)
	if err != nil {
		return nil, err
	}
	sc := &sfSchema{tables: map[string]*tableDef{}}
	var perr error
	for _, d := range f.Decls {
		fd, ok := d.(*ast.FuncDecl)
		if !ok || fd.Name.Name != "CreateDb" || fd.Body == nil {
			continue
		}
		ast.Inspect(fd.Body, func(n ast.Node) bool {
			call, ok := n.(*ast.CallExpr)
			if !ok || len(call.Args) == 0 {
				return true
			}
			sel, ok := call.Fun.(*ast.SelectorExpr)
			if !ok || sel.Sel.Name != "Exec" {
				return true
			}
			text, ok := constString(call.Args[0])
			if !ok {
				return true
			}
			m := reCreateTable.FindStringSubmatch(text)
			if m == nil {
				return true
			}
			td := &tableDef{name: strings.ToLower(m[1])}
			for _, part := range splitTop(m[2], ',') {
				fields := strings.Fields(part)
				if len(fields) < 2 {
					continue
				}
				switch strings.ToUpper(strings.SplitN(fields[0], "(", 2)[0]) {
				case "PRIMARY", "FOREIGN", "INDEX", "UNIQUE", "KEY", "CONSTRAINT", "FULLTEXT":
					continue
				}
				name := strings.ToLower(strings.Trim(fields[0], "`"))
				kind, known := sqlTypeKind(fields[1])
				if !known {
					perr = fmt.Errorf("table %s column %s: unknown SQL type %q", td.name, name, fields[1])
				}
				td.cols = append(td.cols, colDef{name: name, src: name, kind: kind})
			}
			sc.tables[td.name] = td
			sc.order = append(sc.order, td.name)
			return true
		})
	}
	if perr != nil {
		return nil, perr
	}
	if len(sc.order) < 10 {
		return nil, fmt.Errorf("only %d CREATE TABLE statements found in CreateDb", len(sc.order))
	}
	return sc, nil
}

// ---------------------------------------------------------------------------------------
// Column derivation for result sets.
// ---------------------------------------------------------------------------------------

// ALL special cases of the fake rows live in the next three tables.

// querySpecials: result columns for queries where the generic derivation does not work.
// Matched by substring of the SQL text. (Currently none is needed.)
var querySpecials = []struct {
	substr string
	cols   []colDef
}{}

// jsonDefaults: value of a JSON column, by source column name, chosen so that the Go type the
// adapter scans into accepts it.
var jsonDefaults = map[string]string{
	"access":  `{"Auth":"JRWPAS","Anon":"N"}`, // t.DefaultAccess
	"tags":    `["x"]`,                        // t.StringSlice
	"head":    `{}`,                           // t.MessageHeaders
	"content": `"x"`,                          // any
	"public":  `{"fn":"x"}`,                   // any
	"trusted": `{}`,                           // any
	"private": `{}`,                           // any
}

// textDefaults: value of a text column which must have a particular shape.
var textDefaults = map[string][]string{
	"modewant":  {"JRWPS", "JRWPS"},                   // t.AccessMode
	"modegiven": {"JRWPS", "JRWPS"},                   // t.AccessMode
	"topic":     {"grpAAAAAAAAAAA", "grpAAAAAAAAAAB"}, // valid group topic names
	"name":      {"grpAAAAAAAAAAA", "grpAAAAAAAAAAB"},
	"value":     {"113", "113"}, // kvmeta.value is scanned into an int by GetDbVersion
}

var sfFixedTime = time.Date(2024, 5, 6, 7, 8, 9, 0, time.UTC)

func valueFor(c colDef, row int) driver.Value {
	switch c.kind {
	case ckInt:
		return int64(row + 1)
	case ckBool:
		return int64(1)
	case ckTime:
		return sfFixedTime.Add(time.Duration(row) * time.Second)
	case ckJSON:
		if v, ok := jsonDefaults[c.src]; ok {
			return []byte(v)
		}
		return []byte(`{}`)
	default:
		if v, ok := textDefaults[c.src]; ok {
			return []byte(v[row%len(v)])
		}
		if row == 0 {
			return []byte("x")
		}
		return []byte("x" + strconv.Itoa(row+1))
	}
}

func isWordByte(c byte) bool {
	return c == '_' || (c >= '0' && c <= '9') || (c >= 'a' && c <= 'z') || (c >= 'A' && c <= 'Z')
}

// findKeyword finds a keyword at parenthesis depth 0, outside quotes/backticks, at or after from.
func findKeyword(s string, from int, kw string) int {
	depth := 0
	var quote byte
	for i := from; i < len(s); i++ {
		c := s[i]
		if quote != 0 {
			if c == quote {
				quote = 0
			}
			continue
		}
		switch c {
		case '\'', '"', '`':
			quote = c
			continue
		case '(':
			depth++
			continue
		case ')':
			depth--
			continue
		}
		if depth == 0 && i+len(kw) <= len(s) && strings.EqualFold(s[i:i+len(kw)], kw) &&
			(i == 0 || !isWordByte(s[i-1])) && (i+len(kw) == len(s) || !isWordByte(s[i+len(kw)])) {
			return i
		}
	}
	return -1
}

var (
	reSpace    = regexp.MustCompile(`\s+`)
	reAsAlias  = regexp.MustCompile("(?is)^(.*\\S)\\s+AS\\s+`?(\\w+)`?$")
	reColRef   = regexp.MustCompile(`^(?:(\w+)\.)?(\w+)$`)
	reStarRef  = regexp.MustCompile(`^(\w+)\.\*$`)
	reJoinKind = regexp.MustCompile(`(?i)\b(LEFT|RIGHT|INNER|OUTER|CROSS|NATURAL)\b`)
	reJoin     = regexp.MustCompile(`(?i)\bJOIN\b`)
	reOn       = regexp.MustCompile(`(?i)\bON\b`)
)

type fromEntry struct {
	alias string
	table *tableDef
}

func (sc *sfSchema) parseFrom(clause string) []fromEntry {
	clause = reJoinKind.ReplaceAllString(clause, " ")
	clause = reJoin.ReplaceAllString(clause, ",")
	var out []fromEntry
	for _, piece := range splitTop(clause, ',') {
		if loc := reOn.FindStringIndex(piece); loc != nil {
			piece = piece[:loc[0]]
		}
		fields := strings.Fields(strings.ReplaceAll(piece, "`", ""))
		if len(fields) == 0 {
			continue
		}
		td := sc.tables[strings.ToLower(fields[0])]
		if td == nil {
			continue
		}
		alias := fields[0]
		if len(fields) >= 3 && strings.EqualFold(fields[1], "AS") {
			alias = fields[2]
		} else if len(fields) == 2 {
			alias = fields[1]
		}
		out = append(out, fromEntry{alias: strings.ToLower(alias), table: td})
	}
	return out
}

func (td *tableDef) col(name string) (colDef, bool) {
	name = strings.ToLower(name)
	for _, c := range td.cols {
		if c.name == name {
			return c, true
		}
	}
	return colDef{}, false
}

func (sc *sfSchema) lookup(from []fromEntry, qual, col string) (colDef, bool) {
	if qual != "" {
		for _, fe := range from {
			if fe.alias == strings.ToLower(qual) {
				return fe.table.col(col)
			}
		}
		if td := sc.tables[strings.ToLower(qual)]; td != nil {
			return td.col(col)
		}
		return colDef{}, false
	}
	for _, fe := range from {
		if c, ok := fe.table.col(col); ok {
			return c, true
		}
	}
	for _, name := range sc.order {
		if c, ok := sc.tables[name].col(col); ok {
			return c, true
		}
	}
	return colDef{}, false
}

// derive computes the result columns of a SELECT from its text and the schema.
func (sc *sfSchema) derive(query string) ([]colDef, error) {
	for _, sp := range querySpecials {
		if strings.Contains(query, sp.substr) {
			return sp.cols, nil
		}
	}
	q := strings.TrimSpace(reSpace.ReplaceAllString(query, " "))
	if len(q) < 7 || !strings.EqualFold(q[:6], "SELECT") {
		return nil, fmt.Errorf("not a SELECT: %q", q)
	}
	list := q[6:]
	var from []fromEntry
	if fi := findKeyword(q, 6, "FROM"); fi >= 0 {
		list = q[6:fi]
		rest := q[fi+4:]
		end := len(rest)
		for _, kw := range []string{"WHERE", "GROUP", "ORDER", "LIMIT", "HAVING"} {
			if i := findKeyword(rest, 0, kw); i >= 0 && i < end {
				end = i
			}
		}
		from = sc.parseFrom(rest[:end])
	}
	list = strings.TrimSpace(list)
	if len(list) > 9 && strings.EqualFold(list[:9], "DISTINCT ") {
		list = list[9:]
	}
	var cols []colDef
	for _, item := range splitTop(list, ',') {
		item = strings.TrimSpace(item)
		expr, alias := item, ""
		if m := reAsAlias.FindStringSubmatch(item); m != nil {
			expr, alias = strings.TrimSpace(m[1]), m[2]
		}
		expr = strings.ReplaceAll(expr, "`", "")
		if expr == "*" {
			if len(from) == 0 {
				return nil, fmt.Errorf("SELECT * without a known table: %q", q)
			}
			for _, fe := range from {
				cols = append(cols, fe.table.cols...)
			}
			continue
		}
		if m := reStarRef.FindStringSubmatch(expr); m != nil {
			found := false
			for _, fe := range from {
				if fe.alias == strings.ToLower(m[1]) {
					cols = append(cols, fe.table.cols...)
					found = true
				}
			}
			if !found {
				return nil, fmt.Errorf("unknown table alias %q in %q", m[1], q)
			}
			continue
		}
		if m := reColRef.FindStringSubmatch(expr); m != nil {
			if _, err := strconv.Atoi(expr); err != nil {
				c, ok := sc.lookup(from, m[1], m[2])
				if !ok {
					return nil, fmt.Errorf("unknown column %q in %q", expr, q)
				}
				c.name = m[2]
				if alias != "" {
					c.name = alias
				}
				cols = append(cols, c)
				continue
			}
		}
		// An expression: aggregate, arithmetic, function call, literal.
		c := colDef{name: expr, kind: ckInt}
		if alias != "" {
			c.name = alias
		}
		up := strings.ToUpper(expr)
		if strings.HasPrefix(up, "CONCAT(") || strings.HasPrefix(up, "'") {
			c.kind = ckText
		}
		cols = append(cols, c)
	}
	return cols, nil
}

// ---------------------------------------------------------------------------------------
// Fake driver
// ---------------------------------------------------------------------------------------

type event struct {
	Kind   string // OPEN BEGIN EXEC QUERY PREPARE STMT_EXEC STMT_QUERY COMMIT ROLLBACK STMT_CLOSE RESET CLOSE RETURN
	Conn   int
	Ord    int // statement ordinal (BEGIN/EXEC/QUERY/PREPARE/STMT_*/COMMIT are counted), 0 = not counted
	SQL    string
	NArgs  int
	Failed string // "" = succeeded, else reason
	// Scripted is set when the statement returned MySQL error 1062 as a condition of the
	// baseline ("by-design duplicate script"), not as the injected fault.
	Scripted bool
	InTx     bool // connection was inside a transaction when the event was issued
}

func (e event) isStatement() bool {
	switch e.Kind {
	case "EXEC", "QUERY", "PREPARE", "STMT_EXEC", "STMT_QUERY":
		return true
	}
	return false
}

var reUpdateSet = regexp.MustCompile(`(?is)^(UPDATE\s+\w+\s+SET\s+)(.*?)(\s+WHERE\s.*)$`)

// normSQL collapses white space and sorts the "col=?" list of UPDATE ... SET (the adapter
// builds it by iterating over a map, the order is random).
func normSQL(s string) string {
	s = strings.TrimSpace(reSpace.ReplaceAllString(s, " "))
	if m := reUpdateSet.FindStringSubmatch(s); m != nil {
		parts := strings.Split(m[2], ",")
		simple := true
		for _, p := range parts {
			if !strings.HasSuffix(p, "=?") || strings.ContainsAny(p, "() ") {
				simple = false
			}
		}
		if simple {
			sort.Strings(parts)
			s = m[1] + strings.Join(parts, ",") + m[3]
		}
	}
	return s
}

func isWriteSQL(s string) bool {
	s = strings.TrimSpace(s)
	i := strings.IndexAny(s, " \t\n(")
	if i < 0 {
		i = len(s)
	}
	switch strings.ToUpper(s[:i]) {
	case "SELECT", "SHOW", "EXPLAIN", "DESCRIBE", "USE", "SET":
		return false
	}
	return true
}

type fakeDB struct {
	mu      sync.Mutex
	schema  *sfSchema
	scr     script
	faultAt int
	fault   faultKind
	// By-design duplicate script: dupeMatch selects the statements whose duplicate-key error
	// the adapter handles by design; the dupeOcc-th of them (sfDupeAll: every one) returns
	// error 1062 although it is not the injected fault. dupeOcc 0 = plain script.
	dupeMatch func(sql string) bool
	dupeOcc   int
	dupeSeen  int

	events  []event
	ord     int
	fired   bool
	sealed  bool
	conns   []*fakeConn
	trouble []string
}

func (f *fakeDB) troublef(format string, args ...any) {
	f.trouble = append(f.trouble, fmt.Sprintf(format, args...))
}

// record appends an event; the caller holds f.mu.
func (f *fakeDB) record(e event) {
	if !f.sealed {
		f.events = append(f.events, e)
	}
}

func (f *fakeDB) mark(kind string) {
	f.mu.Lock()
	f.record(event{Kind: kind})
	f.mu.Unlock()
}

// driver.Connector
func (f *fakeDB) Connect(ctx context.Context) (driver.Conn, error) {
	f.mu.Lock()
	defer f.mu.Unlock()
	c := &fakeConn{db: f, id: len(f.conns) + 1}
	f.conns = append(f.conns, c)
	f.record(event{Kind: "OPEN", Conn: c.id})
	return c, nil
}

func (f *fakeDB) Driver() driver.Driver { return fakeDriver{} }

type fakeDriver struct{}

func (fakeDriver) Open(name string) (driver.Conn, error) {
	return nil, errors.New("sqlfault: fakeDriver.Open is not supported, use the connector")
}

type fakeConn struct {
	db     *fakeDB
	id     int
	inTx   bool
	broken bool
	closed bool
	txCtx  context.Context
}

// step records one counted statement and applies the fault scheduled for its ordinal.
func (c *fakeConn) step(ctx context.Context, kind, sqlText string, nargs int) error {
	f := c.db
	f.mu.Lock()
	ev := event{Kind: kind, Conn: c.id, SQL: normSQL(sqlText), NArgs: nargs, InTx: c.inTx}
	if c.closed {
		f.troublef("statement on closed connection %d: %s %s", c.id, kind, ev.SQL)
	}
	if c.broken {
		ev.Failed = "badconn(broken)"
		f.record(ev)
		f.mu.Unlock()
		return driver.ErrBadConn
	}
	f.ord++
	ev.Ord = f.ord
	if f.fault == fkNone || f.ord != f.faultAt {
		if f.dupeOcc != 0 && (kind == "EXEC" || kind == "STMT_EXEC") && f.dupeMatch != nil && f.dupeMatch(ev.SQL) {
			f.dupeSeen++
			if f.dupeOcc == sfDupeAll || f.dupeOcc == f.dupeSeen {
				ev.Scripted = true
				f.record(ev)
				f.mu.Unlock()
				return &ms.MySQLError{Number: 1062, Message: "Duplicate entry (scripted, by design)"}
			}
		}
		f.record(ev)
		f.mu.Unlock()
		return nil
	}
	if f.dupeOcc != 0 && (kind == "EXEC" || kind == "STMT_EXEC") && f.dupeMatch != nil && f.dupeMatch(ev.SQL) {
		// The injected fault replaces the scripted duplicate at this position.
		f.dupeSeen++
	}
	f.fired = true
	switch f.fault {
	case fkGeneric:
		ev.Failed = "generic"
		f.record(ev)
		f.mu.Unlock()
		return errInjected
	case fkDupe:
		ev.Failed = "dupe"
		f.record(ev)
		f.mu.Unlock()
		return &ms.MySQLError{Number: 1062, Message: "Duplicate entry (injected)"}
	case fkBadConn:
		ev.Failed = "badconn"
		c.broken = true
		c.inTx = false // the transaction dies with the connection
		f.record(ev)
		f.mu.Unlock()
		return driver.ErrBadConn
	}
	// fkDeadline: block until the statement's context or the transaction's context is done.
	var stmtDone, txDone <-chan struct{}
	if ctx != nil {
		stmtDone = ctx.Done()
	}
	txCtx := c.txCtx
	if txCtx != nil && kind != "BEGIN" {
		txDone = txCtx.Done()
	}
	if stmtDone == nil && txDone == nil {
		ev.Failed = "deadline(no-context)"
		f.record(ev)
		f.mu.Unlock()
		return errNoDeadline
	}
	ev.Failed = "deadline"
	if stmtDone == nil {
		// tx.Exec / tx.Prepare / Commit without a context: only the context given to BeginTx
		// expires. The real driver would not interrupt such a statement; the fake lets it
		// fail at the moment the transaction context expires.
		ev.Failed = "deadline(tx-context-only)"
	}
	f.record(ev)
	f.mu.Unlock()
	guard := time.NewTimer(10 * time.Second)
	defer guard.Stop()
	select {
	case <-stmtDone:
		return ctx.Err()
	case <-txDone:
		return txCtx.Err()
	case <-guard.C:
		f.mu.Lock()
		f.troublef("deadline fault: context of %s %q was not cancelled within 10s", kind, ev.SQL)
		f.mu.Unlock()
		return errInjected
	}
}

func (c *fakeConn) Prepare(query string) (driver.Stmt, error) {
	return c.PrepareContext(context.Background(), query)
}

func (c *fakeConn) PrepareContext(ctx context.Context, query string) (driver.Stmt, error) {
	if err := c.step(ctx, "PREPARE", query, 0); err != nil {
		return nil, err
	}
	return &fakeStmt{c: c, sql: query}, nil
}

func (c *fakeConn) Close() error {
	f := c.db
	f.mu.Lock()
	defer f.mu.Unlock()
	f.record(event{Kind: "CLOSE", Conn: c.id, InTx: c.inTx})
	c.closed = true
	c.inTx = false // the server rolls back when the connection goes away
	return nil
}

func (c *fakeConn) Begin() (driver.Tx, error) {
	return c.BeginTx(context.Background(), driver.TxOptions{})
}

func (c *fakeConn) BeginTx(ctx context.Context, opts driver.TxOptions) (driver.Tx, error) {
	f := c.db
	f.mu.Lock()
	if c.inTx {
		f.troublef("BEGIN on connection %d which is already in a transaction", c.id)
	}
	f.mu.Unlock()
	if err := c.step(ctx, "BEGIN", "", 0); err != nil {
		return nil, err
	}
	f.mu.Lock()
	c.inTx = true
	c.txCtx = ctx
	f.mu.Unlock()
	return &fakeTx{c: c}, nil
}

func (c *fakeConn) ExecContext(ctx context.Context, query string, args []driver.NamedValue) (driver.Result, error) {
	return c.exec(ctx, "EXEC", query, len(args))
}

func (c *fakeConn) exec(ctx context.Context, kind, query string, nargs int) (driver.Result, error) {
	if err := c.step(ctx, kind, query, nargs); err != nil {
		return nil, err
	}
	return fakeResult{affected: c.db.scr.affected}, nil
}

func (c *fakeConn) QueryContext(ctx context.Context, query string, args []driver.NamedValue) (driver.Rows, error) {
	return c.query(ctx, "QUERY", query, len(args))
}

func (c *fakeConn) query(ctx context.Context, kind, query string, nargs int) (driver.Rows, error) {
	if err := c.step(ctx, kind, query, nargs); err != nil {
		return nil, err
	}
	cols, err := c.db.schema.derive(query)
	if err != nil {
		c.db.mu.Lock()
		c.db.troublef("cannot derive result columns: %v", err)
		c.db.mu.Unlock()
		return nil, err
	}
	rows := &fakeRows{}
	for _, cd := range cols {
		rows.cols = append(rows.cols, cd.name)
	}
	for r := 0; r < c.db.scr.rows; r++ {
		vals := make([]driver.Value, len(cols))
		for i, cd := range cols {
			vals[i] = valueFor(cd, r)
		}
		rows.data = append(rows.data, vals)
	}
	return rows, nil
}

func (c *fakeConn) Ping(ctx context.Context) error {
	c.db.mu.Lock()
	defer c.db.mu.Unlock()
	if c.broken || c.closed {
		return driver.ErrBadConn
	}
	return nil
}

// driver.SessionResetter and driver.Validator: the real MySQL driver implements both, which
// makes database/sql keep the connection after a context-triggered rollback.
func (c *fakeConn) ResetSession(ctx context.Context) error {
	c.db.mu.Lock()
	defer c.db.mu.Unlock()
	c.db.record(event{Kind: "RESET", Conn: c.id, InTx: c.inTx})
	if c.broken || c.closed {
		return driver.ErrBadConn
	}
	return nil
}

func (c *fakeConn) IsValid() bool {
	c.db.mu.Lock()
	defer c.db.mu.Unlock()
	return !c.broken && !c.closed
}

type fakeTx struct{ c *fakeConn }

func (x *fakeTx) Commit() error {
	c := x.c
	c.db.mu.Lock()
	if !c.inTx && !c.broken {
		c.db.troublef("COMMIT on connection %d which is not in a transaction", c.id)
	}
	c.db.mu.Unlock()
	err := c.step(nil, "COMMIT", "", 0)
	// Whatever the outcome, the client side considers the transaction finished
	// (database/sql releases the connection after a failed COMMIT too).
	c.db.mu.Lock()
	c.inTx = false
	c.db.mu.Unlock()
	return err
}

func (x *fakeTx) Rollback() error {
	c := x.c
	f := c.db
	f.mu.Lock()
	defer f.mu.Unlock()
	ev := event{Kind: "ROLLBACK", Conn: c.id, InTx: c.inTx}
	if c.broken {
		ev.Failed = "badconn(broken)"
		f.record(ev)
		return driver.ErrBadConn
	}
	f.record(ev)
	c.inTx = false
	return nil
}

type fakeStmt struct {
	c   *fakeConn
	sql string
}

func (s *fakeStmt) Close() error {
	s.c.db.mu.Lock()
	defer s.c.db.mu.Unlock()
	s.c.db.record(event{Kind: "STMT_CLOSE", Conn: s.c.id, SQL: normSQL(s.sql), InTx: s.c.inTx})
	return nil
}
func (s *fakeStmt) NumInput() int { return -1 }
func (s *fakeStmt) Exec(args []driver.Value) (driver.Result, error) {
	return s.c.exec(context.Background(), "STMT_EXEC", s.sql, len(args))
}
func (s *fakeStmt) Query(args []driver.Value) (driver.Rows, error) {
	return s.c.query(context.Background(), "STMT_QUERY", s.sql, len(args))
}
func (s *fakeStmt) ExecContext(ctx context.Context, args []driver.NamedValue) (driver.Result, error) {
	return s.c.exec(ctx, "STMT_EXEC", s.sql, len(args))
}
func (s *fakeStmt) QueryContext(ctx context.Context, args []driver.NamedValue) (driver.Rows, error) {
	return s.c.query(ctx, "STMT_QUERY", s.sql, len(args))
}

type fakeResult struct{ affected int64 }

func (r fakeResult) LastInsertId() (int64, error) { return 1, nil }
func (r fakeResult) RowsAffected() (int64, error) { return r.affected, nil }

type fakeRows struct {
	cols []string
	data [][]driver.Value
	pos  int
}

func (r *fakeRows) Columns() []string { return r.cols }
func (r *fakeRows) Close() error      { return nil }
func (r *fakeRows) Next(dest []driver.Value) error {
	if r.pos >= len(r.data) {
		return io.EOF
	}
	copy(dest, r.data[r.pos])
	r.pos++
	return nil
}

var (
	_ driver.Connector          = (*fakeDB)(nil)
	_ driver.ConnBeginTx        = (*fakeConn)(nil)
	_ driver.ExecerContext      = (*fakeConn)(nil)
	_ driver.QueryerContext     = (*fakeConn)(nil)
	_ driver.ConnPrepareContext = (*fakeConn)(nil)
	_ driver.Pinger             = (*fakeConn)(nil)
	_ driver.SessionResetter    = (*fakeConn)(nil)
	_ driver.Validator          = (*fakeConn)(nil)
	_ driver.StmtExecContext    = (*fakeStmt)(nil)
	_ driver.StmtQueryContext   = (*fakeStmt)(nil)
)

// ---------------------------------------------------------------------------------------
// Catalogue of operations and argument shapes
// ---------------------------------------------------------------------------------------

type opShape struct {
	op    string
	shape string
	// class "tx": one of the multi-record operations, all data statements must be inside one
	// transaction. class "single": single-statement autocommit write, checked only for error
	// reporting and panics.
	class string
	run   func(a *adapter) error
}

var (
	sfUid1 = t.Uid(0x1122334455667788)
	sfUid2 = t.Uid(0x2233445566778899)
	sfUid3 = t.Uid(0x33445566778899AA)
	sfFid1 = t.Uid(0x445566778899AABB)
	sfFid2 = t.Uid(0x5566778899AABBCC)
	sfMsg  = t.Uid(77)
	sfGrp  = "grpAAAAAAAAAAA"
	sfNow  = time.Date(2024, 1, 2, 3, 4, 5, 0, time.UTC)
)

func sfUser(tags []string) *t.User {
	u := &t.User{}
	u.SetUid(sfUid1)
	u.Id = sfUid1.String()
	u.CreatedAt, u.UpdatedAt = sfNow, sfNow
	u.Access = t.DefaultAccess{Auth: t.ModeCAuth, Anon: t.ModeNone}
	u.Public = map[string]any{"fn": "Alice"}
	u.Tags = tags
	return u
}

func sfTopic(name string, owner t.Uid, tags []string) *t.Topic {
	tp := &t.Topic{}
	tp.Id = name
	tp.CreatedAt, tp.UpdatedAt, tp.TouchedAt = sfNow, sfNow, sfNow
	if !owner.IsZero() {
		tp.Owner = owner.String()
	}
	tp.Access = t.DefaultAccess{Auth: t.ModeCPublic, Anon: t.ModeNone}
	tp.Public = map[string]any{"fn": "Topic"}
	tp.Tags = tags
	return tp
}

func sfSub(topic string, uid t.Uid, mode t.AccessMode) *t.Subscription {
	s := &t.Subscription{}
	s.CreatedAt, s.UpdatedAt = sfNow, sfNow
	s.User = uid.String()
	s.Topic = topic
	s.ModeWant, s.ModeGiven = mode, mode
	s.Private = map[string]any{"comment": "x"}
	return s
}

func sfDel(forUser t.Uid, ranges ...t.Range) *t.DelMessage {
	d := &t.DelMessage{Topic: sfGrp, DelId: 3, SeqIdRanges: ranges}
	if !forUser.IsZero() {
		d.DeletedFor = forUser.String()
	}
	return d
}

func sfFileDef() *t.FileDef {
	fd := &t.FileDef{}
	fd.SetUid(sfFid1)
	fd.Id = sfFid1.String()
	fd.CreatedAt, fd.UpdatedAt = sfNow, sfNow
	fd.User = sfUid1.String()
	fd.MimeType = "text/plain"
	fd.Location = "loc"
	return fd
}

func catalogue() []opShape {
	p2p := sfUid1.P2PName(sfUid2)
	var c []opShape
	add := func(op, shape string, run func(a *adapter) error) {
		c = append(c, opShape{op: op, shape: shape, class: "tx", run: run})
	}
	single := func(op, shape string, run func(a *adapter) error) {
		c = append(c, opShape{op: op, shape: shape, class: "single", run: run})
	}

	// --- users
	add("UserCreate", "notags", func(a *adapter) error { return a.UserCreate(sfUser(nil)) })
	add("UserCreate", "tags1", func(a *adapter) error { return a.UserCreate(sfUser([]string{"a"})) })
	add("UserCreate", "tags2", func(a *adapter) error { return a.UserCreate(sfUser([]string{"a", "b"})) })
	add("UserDelete", "hard", func(a *adapter) error { return a.UserDelete(sfUid1, true) })
	add("UserDelete", "soft", func(a *adapter) error { return a.UserDelete(sfUid1, false) })
	add("UserUpdate", "plain", func(a *adapter) error {
		return a.UserUpdate(sfUid1, map[string]any{"UpdatedAt": sfNow, "Public": map[string]any{"fn": "B"}})
	})
	add("UserUpdate", "state", func(a *adapter) error {
		return a.UserUpdate(sfUid1, map[string]any{"State": t.StateSuspended, "StateAt": sfNow})
	})
	add("UserUpdate", "state-malformed", func(a *adapter) error {
		return a.UserUpdate(sfUid1, map[string]any{"State": "suspended"})
	})
	add("UserUpdate", "tags2", func(a *adapter) error {
		return a.UserUpdate(sfUid1, map[string]any{"Tags": t.StringSlice{"a", "b"}})
	})
	add("UserUpdate", "tags-empty", func(a *adapter) error {
		return a.UserUpdate(sfUid1, map[string]any{"Tags": t.StringSlice{}})
	})
	add("UserUpdate", "state+tags1", func(a *adapter) error {
		return a.UserUpdate(sfUid1, map[string]any{"State": t.StateOK, "Tags": t.StringSlice{"a"}})
	})
	add("UserUpdateTags", "add2", func(a *adapter) error {
		_, err := a.UserUpdateTags(sfUid1, []string{"a", "b"}, nil, nil)
		return err
	})
	add("UserUpdateTags", "remove2", func(a *adapter) error {
		_, err := a.UserUpdateTags(sfUid1, nil, []string{"a", "b"}, nil)
		return err
	})
	add("UserUpdateTags", "add1+remove1", func(a *adapter) error {
		_, err := a.UserUpdateTags(sfUid1, []string{"a"}, []string{"b"}, nil)
		return err
	})
	add("UserUpdateTags", "reset2", func(a *adapter) error {
		_, err := a.UserUpdateTags(sfUid1, nil, nil, []string{"a", "b"})
		return err
	})
	add("UserUpdateTags", "reset-empty", func(a *adapter) error {
		_, err := a.UserUpdateTags(sfUid1, nil, nil, []string{})
		return err
	})
	add("UserUpdateTags", "none", func(a *adapter) error {
		_, err := a.UserUpdateTags(sfUid1, nil, nil, nil)
		return err
	})

	// --- topics
	add("TopicCreate", "grp-owner-notags", func(a *adapter) error { return a.TopicCreate(sfTopic(sfGrp, sfUid1, nil)) })
	add("TopicCreate", "grp-owner-tags2", func(a *adapter) error {
		return a.TopicCreate(sfTopic(sfGrp, sfUid1, []string{"a", "b"}))
	})
	add("TopicCreate", "p2p-noowner-notags", func(a *adapter) error { return a.TopicCreate(sfTopic(p2p, t.ZeroUid, nil)) })
	add("TopicCreate", "p2p-noowner-tags1", func(a *adapter) error {
		return a.TopicCreate(sfTopic(p2p, t.ZeroUid, []string{"a"}))
	})
	add("TopicCreateP2P", "plain", func(a *adapter) error {
		return a.TopicCreateP2P(sfSub(p2p, sfUid1, t.ModeCP2P), sfSub(p2p, sfUid2, t.ModeCP2P))
	})
	add("TopicCreateP2P", "owner-modes", func(a *adapter) error {
		return a.TopicCreateP2P(sfSub(p2p, sfUid1, t.ModeCFull), sfSub(p2p, sfUid2, t.ModeCFull))
	})
	add("TopicShare", "subs1", func(a *adapter) error {
		return a.TopicShare([]*t.Subscription{sfSub(sfGrp, sfUid1, t.ModeCPublic)})
	})
	add("TopicShare", "subs1-owner", func(a *adapter) error {
		return a.TopicShare([]*t.Subscription{sfSub(sfGrp, sfUid1, t.ModeCFull)})
	})
	add("TopicShare", "subs2", func(a *adapter) error {
		return a.TopicShare([]*t.Subscription{sfSub(sfGrp, sfUid1, t.ModeCPublic), sfSub(sfGrp, sfUid2, t.ModeCPublic)})
	})
	add("TopicShare", "subs3", func(a *adapter) error {
		return a.TopicShare([]*t.Subscription{sfSub(sfGrp, sfUid1, t.ModeCFull), sfSub(sfGrp, sfUid2, t.ModeCPublic),
			sfSub(sfGrp, sfUid3, t.ModeCPublic)})
	})
	add("TopicShare", "subs2-owner-second", func(a *adapter) error {
		return a.TopicShare([]*t.Subscription{sfSub(sfGrp, sfUid1, t.ModeCPublic), sfSub(sfGrp, sfUid2, t.ModeCFull)})
	})
	add("TopicShare", "subs0", func(a *adapter) error { return a.TopicShare(nil) })
	add("TopicDelete", "hard-chan", func(a *adapter) error { return a.TopicDelete(sfGrp, true, true) })
	add("TopicDelete", "hard-nochan", func(a *adapter) error { return a.TopicDelete(sfGrp, false, true) })
	add("TopicDelete", "soft-chan", func(a *adapter) error { return a.TopicDelete(sfGrp, true, false) })
	add("TopicDelete", "soft-nochan", func(a *adapter) error { return a.TopicDelete(sfGrp, false, false) })
	add("TopicUpdate", "plain", func(a *adapter) error {
		return a.TopicUpdate(sfGrp, map[string]any{"Public": map[string]any{"fn": "T"}})
	})
	add("TopicUpdate", "updatedat", func(a *adapter) error {
		return a.TopicUpdate(sfGrp, map[string]any{"UpdatedAt": sfNow})
	})
	add("TopicUpdate", "tags2", func(a *adapter) error {
		return a.TopicUpdate(sfGrp, map[string]any{"Tags": t.StringSlice{"a", "b"}})
	})
	add("TopicUpdate", "tags-empty", func(a *adapter) error {
		return a.TopicUpdate(sfGrp, map[string]any{"Tags": t.StringSlice{}})
	})

	// --- subscriptions
	add("SubsUpdate", "all-users", func(a *adapter) error {
		return a.SubsUpdate(sfGrp, t.ZeroUid, map[string]any{"UpdatedAt": sfNow})
	})
	add("SubsUpdate", "one-user", func(a *adapter) error {
		return a.SubsUpdate(sfGrp, sfUid1, map[string]any{"ModeGiven": "JRWP", "Private": map[string]any{"c": 1}})
	})
	add("SubsDelete", "one", func(a *adapter) error { return a.SubsDelete(sfGrp, sfUid1) })
	add("SubsDelForUser", "hard", func(a *adapter) error { return a.SubsDelForUser(sfUid1, true) })
	add("SubsDelForUser", "soft", func(a *adapter) error { return a.SubsDelForUser(sfUid1, false) })

	// --- messages
	add("MessageDeleteList", "whole-topic", func(a *adapter) error { return a.MessageDeleteList(sfGrp, nil) })
	add("MessageDeleteList", "soft-range1", func(a *adapter) error {
		return a.MessageDeleteList(sfGrp, sfDel(sfUid1, t.Range{Low: 2, Hi: 5}))
	})
	add("MessageDeleteList", "soft-range3", func(a *adapter) error {
		return a.MessageDeleteList(sfGrp, sfDel(sfUid1, t.Range{Low: 2, Hi: 5}, t.Range{Low: 7}, t.Range{Low: 9, Hi: 11}))
	})
	add("MessageDeleteList", "hard-range1-between", func(a *adapter) error {
		return a.MessageDeleteList(sfGrp, sfDel(t.ZeroUid, t.Range{Low: 2, Hi: 5}))
	})
	add("MessageDeleteList", "hard-range1-single", func(a *adapter) error {
		return a.MessageDeleteList(sfGrp, sfDel(t.ZeroUid, t.Range{Low: 2}))
	})
	add("MessageDeleteList", "hard-range2", func(a *adapter) error {
		return a.MessageDeleteList(sfGrp, sfDel(t.ZeroUid, t.Range{Low: 2, Hi: 5}, t.Range{Low: 7}))
	})
	add("MessageDeleteList", "hard-range3", func(a *adapter) error {
		return a.MessageDeleteList(sfGrp, sfDel(t.ZeroUid, t.Range{Low: 2, Hi: 5}, t.Range{Low: 7}, t.Range{Low: 9, Hi: 11}))
	})

	// --- devices
	add("DeviceUpsert", "one", func(a *adapter) error {
		return a.DeviceUpsert(sfUid1, &t.DeviceDef{DeviceId: "dev1", Platform: "android", LastSeen: sfNow, Lang: "en"})
	})
	add("DeviceDelete", "one-device", func(a *adapter) error { return a.DeviceDelete(sfUid1, "dev1") })
	add("DeviceDelete", "all-devices", func(a *adapter) error { return a.DeviceDelete(sfUid1, "") })

	// --- credentials
	cred := func(done bool) *t.Credential {
		cr := &t.Credential{User: sfUid1.String(), Method: "email", Value: "a@example.com", Resp: "123456", Done: done}
		cr.CreatedAt, cr.UpdatedAt = sfNow, sfNow
		return cr
	}
	add("CredUpsert", "unvalidated", func(a *adapter) error { _, err := a.CredUpsert(cred(false)); return err })
	add("CredUpsert", "validated", func(a *adapter) error { _, err := a.CredUpsert(cred(true)); return err })
	add("CredDel", "all-methods", func(a *adapter) error { return a.CredDel(sfUid1, "", "") })
	add("CredDel", "method", func(a *adapter) error { return a.CredDel(sfUid1, "email", "") })
	add("CredDel", "method+value", func(a *adapter) error { return a.CredDel(sfUid1, "email", "a@example.com") })

	// --- files
	add("FileFinishUpload", "success", func(a *adapter) error { _, err := a.FileFinishUpload(sfFileDef(), true, 100); return err })
	add("FileFinishUpload", "failure", func(a *adapter) error { _, err := a.FileFinishUpload(sfFileDef(), false, 0); return err })
	add("FileDeleteUnused", "unbounded", func(a *adapter) error { _, err := a.FileDeleteUnused(time.Time{}, 0); return err })
	add("FileDeleteUnused", "olderthan+limit", func(a *adapter) error { _, err := a.FileDeleteUnused(sfNow, 10); return err })
	f1, f2 := sfFid1.String(), sfFid2.String()
	add("FileLinkAttachments", "topic-fid1", func(a *adapter) error {
		return a.FileLinkAttachments(sfGrp, t.ZeroUid, t.ZeroUid, []string{f1})
	})
	add("FileLinkAttachments", "topic-fid2", func(a *adapter) error {
		return a.FileLinkAttachments(sfGrp, t.ZeroUid, t.ZeroUid, []string{f1, f2})
	})
	add("FileLinkAttachments", "user-fid1", func(a *adapter) error {
		return a.FileLinkAttachments("", sfUid1, t.ZeroUid, []string{f1})
	})
	add("FileLinkAttachments", "user-fid2", func(a *adapter) error {
		return a.FileLinkAttachments("", sfUid1, t.ZeroUid, []string{f1, f2})
	})
	add("FileLinkAttachments", "msg-fid1", func(a *adapter) error {
		return a.FileLinkAttachments(sfGrp, t.ZeroUid, sfMsg, []string{f1})
	})
	add("FileLinkAttachments", "msg-fid2", func(a *adapter) error {
		return a.FileLinkAttachments(sfGrp, t.ZeroUid, sfMsg, []string{f1, f2})
	})
	add("FileLinkAttachments", "no-fids", func(a *adapter) error {
		return a.FileLinkAttachments(sfGrp, t.ZeroUid, t.ZeroUid, nil)
	})

	// --- single-statement autocommit writes (not part of the C18 quantifier; checked for
	// error reporting and panics only).
	single("AuthAddRecord", "basic", func(a *adapter) error {
		return a.AuthAddRecord(sfUid1, "basic", "basic:alice", auth.LevelAuth, []byte("secret"), sfNow)
	})
	single("AuthDelScheme", "basic", func(a *adapter) error { return a.AuthDelScheme(sfUid1, "basic") })
	single("AuthDelAllRecords", "user", func(a *adapter) error { _, err := a.AuthDelAllRecords(sfUid1); return err })
	single("AuthUpdRecord", "all-fields", func(a *adapter) error {
		return a.AuthUpdRecord(sfUid1, "basic", "basic:alice", auth.LevelAuth, []byte("secret"), sfNow)
	})
	single("TopicUpdateOnMessage", "msg", func(a *adapter) error {
		m := &t.Message{SeqId: 5}
		m.CreatedAt = sfNow
		return a.TopicUpdateOnMessage(sfGrp, m)
	})
	single("TopicOwnerChange", "owner", func(a *adapter) error { return a.TopicOwnerChange(sfGrp, sfUid2) })
	single("MessageSave", "msg", func(a *adapter) error {
		m := &t.Message{SeqId: 5, Topic: sfGrp, From: sfUid1.String(), Content: "hello"}
		m.CreatedAt, m.UpdatedAt = sfNow, sfNow
		return a.MessageSave(m)
	})
	single("CredConfirm", "email", func(a *adapter) error { return a.CredConfirm(sfUid1, "email") })
	single("CredFail", "email", func(a *adapter) error { return a.CredFail(sfUid1, "email") })
	single("FileStartUpload", "file", func(a *adapter) error { return a.FileStartUpload(sfFileDef()) })
	single("PCacheUpsert", "insert", func(a *adapter) error { return a.PCacheUpsert("key", "v", true) })
	single("PCacheUpsert", "replace", func(a *adapter) error { return a.PCacheUpsert("key", "v", false) })
	single("PCacheDelete", "key", func(a *adapter) error { return a.PCacheDelete("key") })
	single("PCacheExpire", "prefix", func(a *adapter) error { return a.PCacheExpire("key", sfNow) })
	return c
}

// Operations of adapter.go which open a transaction but are not enumerated.
var skippedOps = []map[string]string{
	{"op": "CreateDb", "reason": "schema creation: closes the injected connection and opens a real one through " +
		"sqlx.Open(\"mysql\", dsn), so it cannot run on the fake driver; it issues DDL which MySQL auto-commits anyway"},
	{"op": "UpgradeDb", "reason": "schema migration: a chain of auto-committing DDL statements driven by the stored " +
		"version number; not a store operation of the C18 quantifier"},
}

// dupeHandled lists the statements after which the adapter deliberately continues the
// transaction when MySQL reports a duplicate key (MySQL rolls back only the failed
// statement, so continuing and committing is legitimate). A duplicate-key fault on any other
// statement followed by COMMIT is reported as commit-after-failure.
//
// The same list drives the "by-design duplicate scripts": extra baselines in which one (or
// every) such statement returns error 1062 as a condition of the run, so that single faults
// are also enumerated over the fallback statements that only run after a duplicate.
// These are all the places where adapter.go continues after isDupe(err); every other
// isDupe check translates the error to t.ErrDuplicate and returns it.
var dupeHandled = []struct {
	op, sqlPrefix string
	shapeOK       func(shape string) bool // nil = every shape of the operation
	why           string
}{
	{"TopicCreateP2P", "INSERT INTO subscriptions(", nil, "createSubscription: INSERT falls back to UPDATE of the existing row"},
	{"TopicShare", "INSERT INTO subscriptions(", nil, "createSubscription: INSERT falls back to UPDATE of the existing row"},
	// addTags ignores duplicates only when called with ignoreDups=true: UserUpdateTags without reset.
	{"UserUpdateTags", "INSERT INTO usertags(", func(shape string) bool { return !strings.HasPrefix(shape, "reset") },
		"addTags(ignoreDups=true): existing tag is kept"},
}

const sfDupeAll = -1

// handledMatcher returns the predicate selecting the by-design-duplicate statements of a shape,
// nil when the shape has none.
func handledMatcher(sh *opShape) func(sql string) bool {
	var prefixes []string
	for _, h := range dupeHandled {
		if h.op == sh.op && (h.shapeOK == nil || h.shapeOK(sh.shape)) {
			prefixes = append(prefixes, h.sqlPrefix)
		}
	}
	if len(prefixes) == 0 {
		return nil
	}
	return func(sql string) bool {
		for _, p := range prefixes {
			if strings.HasPrefix(sql, p) {
				return true
			}
		}
		return false
	}
}

func dupeLabel(shape string, occ int) string {
	switch occ {
	case 0:
		return shape
	case sfDupeAll:
		return shape + "+dupe@all"
	}
	return shape + "+dupe@" + strconv.Itoa(occ)
}

// ---------------------------------------------------------------------------------------
// Running one operation against a fresh fake database
// ---------------------------------------------------------------------------------------

type runResult struct {
	events     []event
	err        error
	panicText  string // non-empty: the adapter (or a library under it) panicked
	inUse      int
	openTxConn []int
	fired      bool
	trouble    []string
}

func panicOriginInHarness(stack string) bool {
	lines := strings.Split(stack, "\n")
	seenPanic := false
	for i := 0; i+1 < len(lines); i++ {
		fn := lines[i]
		if !seenPanic {
			if strings.HasPrefix(fn, "panic(") {
				seenPanic = true
				i++
			}
			continue
		}
		if strings.HasPrefix(fn, "\t") {
			continue
		}
		if strings.HasPrefix(fn, "runtime.") {
			i++
			continue
		}
		return strings.Contains(lines[i+1], "zz_sqlfault_test.go")
	}
	return false
}

func safeCall(f func() error) (err error, panicText string, inHarness bool) {
	defer func() {
		if r := recover(); r != nil {
			st := string(debug.Stack())
			panicText = fmt.Sprint(r)
			inHarness = panicOriginInHarness(st)
			if inHarness {
				panicText += "\n" + st
			}
		}
	}()
	return f(), "", false
}

func runOnce(sc *sfSchema, sh *opShape, scr script, dupeOcc int, k int, fk faultKind, timeout time.Duration) runResult {
	fdb := &fakeDB{schema: sc, scr: scr, faultAt: k, fault: fk, dupeOcc: dupeOcc}
	if dupeOcc != 0 {
		fdb.dupeMatch = handledMatcher(sh)
	}
	sqlDB := sql.OpenDB(fdb)
	a := &adapter{db: sqlx.NewDb(sqlDB, "mysql"), dbName: "tinode", maxResults: 1024, maxMessageResults: 100}
	if fk == fkDeadline {
		a.sqlTimeout = timeout
		a.txTimeout = timeout
	}
	err, panicText, inHarness := safeCall(func() error { return sh.run(a) })
	fdb.mark("RETURN")

	quiet := func() (int, []int) {
		inUse := sqlDB.Stats().InUse
		var open []int
		fdb.mu.Lock()
		for _, c := range fdb.conns {
			if c.inTx && !c.closed && !c.broken {
				open = append(open, c.id)
			}
		}
		fdb.mu.Unlock()
		return inUse, open
	}
	inUse, open := quiet()
	if fk == fkDeadline {
		// The rollback triggered by the expired context runs in a goroutine of database/sql.
		for i := 0; i < 2000 && (inUse != 0 || len(open) != 0); i++ {
			time.Sleep(time.Millisecond)
			inUse, open = quiet()
		}
	}
	fdb.mu.Lock()
	fdb.sealed = true
	res := runResult{
		events:     append([]event(nil), fdb.events...),
		err:        err,
		inUse:      inUse,
		openTxConn: open,
		fired:      fdb.fired,
		trouble:    append([]string(nil), fdb.trouble...),
	}
	fdb.mu.Unlock()
	if inHarness {
		res.trouble = append(res.trouble, "panic in the fake driver: "+panicText)
	} else {
		res.panicText = panicText
	}
	sqlDB.Close()
	return res
}

func sfCommitted(evs []event) bool {
	for _, e := range evs {
		if e.Kind == "COMMIT" && e.Failed == "" {
			return true
		}
	}
	return false
}

func countStatements(evs []event) int {
	n := 0
	for _, e := range evs {
		if e.Ord > n {
			n = e.Ord
		}
	}
	return n
}

func fmtStream(evs []event) string {
	var b strings.Builder
	for i, e := range evs {
		if i > 0 {
			b.WriteString(" | ")
		}
		if e.Kind == "RETURN" {
			b.WriteString("RETURN")
			continue
		}
		if e.Ord > 0 {
			fmt.Fprintf(&b, "#%d ", e.Ord)
		}
		fmt.Fprintf(&b, "c%d %s", e.Conn, e.Kind)
		if e.SQL != "" {
			s := e.SQL
			if len(s) > 100 {
				s = s[:100] + "..."
			}
			fmt.Fprintf(&b, " %q/%d", s, e.NArgs)
		}
		if e.Kind != "OPEN" && e.Kind != "CLOSE" && e.Kind != "RESET" && e.Kind != "STMT_CLOSE" &&
			e.Kind != "BEGIN" && e.Kind != "COMMIT" && e.Kind != "ROLLBACK" && !e.InTx {
			b.WriteString(" [autocommit]")
		}
		if e.Scripted {
			b.WriteString(" ~dupe(by-design script)")
		}
		if e.Failed != "" {
			fmt.Fprintf(&b, " !%s", e.Failed)
		}
	}
	return b.String()
}

// ---------------------------------------------------------------------------------------
// Oracle
// ---------------------------------------------------------------------------------------

func isSentinel(err error) bool {
	var se t.StoreError
	return errors.As(err, &se)
}

type finding struct {
	rule string
	note bool // informational, goes to "notes" instead of "violations"
	why  string
}

// judge applies the C18 rules to one run.
func judge(sh *opShape, fk faultKind, r runResult) []finding {
	var out []finding
	add := func(rule, why string) {
		for _, f := range out {
			if f.rule == rule {
				return
			}
		}
		out = append(out, finding{rule: rule, why: why})
	}
	evs := r.events
	retIdx := len(evs)
	for i, e := range evs {
		if e.Kind == "RETURN" {
			retIdx = i
			break
		}
	}

	if r.panicText != "" {
		add("panic", "the operation panicked: "+r.panicText)
	}

	// Effective failure: the first failed counted statement which database/sql does not
	// transparently retry. ErrBadConn outside a transaction (BEGIN included) is retried by
	// database/sql on another connection; it counts as absorbed when the same statement
	// succeeds later.
	failIdx := -1
	for i, e := range evs {
		if e.Failed == "" || e.Ord == 0 {
			continue
		}
		if e.Failed == "badconn" && !e.InTx && e.Kind != "COMMIT" {
			absorbed := false
			for _, l := range evs[i+1:] {
				if l.Kind == e.Kind && l.SQL == e.SQL && l.Failed == "" {
					absorbed = true
					break
				}
			}
			if absorbed {
				continue
			}
		}
		failIdx = i
		break
	}
	if failIdx >= 0 && evs[failIdx].Failed == "deadline(no-context)" {
		add("stmt-no-deadline", fmt.Sprintf("%s is issued with neither a statement context nor a transaction context "+
			"that can expire: the configured deadline does not apply to it", evs[failIdx].Kind))
	}

	// Rule 1: one BEGIN, data statements inside the transaction.
	begins, commits, rollbacks := 0, 0, 0
	firstBegin := -1
	for i, e := range evs {
		switch e.Kind {
		case "BEGIN":
			if e.Failed == "" {
				begins++
				if firstBegin < 0 {
					firstBegin = i
				}
			}
		case "COMMIT":
			if e.Failed == "" {
				commits++
			}
		case "ROLLBACK":
			rollbacks++
		}
	}
	if begins > 1 {
		add("multiple-begin", fmt.Sprintf("%d transactions were started by one operation", begins))
	}
	if sh.class == "tx" {
		for i, e := range evs {
			if !e.isStatement() || e.InTx || strings.HasPrefix(e.Failed, "badconn") {
				continue
			}
			if isWriteSQL(e.SQL) {
				add("write-outside-tx", fmt.Sprintf("write statement #%d %q was issued outside a transaction", e.Ord, e.SQL))
			} else if firstBegin >= 0 && i > firstBegin {
				add("read-outside-tx", fmt.Sprintf("read statement #%d %q was issued outside the operation's transaction "+
					"after it began", e.Ord, e.SQL))
			}
		}
	}

	if failIdx >= 0 {
		fe := evs[failIdx]
		// Expected continuation after a duplicate key?
		handledDupe := false
		if fe.Failed == "dupe" {
			if m := handledMatcher(sh); m != nil && m(fe.SQL) {
				handledDupe = true
			}
		}
		committedAfter := false
		for _, l := range evs[failIdx+1:] {
			if l.Kind == "COMMIT" {
				committedAfter = true
			}
		}
		if handledDupe && committedAfter && r.err == nil {
			out = append(out, finding{rule: "dupe-absorbed-by-design", note: true,
				why: "duplicate key on " + fe.SQL + " is handled by the adapter and the transaction commits"})
		} else {
			// Rule 2.
			if committedAfter {
				add("commit-after-failure", fmt.Sprintf("COMMIT was issued after statement #%d failed", fe.Ord))
			}
			if fe.Kind != "COMMIT" && fe.Kind != "BEGIN" && fe.InTx {
				ended, endedBeforeReturn := false, false
				for i := failIdx; i < len(evs); i++ {
					l := evs[i]
					if l.Conn != fe.Conn {
						continue
					}
					if (i > failIdx && (l.Kind == "ROLLBACK" || l.Kind == "CLOSE")) || (l.Kind == "COMMIT" && i > failIdx) {
						ended = true
						if i < retIdx {
							endedBeforeReturn = true
						}
						break
					}
				}
				if !ended {
					add("no-rollback", fmt.Sprintf("statement #%d failed inside a transaction which was never rolled back", fe.Ord))
				} else if !endedBeforeReturn && fk != fkDeadline {
					add("no-rollback", fmt.Sprintf("statement #%d failed inside a transaction which was not rolled back "+
						"before the operation returned", fe.Ord))
				}
			}
			if r.err == nil && r.panicText == "" {
				if fe.Kind == "COMMIT" {
					// Rule 5.
					add("commit-error-swallowed", "COMMIT failed but the operation returned nil")
				} else {
					add("error-swallowed", fmt.Sprintf("statement #%d (%s) failed but the operation returned nil", fe.Ord, fe.Kind))
				}
			}
		}
	} else if r.panicText == "" {
		// Rule 3: nothing failed.
		if r.err == nil {
			if sh.class == "tx" {
				if begins == 0 {
					// Nothing was written (rule 1 flags writes outside a transaction).
				} else if commits == 0 {
					add("no-commit", "nothing failed and nil was returned but the transaction was not committed")
				} else if commits > 1 {
					add("multiple-commit", fmt.Sprintf("%d COMMITs in one operation", commits))
				}
				if rollbacks > 0 && commits > 0 {
					add("rollback-and-commit", "both COMMIT and ROLLBACK were issued although nothing failed")
				}
			}
		} else if isSentinel(r.err) {
			if commits > 0 {
				add("sentinel-after-commit", fmt.Sprintf("store sentinel %q was returned although the transaction was committed", r.err))
			}
			if begins > 0 && commits == 0 {
				rb := false
				for i := firstBegin; i < retIdx; i++ {
					if evs[i].Kind == "ROLLBACK" || evs[i].Kind == "CLOSE" {
						rb = true
					}
				}
				if !rb {
					add("no-rollback", fmt.Sprintf("store sentinel %q was returned without rolling the transaction back", r.err))
				}
			}
		} else {
			add("unexpected-error", fmt.Sprintf("no statement failed but the operation returned %q", r.err))
		}
	}

	// Rule 4.
	if r.inUse != 0 || len(r.openTxConn) != 0 {
		add("tx-left-open", fmt.Sprintf("after return: %d pooled connection(s) still in use, open transaction on connection(s) %v",
			r.inUse, r.openTxConn))
	}
	return out
}

// ---------------------------------------------------------------------------------------
// Self-check of the column derivation with the adapter's read methods.
// ---------------------------------------------------------------------------------------

func readChecks() []opShape {
	p2p := sfUid1.P2PName(sfUid2)
	var c []opShape
	add := func(op string, run func(a *adapter) error) {
		c = append(c, opShape{op: op, shape: "read", class: "read", run: run})
	}
	add("GetDbVersion", func(a *adapter) error { _, err := a.GetDbVersion(); return err })
	add("AuthGetRecord", func(a *adapter) error { _, _, _, _, err := a.AuthGetRecord(sfUid1, "basic"); return err })
	add("AuthGetUniqueRecord", func(a *adapter) error { _, _, _, _, err := a.AuthGetUniqueRecord("basic:alice"); return err })
	add("UserGet", func(a *adapter) error { _, err := a.UserGet(sfUid1); return err })
	add("UserGetAll", func(a *adapter) error { _, err := a.UserGetAll(sfUid1, sfUid2); return err })
	add("UserGetByCred", func(a *adapter) error { _, err := a.UserGetByCred("email", "a@example.com"); return err })
	add("UserUnreadCount", func(a *adapter) error { _, err := a.UserUnreadCount(sfUid1, sfUid2); return err })
	add("UserGetUnvalidated", func(a *adapter) error { _, err := a.UserGetUnvalidated(sfNow, 10); return err })
	add("TopicGet", func(a *adapter) error { _, err := a.TopicGet(sfGrp); return err })
	add("TopicsForUser", func(a *adapter) error { _, err := a.TopicsForUser(sfUid1, false, nil); return err })
	add("UsersForTopic-grp", func(a *adapter) error { _, err := a.UsersForTopic(sfGrp, false, nil); return err })
	add("UsersForTopic-p2p", func(a *adapter) error { _, err := a.UsersForTopic(p2p, true, nil); return err })
	add("OwnTopics", func(a *adapter) error { _, err := a.OwnTopics(sfUid1); return err })
	add("ChannelsForUser", func(a *adapter) error { _, err := a.ChannelsForUser(sfUid1); return err })
	add("SubscriptionGet", func(a *adapter) error { _, err := a.SubscriptionGet(sfGrp, sfUid1, true); return err })
	add("SubsForUser", func(a *adapter) error { _, err := a.SubsForUser(sfUid1); return err })
	add("SubsForTopic", func(a *adapter) error { _, err := a.SubsForTopic(sfGrp, false, nil); return err })
	add("FindUsers", func(a *adapter) error {
		_, err := a.FindUsers(sfUid1, [][]string{{"a", "b"}}, []string{"c"}, true)
		return err
	})
	add("FindTopics", func(a *adapter) error {
		_, err := a.FindTopics([][]string{{"a", "b"}}, []string{"c"}, true)
		return err
	})
	add("MessageGetAll", func(a *adapter) error { _, err := a.MessageGetAll(sfGrp, sfUid1, nil); return err })
	add("MessageGetDeleted", func(a *adapter) error { _, err := a.MessageGetDeleted(sfGrp, sfUid1, nil); return err })
	add("DeviceGetAll", func(a *adapter) error { _, _, err := a.DeviceGetAll(sfUid1); return err })
	add("CredGetActive", func(a *adapter) error { _, err := a.CredGetActive(sfUid1, "email"); return err })
	add("CredGetAll", func(a *adapter) error { _, err := a.CredGetAll(sfUid1, "", false); return err })
	add("FileGet", func(a *adapter) error { _, err := a.FileGet(sfFid1.String()); return err })
	add("PCacheGet", func(a *adapter) error { _, err := a.PCacheGet("key"); return err })
	return c
}

// ---------------------------------------------------------------------------------------
// The test
// ---------------------------------------------------------------------------------------

type sfJob struct {
	shape   *opShape
	dupeOcc int // by-design duplicate script: 0 none, n = n-th handled statement, sfDupeAll
	scr     script
	k       int
	fk      faultKind
	res     runResult
}

type sfViolation struct {
	Key   string `json:"key"`
	Text  string `json:"text"`
	Count int    `json:"count"`
}

type sfBaseline struct {
	Op      string `json:"op"`
	Shape   string `json:"shape"`
	Script  string `json:"script"`
	N       int    `json:"n"`
	Outcome string `json:"outcome"`
	Stream  string `json:"stream"`
}

type sfReport struct {
	Ops       int `json:"ops"`
	TxOps     int `json:"tx_ops"`
	SingleOps int `json:"single_ops"`
	Shapes    int `json:"shapes"`
	Scripts   int `json:"scripts_per_shape_max"`
	Runs      int `json:"runs"`
	FaultFree int `json:"fault_free_runs"`
	// Of the fault-free runs: baselines run under a by-design duplicate script.
	DupeBaselines int            `json:"dupe_baselines"`
	FaultsByKind  map[string]int `json:"faults_by_kind"`
	MaxStreamLen  int            `json:"max_stream_len"`
	// How the deadline faults were delivered: through the statement's own context, only
	// through the context of the enclosing transaction, or not at all (no context).
	DeadlineVia map[string]int      `json:"deadline_delivered_via"`
	Violations  []sfViolation       `json:"violations"`
	Notes       []sfViolation       `json:"notes"`
	Skipped     []map[string]string `json:"skipped"`
	Baselines   []sfBaseline        `json:"baselines"`
	ElapsedMs   int64               `json:"elapsed_ms"`
}

func sfInitUidGen(tb testing.TB) {
	// store.DecodeUid/EncodeUid need the package-level UID generator of the store, which is
	// initialised only by store.Store.Open. The Open is expected to FAIL (there is no MySQL
	// behind the unix socket) after the generator has been initialised.
	cfg := `{"uid_key":"la6YsO+bNX/+XIkOqc5Svw==","use_adapter":"mysql",` +
		`"adapters":{"mysql":{"dsn":"root@unix(/nonexistent/sqlfault.sock)/tinode"}}}`
	err := store.Store.Open(1, json.RawMessage(cfg))
	if err == nil {
		tb.Fatalf("store.Store.Open unexpectedly succeeded")
	}
	store.Store.Close()
	if store.DecodeUid(store.EncodeUid(12345)) != 12345 {
		tb.Fatalf("UID generator is not initialised (store.Open said: %v)", err)
	}
}

func TestSQLFault(tt *testing.T) {
	started := time.Now()
	sfInitUidGen(tt)
	sc, err := parseSchema()
	if err != nil {
		tt.Fatalf("cannot derive the schema from CreateDb in adapter.go: %v", err)
	}

	// Self-check: the derived result sets must be scannable by the adapter's readers.
	for _, rc := range readChecks() {
		rc := rc
		for _, rows := range []int{0, 1, 2} {
			r := runOnce(sc, &rc, script{rows: rows, affected: 1}, 0, 0, fkNone, 0)
			if len(r.trouble) > 0 || r.panicText != "" {
				tt.Errorf("column self-check %s rows=%d: trouble=%v panic=%q", rc.op, rows, r.trouble, r.panicText)
			} else if r.err != nil && !isSentinel(r.err) && rows > 0 {
				tt.Errorf("column self-check %s rows=%d: %v\n  %s", rc.op, rows, r.err, fmtStream(r.events))
			}
		}
	}
	if tt.Failed() {
		return
	}

	cat := catalogue()
	skipped := map[string]bool{}
	for _, s := range skippedOps {
		skipped[s["op"]] = true
	}

	rep := sfReport{FaultsByKind: map[string]int{}, DeadlineVia: map[string]int{}, Skipped: skippedOps}
	opNames := map[string]string{}
	for _, sh := range cat {
		opNames[sh.op] = sh.class
	}
	rep.Ops = len(opNames)
	for _, cl := range opNames {
		if cl == "tx" {
			rep.TxOps++
		} else {
			rep.SingleOps++
		}
	}
	rep.Shapes = len(cat)

	// Phase 1: fault-free baselines, sequential.
	var jobs []*sfJob
	addBaseline := func(sh *opShape, scr script, dupeOcc int) (runResult, bool) {
		label := dupeLabel(sh.shape, dupeOcc)
		base := runOnce(sc, sh, scr, dupeOcc, 0, fkNone, 0)
		if len(base.trouble) > 0 {
			tt.Errorf("%s/%s [%s] fault-free: harness trouble: %v", sh.op, label, scr, base.trouble)
			return base, false
		}
		if base.err != nil && !isSentinel(base.err) && !skipped[sh.op] && dupeOcc == 0 {
			tt.Errorf("%s/%s [%s] fault-free run failed unexpectedly: %v\n  %s", sh.op, label, scr, base.err, fmtStream(base.events))
			return base, false
		}
		if base.panicText != "" {
			tt.Errorf("%s/%s [%s] fault-free run panicked: %s", sh.op, label, scr, base.panicText)
			return base, false
		}
		if dupeOcc != 0 {
			scripted := 0
			for _, e := range base.events {
				if e.Scripted {
					scripted++
				}
			}
			if scripted == 0 {
				tt.Errorf("%s/%s [%s]: the scripted duplicate was not delivered\n  %s", sh.op, label, scr, fmtStream(base.events))
				return base, false
			}
			rep.DupeBaselines++
		}
		n := countStatements(base.events)
		if n > rep.MaxStreamLen {
			rep.MaxStreamLen = n
		}
		outcome := "nil"
		if base.err != nil {
			outcome = base.err.Error()
		}
		rep.Baselines = append(rep.Baselines, sfBaseline{Op: sh.op, Shape: label, Script: scr.String(), N: n,
			Outcome: outcome, Stream: fmtStream(base.events)})
		jobs = append(jobs, &sfJob{shape: sh, dupeOcc: dupeOcc, scr: scr, k: 0, fk: fkNone, res: base})
		rep.FaultFree++
		for k := 1; k <= n; k++ {
			for _, fk := range allFaults {
				jobs = append(jobs, &sfJob{shape: sh, dupeOcc: dupeOcc, scr: scr, k: k, fk: fk})
			}
		}
		return base, true
	}
	for i := range cat {
		sh := &cat[i]
		hasQuery := map[int64]bool{}
		nScripts := 0
		for _, scr := range allScripts {
			if scr.rows > 0 && !hasQuery[scr.affected] {
				// No query in the stream: the number of rows cannot matter.
				continue
			}
			nScripts++
			base, ok := addBaseline(sh, scr, 0)
			for _, e := range base.events {
				if e.Kind == "QUERY" || e.Kind == "STMT_QUERY" {
					hasQuery[scr.affected] = true
				}
			}
			if !ok {
				continue
			}
			// By-design duplicate scripts over the handled statements of the plain stream.
			if match := handledMatcher(sh); match != nil {
				m := 0
				for _, e := range base.events {
					if (e.Kind == "EXEC" || e.Kind == "STMT_EXEC") && match(e.SQL) {
						m++
					}
				}
				for occ := 1; occ <= m; occ++ {
					addBaseline(sh, scr, occ)
				}
				if m > 1 {
					addBaseline(sh, scr, sfDupeAll)
				}
			}
		}
		if nScripts > rep.Scripts {
			rep.Scripts = nScripts
		}
	}
	if tt.Failed() {
		return
	}

	// Phase 2: faulted runs, in parallel (every run has its own fake database).
	var wg sync.WaitGroup
	ch := make(chan *sfJob)
	for w := 0; w < 8; w++ {
		wg.Add(1)
		go func() {
			defer wg.Done()
			for j := range ch {
				j.res = runOnce(sc, j.shape, j.scr, j.dupeOcc, j.k, j.fk, sfDeadline)
				if !j.res.fired && j.fk == fkDeadline {
					// The deadline expired before statement k was reached (loaded machine): retry with a longer one.
					j.res = runOnce(sc, j.shape, j.scr, j.dupeOcc, j.k, j.fk, 20*sfDeadline)
				}
			}
		}()
	}
	for _, j := range jobs {
		if j.fk != fkNone {
			ch <- j
		}
	}
	close(ch)
	wg.Wait()

	// Phase 3: oracle, in job order.
	viol := map[string]*sfViolation{}
	notes := map[string]*sfViolation{}
	for _, j := range jobs {
		rep.Runs++
		if j.fk != fkNone {
			rep.FaultsByKind[j.fk.String()]++
		}
		label := dupeLabel(j.shape.shape, j.dupeOcc)
		id := fmt.Sprintf("%s/%s [%s] k=%d fault=%s", j.shape.op, label, j.scr, j.k, j.fk)
		if len(j.res.trouble) > 0 {
			tt.Errorf("%s: harness trouble: %v\n  %s", id, j.res.trouble, fmtStream(j.res.events))
			continue
		}
		if j.fk != fkNone && !j.res.fired {
			tt.Errorf("%s: the fault did not fire (stream diverged from the fault-free run)\n  %s", id, fmtStream(j.res.events))
			continue
		}
		if j.fk == fkDeadline {
			for _, e := range j.res.events {
				switch e.Failed {
				case "deadline":
					rep.DeadlineVia["statement-context"]++
				case "deadline(tx-context-only)":
					rep.DeadlineVia["tx-context-only"]++
				case "deadline(no-context)":
					rep.DeadlineVia["no-context"]++
				}
			}
		}
		findings := judge(j.shape, j.fk, j.res)
		if j.dupeOcc != 0 && j.fk == fkNone && (j.res.err != nil || !sfCommitted(j.res.events)) {
			findings = append(findings, finding{rule: "by-design-dupe-not-committed",
				why: "a duplicate key which the adapter is expected to handle by design did not end in COMMIT and nil"})
		}
		for _, f := range findings {
			key := j.shape.op + "/" + label + "/" + f.rule
			m := viol
			if f.note {
				m = notes
			}
			if v := m[key]; v != nil {
				v.Count++
				continue
			}
			retErr := "nil"
			if j.res.err != nil {
				retErr = fmt.Sprintf("%q", j.res.err.Error())
			}
			m[key] = &sfViolation{Key: key, Count: 1,
				Text: fmt.Sprintf("%s: %s; returned %s; stream: %s", id, f.why, retErr, fmtStream(j.res.events))}
		}
	}
	flatten := func(m map[string]*sfViolation) []sfViolation {
		keys := make([]string, 0, len(m))
		for k := range m {
			keys = append(keys, k)
		}
		sort.Strings(keys)
		out := make([]sfViolation, 0, len(keys))
		for _, k := range keys {
			out = append(out, *m[k])
		}
		return out
	}
	rep.Violations = flatten(viol)
	rep.Notes = flatten(notes)
	rep.ElapsedMs = time.Since(started).Milliseconds()

	tt.Logf("sqlfault: ops=%d (tx=%d single=%d) shapes=%d runs=%d (fault-free %d) faults=%v max_stream_len=%d violations=%d notes=%d elapsed=%dms",
		rep.Ops, rep.TxOps, rep.SingleOps, rep.Shapes, rep.Runs, rep.FaultFree, rep.FaultsByKind, rep.MaxStreamLen,
		len(rep.Violations), len(rep.Notes), rep.ElapsedMs)
	for _, v := range rep.Violations {
		tt.Logf("VIOLATION %s x%d", v.Key, v.Count)
	}

	if path := os.Getenv("SQLFAULT_OUT"); path != "" {
		data, err := json.MarshalIndent(rep, "", " ")
		if err != nil {
			tt.Fatalf("cannot encode the report: %v", err)
		}
		if err := os.WriteFile(path, append(data, '\n'), 0o644); err != nil {
			tt.Fatalf("cannot write %s: %v", path, err)
		}
	}
}
