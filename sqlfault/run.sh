#!/bin/bash
# Statement-fault enumerator for the MySQL adapter (property C18).
#
#   run.sh <scratch-dir>
#
# Copies ${VERIF_REPO:-/repo} (without .git) into <scratch-dir>/repo, drops
# zz_sqlfault_test.go into server/db/mysql/ of the copy, runs it and prints the path of the
# JSON report (<scratch-dir>/sqlfault.json) on success.
# Exit codes: 0 report written (violations, if any, are inside the report),
#             2 build or test trouble (harness problem, not a verdict), 64 usage.
# Nothing is written to the source repository.
set -u

if [ $# -ne 1 ] || [ -z "$1" ]; then
	echo "usage: $0 <scratch-dir>" >&2
	exit 64
fi

here="$(cd "$(dirname "${BASH_SOURCE[0]}")" && pwd)"
src="${VERIF_REPO:-/repo}"
mkdir -p "$1" || exit 2
scratch="$(cd "$1" && pwd)"
out="$scratch/sqlfault.json"
log="$scratch/sqlfault.log"

export GOFLAGS=-mod=mod GOPROXY=off GOSUMDB=off GOTOOLCHAIN=local

if [ ! -f "$src/server/db/mysql/adapter.go" ]; then
	echo "sqlfault: $src does not look like the tinode repository" >&2
	exit 2
fi

rm -f "$out"
mkdir -p "$scratch/repo" || exit 2
rsync -a --delete --exclude .git "$src"/ "$scratch/repo"/ || { echo "sqlfault: rsync failed" >&2; exit 2; }
cp "$here/zz_sqlfault_test.go" "$scratch/repo/server/db/mysql/zz_sqlfault_test.go" || exit 2

cd "$scratch/repo" || exit 2
if ! SQLFAULT_OUT="$out" timeout 1200 \
	go test -tags mysql,verif -run 'TestSQLFault$' -count=1 -timeout 20m -v ./server/db/mysql >"$log" 2>&1; then
	echo "sqlfault: build or test trouble, see $log" >&2
	tail -n 40 "$log" >&2
	exit 2
fi
if [ ! -s "$out" ]; then
	echo "sqlfault: the test passed but wrote no report, see $log" >&2
	exit 2
fi
echo "$out"
