// Package simrt is the deterministic runtime the instrumented tinode server runs on.
//
// Every goroutine started by instrumented code is a Task. At most one task runs at a time
// (the token holder); the scheduler (the bubble's root goroutine) waits with synctest.Wait()
// until every goroutine is durably blocked, then releases exactly one runnable task chosen
// from the choice stream. Tasks that find no ready channel operation block natively in a real
// select (plus their kill channel); when something wakes them they immediately park at their
// gate again without touching shared state, so the only thing the Go runtime decides is
// readiness bookkeeping, never order.
package simrt

import (
	"expvar"
	"fmt"
	"hash/fnv"
	"reflect"
	"runtime"
	"runtime/debug"
	"sort"
	"strings"
	"sync"
	"testing/synctest"
	"time"
)

type taskState int32

const (
	stRunnable taskState = iota // parked at its gate, may be released
	stRunning                   // holds the token
	stBlocked                   // natively blocked in a channel operation, select or sleep
	stWaiting                   // parked at its gate waiting for a simrt Mutex/WaitGroup; not runnable
	stDormant                   // pre-allocated (AfterFunc) and not yet fired
	stDone
)

func (s taskState) String() string {
	return [...]string{"runnable", "running", "blocked", "waiting", "dormant", "done"}[s]
}

// Task is one instrumented goroutine.
type Task struct {
	ID      int
	Site    string // creation site
	w       *World
	gate    chan struct{}
	kill    chan struct{}
	state   taskState
	dead    bool
	WaitAt  string        // site of the current/last wait
	Since   time.Duration // world time when the wait started
	prio    int           // PCT priority
	Steps   int
	waitObj any
}

// PanicInfo records a task that ended in a panic (process death in the real server).
type PanicInfo struct {
	Task  int
	Site  string
	Value string
	Stack string
}

// External lets the harness offer non-task actions (client operations, fault events) to the scheduler.
type External interface {
	// Enabled returns opaque ids of actions that may fire now, in a deterministic order.
	// idle is true when no task is runnable (every consequence of earlier actions has played out).
	Enabled(idle bool) []int
	Fire(id int)
	// NextDeadline: simulated time from now until some action becomes enabled by itself (client timeout, delayed op).
	NextDeadline() (time.Duration, bool)
}

// World is one simulated process group inside one synctest bubble.
type World struct {
	mu      sync.Mutex
	due     map[int64]bool // deadlines handed out by NewTimer/TimerReset/After: no two are equal
	tasks   []*Task
	cur     *Task
	wake    chan struct{}
	Ch      *Chooser
	Ext     External
	Steps   int
	MaxStep int
	start   time.Time
	Panics  []PanicInfo
	logH    uint64
	logN    int
	Trace   []string // kept only when KeepTrace
	KeepTrace bool
	Livelock bool
	// StopOnPanic makes Run return RunPanic as soon as any task has panicked.
	StopOnPanic bool
	// CrashReq is set by CrashNow (a task asking for the process to die at this exact point).
	CrashReq bool
	// CrashAtStep makes Run return RunCrash when the step counter reaches it (0 = never).
	CrashAtStep int
	// Probe counters ("rare condition hit")
	Probes map[string]int
	// OrderKey gives a stable, replayable ordering key for map keys that are pointers.
	OrderKey func(k any) string
	// Parallel (race mode): several tasks released per round.
	Parallel bool
	goids    sync.Map // goid -> *Task (parallel mode only)
}

// W is the current world (nil outside a simulation: every simrt call then behaves natively).
var W *World

// NewWorld creates the world for the current bubble. Must be called from the bubble's root goroutine.
func NewWorld(ch *Chooser) *World {
	w := &World{wake: make(chan struct{}, 1), Ch: ch, MaxStep: 200000, start: time.Now(),
		Probes: map[string]int{}}
	w.logH = 14695981039346656037
	W = w
	return w
}

// Now returns simulated time since the world was created.
func (w *World) Now() time.Duration { return time.Since(w.start) }

func (w *World) signal() {
	select {
	case w.wake <- struct{}{}:
	default:
	}
}

// Logf appends to the run's event log (hash always, text when KeepTrace). Only the root or the token holder may call it.
func (w *World) Logf(format string, a ...any) {
	s := fmt.Sprintf(format, a...)
	h := fnv.New64a()
	h.Write([]byte(s))
	w.logH = (w.logH ^ h.Sum64()) * 1099511628211
	w.logN++
	if w.KeepTrace {
		w.Trace = append(w.Trace, s)
	}
}

// LogHash identifies the whole execution so far.
func (w *World) LogHash() string { return fmt.Sprintf("%016x/%d", w.logH, w.logN) }

// Probe counts a rare-condition hit.
func Probe(name string) {
	if w := W; w != nil {
		w.mu.Lock()
		w.Probes[name]++
		w.mu.Unlock()
	}
}

func (w *World) newTask(site string, st taskState) *Task {
	w.mu.Lock()
	t := &Task{ID: len(w.tasks) + 1, Site: site, w: w, gate: make(chan struct{}, 1), kill: make(chan struct{}), state: st}
	if w.Ch != nil {
		t.prio = w.Ch.newPrio()
	}
	w.tasks = append(w.tasks, t)
	w.mu.Unlock()
	return t
}

func (t *Task) setState(st taskState, site string) {
	w := t.w
	w.mu.Lock()
	t.state = st
	if site != "" {
		t.WaitAt = site
	}
	t.Since = time.Since(w.start)
	w.mu.Unlock()
}

func (t *Task) exit() {
	runtime.Goexit()
}

// park blocks the calling task at its gate until the scheduler releases it.
func (t *Task) park(st taskState, site string) {
	t.setState(st, site)
	t.w.signal()
	select {
	case <-t.gate:
	case <-t.kill:
		t.exit()
	}
	if t.dead {
		t.exit()
	}
}

func (t *Task) finish() {
	if r := recover(); r != nil {
		w := t.w
		w.mu.Lock()
		w.Panics = append(w.Panics, PanicInfo{Task: t.ID, Site: t.Site, Value: fmt.Sprint(r), Stack: string(debug.Stack())})
		w.mu.Unlock()
	}
	t.setState(stDone, "")
	if t.w.Parallel {
		t.w.goids.Delete(goid())
	}
	t.w.signal()
}

// cur returns the task of the calling goroutine, or nil when called from the root / outside a world.
func cur() *Task {
	w := W
	if w == nil {
		return nil
	}
	if w.Parallel {
		if v, ok := w.goids.Load(goid()); ok {
			return v.(*Task)
		}
		return nil
	}
	return w.cur
}

// enter is the prologue of every blocking-capable simrt operation executed by a task.
func enter(site string) *Task {
	t := cur()
	if t == nil {
		return nil
	}
	if t.dead {
		t.exit()
	}
	w := t.w
	if !w.Parallel && w.Ch != nil && w.Ch.preempt() {
		t.park(stRunnable, site)
	}
	return t
}

// Yield is an unconditional scheduling point (store calls = I/O).
func Yield(site string) {
	t := cur()
	if t == nil {
		return
	}
	if t.dead {
		t.exit()
	}
	if t.w.Parallel {
		return
	}
	if t.w.Ch != nil && t.w.Ch.yieldIO() {
		t.park(stRunnable, site)
	}
}

// Go starts f as a task.
func Go(site string, f func()) {
	w := W
	if w == nil {
		go f()
		return
	}
	if t := cur(); t != nil && t.dead {
		t.exit()
	}
	t := w.newTask(site, stRunnable)
	go t.main(f)
	w.signal()
}

func (t *Task) main(f func()) {
	defer t.finish()
	if t.w.Parallel {
		t.w.goids.Store(goid(), t)
	}
	select {
	case <-t.gate:
	case <-t.kill:
		return
	}
	if t.dead {
		return
	}
	f()
}

// ---------------------------------------------------------------------------------------------
// Scheduler (root goroutine)

// TaskInfo is a snapshot of one task for hang/leak oracles.
type TaskInfo struct {
	ID     int
	Site   string
	State  string
	WaitAt string
	Since  time.Duration
}

// Tasks returns a snapshot of all live (not done) tasks.
func (w *World) Tasks() []TaskInfo {
	w.mu.Lock()
	defer w.mu.Unlock()
	var out []TaskInfo
	for _, t := range w.tasks {
		if t.state != stDone && t.state != stDormant {
			out = append(out, TaskInfo{t.ID, t.Site, t.state.String(), t.WaitAt, t.Since})
		}
	}
	return out
}

func (w *World) runnable() (cand []*Task, running bool) {
	w.mu.Lock()
	for _, t := range w.tasks {
		switch t.state {
		case stRunnable:
			cand = append(cand, t)
		case stRunning:
			running = true
		}
	}
	w.mu.Unlock()
	return
}

func (w *World) release(t *Task) {
	w.mu.Lock()
	t.state = stRunning
	t.Steps++
	w.mu.Unlock()
	w.cur = t
	t.gate <- struct{}{}
}

// RunResult says why Run returned.
type RunResult int

const (
	RunQuiescent RunResult = iota // idle for the settle period
	RunStopped                    // stop() returned true
	RunLivelock                   // step budget exhausted
	RunCrash                      // a crash point fired (CrashNow or CrashAtStep)
	RunPanic                      // a task ended in a panic (process death in the real server)
)

// Run drives the world until it has been idle (nothing runnable, no external action enabled) for
// `settle` of simulated time, or until stop() returns true (checked only when nothing is runnable).
func (w *World) Run(settle time.Duration, stop func() bool) RunResult {
	idleSince := time.Now()
	start := idleSince
	for {
		synctest.Wait()
		w.cur = nil
		if w.CrashReq {
			return RunCrash
		}
		if w.StopOnPanic {
			w.mu.Lock()
			np := len(w.Panics)
			w.mu.Unlock()
			if np > 0 {
				return RunPanic
			}
		}
		cand, running := w.runnable()
		if running {
			// The token holder is durably blocked inside uninstrumented code (e.g. time.Sleep in a library).
			<-w.wake
			w.flushTimers()
			continue
		}
		var ext []int
		if w.Ext != nil {
			ext = w.Ext.Enabled(len(cand) == 0)
		}
		if settle >= time.Second && len(ext) == 0 && len(cand) > 0 && time.Since(start) > 40*settle {
			// Periodic background activity only (unsynchronised long-poll pings, collector ticks) may never leave a
			// gap of `settle`: with no external action left and none due, that is as quiet as it gets. A real
			// livelock does not let simulated time pass and still ends at the step budget.
			pending := false
			if w.Ext != nil {
				_, pending = w.Ext.NextDeadline()
			}
			if !pending {
				w.Logf("settled by time bound")
				return RunQuiescent
			}
		}
		if len(cand)+len(ext) == 0 {
			if stop != nil && stop() {
				return RunStopped
			}
			rem := settle - time.Since(idleSince)
			if rem <= 0 {
				return RunQuiescent
			}
			if w.Ext != nil {
				if d, ok := w.Ext.NextDeadline(); ok && d < rem {
					if d <= 0 {
						d = time.Millisecond
					}
					rem = d
				}
			}
			tm := time.NewTimer(rem)
			select {
			case <-w.wake:
				tm.Stop()
			case <-tm.C:
			}
			w.flushTimers()
			continue
		}
		w.Steps++
		if w.Steps > w.MaxStep {
			w.Livelock = true
			return RunLivelock
		}
		if w.CrashAtStep > 0 && w.Steps >= w.CrashAtStep {
			w.CrashAtStep = 0
			return RunCrash
		}
		if w.Parallel {
			w.parallelRound(cand, ext)
			idleSince = time.Now()
			continue
		}
		i := w.Ch.pick(cand, len(ext))
		if i < len(cand) {
			t := cand[i]
			w.Logf("run t%d %s @%s", t.ID, t.Site, t.WaitAt)
			w.release(t)
		} else {
			id := ext[i-len(cand)]
			w.Logf("ext %d", id)
			w.Ext.Fire(id)
		}
		idleSince = time.Now()
	}
}

// flushTimers is called after the fake clock may have moved (the root was blocked). Timers live on per-P
// heaps: several timers due at the same fake instant are fired by whichever P gets to them, and
// synctest.Wait can return while some of them have not fired yet, so the set of runnable tasks seen by the
// scheduler would depend on GOMAXPROCS. The fake clock cannot move past a timer that is due: sleeping for
// one nanosecond forces every timer due at the current instant to fire first.
func (w *World) flushTimers() {
	if w.Parallel {
		return
	}
	time.Sleep(time.Nanosecond)
}

// parallelRound (race mode) releases a seed-chosen non-empty subset of runnable tasks at once.
func (w *World) parallelRound(cand []*Task, ext []int) {
	n := len(cand) + len(ext)
	mask := w.Ch.r.next()
	fired := false
	for i := 0; i < n; i++ {
		if mask&(1<<uint(i%60)) == 0 && !(i == n-1 && !fired) {
			continue
		}
		fired = true
		if i < len(cand) {
			w.mu.Lock()
			cand[i].state = stRunning
			w.mu.Unlock()
			cand[i].gate <- struct{}{}
		} else {
			w.Ext.Fire(ext[i-len(cand)])
		}
	}
}

// Advance lets simulated time pass by d with the world running (timers fire, tasks run).
func (w *World) Advance(d time.Duration) RunResult {
	deadline := time.Now().Add(d)
	for {
		rem := time.Until(deadline)
		if rem <= 0 {
			return RunStopped
		}
		if r := w.Run(rem, func() bool { return !time.Now().Before(deadline) }); r != RunQuiescent {
			return r
		}
	}
}

// CrashNow is called by a task (fault hook) to make the process die at exactly this point:
// the task never runs again and Run returns RunCrash.
func CrashNow() {
	t := cur()
	if t == nil {
		return
	}
	t.w.CrashReq = true
	t.waitFor(&t.w.CrashReq, "crash")
}

// KillAll is the simulated process crash / end-of-run teardown: every task is made to exit, one at a time.
func (w *World) KillAll() {
	for {
		synctest.Wait()
		w.mu.Lock()
		var victim *Task
		for _, t := range w.tasks {
			if t.state != stDone && !t.dead {
				victim = t
				break
			}
		}
		w.mu.Unlock()
		if victim == nil {
			break
		}
		victim.dead = true
		if victim.state == stDormant {
			victim.setState(stDone, "")
			continue
		}
		w.cur = victim
		close(victim.kill)
	}
	synctest.Wait()
	w.cur = nil
}

// ---------------------------------------------------------------------------------------------
// Channel operations

func blockSend[T any](t *Task, site string, ch chan<- T, v T) {
	t.setState(stBlocked, site)
	select {
	case ch <- v:
	case <-t.kill:
		t.exit()
	}
	t.park(stRunnable, site)
}

// Send is `ch <- v`.
func Send[T any](site string, ch chan<- T, v T) {
	t := enter(site)
	if t == nil {
		ch <- v
		return
	}
	select {
	case ch <- v:
		return
	default:
	}
	blockSend(t, site, ch, v)
}

// Recv is `<-ch`.
func Recv[T any](site string, ch <-chan T) T {
	v, _ := RecvOk(site, ch)
	return v
}

// RecvOk is `v, ok := <-ch`.
func RecvOk[T any](site string, ch <-chan T) (T, bool) {
	t := enter(site)
	if t == nil {
		v, ok := <-ch
		return v, ok
	}
	select {
	case v, ok := <-ch:
		return v, ok
	default:
	}
	t.setState(stBlocked, site)
	var v T
	var ok bool
	select {
	case v, ok = <-ch:
	case <-t.kill:
		t.exit()
	}
	t.park(stRunnable, site)
	return v, ok
}

// Case is one communication clause of a select.
type Case struct {
	c reflect.SelectCase
}

// RecvCase builds a receive clause.
func RecvCase(ch any) Case {
	return Case{reflect.SelectCase{Dir: reflect.SelectRecv, Chan: reflect.ValueOf(ch)}}
}

// SendCase builds a send clause; v is converted to the channel's element type.
func SendCase(ch any, v any) Case {
	cv := reflect.ValueOf(ch)
	et := cv.Type().Elem()
	var sv reflect.Value
	if v == nil {
		sv = reflect.Zero(et)
	} else {
		sv = reflect.ValueOf(v)
		if !sv.Type().AssignableTo(et) {
			sv = sv.Convert(et)
		}
	}
	return Case{reflect.SelectCase{Dir: reflect.SelectSend, Chan: cv, Send: sv}}
}

// Sel is the outcome of a Select.
type Sel struct {
	Index int // clause index in source order; -1 = default
	recv  reflect.Value
	ok    bool
}

var defaultCase = reflect.SelectCase{Dir: reflect.SelectDefault}

// Select is the `select` statement. Clauses are tried without blocking in an order taken from the
// choice stream; if none is ready and there is no default the task blocks natively on all of them.
func Select(site string, hasDefault bool, cases ...Case) *Sel {
	t := enter(site)
	if t == nil {
		rc := make([]reflect.SelectCase, 0, len(cases)+1)
		for _, c := range cases {
			rc = append(rc, c.c)
		}
		if hasDefault {
			rc = append(rc, defaultCase)
		}
		i, rv, ok := reflect.Select(rc)
		if hasDefault && i == len(cases) {
			return &Sel{Index: -1}
		}
		return &Sel{i, rv, ok}
	}
	w := t.w
	n := len(cases)
	var order []int
	if !w.Parallel {
		order = w.Ch.perm(n)
	}
	two := []reflect.SelectCase{{}, defaultCase}
	for k := 0; k < n; k++ {
		i := k
		if order != nil {
			i = order[k]
		}
		c := cases[i].c
		if !c.Chan.IsValid() || c.Chan.IsNil() {
			continue
		}
		two[0] = c
		if chosen, rv, ok := reflect.Select(two); chosen == 0 {
			return &Sel{i, rv, ok}
		}
	}
	if hasDefault {
		return &Sel{Index: -1}
	}
	rc := make([]reflect.SelectCase, 0, n+1)
	for _, c := range cases {
		rc = append(rc, c.c)
	}
	rc = append(rc, reflect.SelectCase{Dir: reflect.SelectRecv, Chan: reflect.ValueOf(t.kill)})
	t.setState(stBlocked, site)
	i, rv, ok := reflect.Select(rc)
	if i == n {
		t.exit()
	}
	t.park(stRunnable, site)
	return &Sel{i, rv, ok}
}

// Val extracts the value received by the chosen clause; ch only fixes the type.
func Val[T any](ch <-chan T, s *Sel) T {
	var zero T
	if !s.recv.IsValid() {
		return zero
	}
	v, _ := s.recv.Interface().(T)
	return v
}

// ValOk is Val with the `ok` of a two-value receive.
func ValOk[T any](ch <-chan T, s *Sel) (T, bool) {
	return Val(ch, s), s.ok
}

// ---------------------------------------------------------------------------------------------
// Locks

func (w *World) wakeWaiters(obj any) {
	w.mu.Lock()
	for _, t := range w.tasks {
		if t.state == stWaiting && t.waitObj == obj {
			t.state = stRunnable
			t.waitObj = nil
		}
	}
	w.mu.Unlock()
}

func (t *Task) waitFor(obj any, site string) {
	t.w.mu.Lock()
	t.waitObj = obj
	t.w.mu.Unlock()
	t.park(stWaiting, site)
}

// Mutex replaces sync.Mutex. A task that cannot get the lock parks (durably) until it is released,
// so a lock held across a scheduling point never wedges the simulator.
type Mutex struct {
	mu sync.Mutex
}

func (m *Mutex) Lock() {
	t := enter("mutex.Lock")
	if t == nil || t.w.Parallel {
		m.mu.Lock()
		return
	}
	for !m.mu.TryLock() {
		Probe("mutex.contended")
		t.waitFor(m, "mutex.Lock")
	}
}

func (m *Mutex) TryLock() bool { return m.mu.TryLock() }

func (m *Mutex) Unlock() {
	m.mu.Unlock()
	if w := W; w != nil && !w.Parallel {
		w.wakeWaiters(m)
	}
}

// RWMutex replaces sync.RWMutex.
type RWMutex struct {
	mu sync.RWMutex
}

func (m *RWMutex) Lock() {
	t := enter("rwmutex.Lock")
	if t == nil || t.w.Parallel {
		m.mu.Lock()
		return
	}
	for !m.mu.TryLock() {
		Probe("rwmutex.contended")
		t.waitFor(m, "rwmutex.Lock")
	}
}

func (m *RWMutex) Unlock() {
	m.mu.Unlock()
	if w := W; w != nil && !w.Parallel {
		w.wakeWaiters(m)
	}
}

func (m *RWMutex) RLock() {
	t := enter("rwmutex.RLock")
	if t == nil || t.w.Parallel {
		m.mu.RLock()
		return
	}
	for !m.mu.TryRLock() {
		Probe("rwmutex.contended")
		t.waitFor(m, "rwmutex.RLock")
	}
}

func (m *RWMutex) RUnlock() {
	m.mu.RUnlock()
	if w := W; w != nil && !w.Parallel {
		w.wakeWaiters(m)
	}
}

// WaitGroup replaces sync.WaitGroup.
type WaitGroup struct {
	mu sync.Mutex
	n  int
	wg sync.WaitGroup
}

func (g *WaitGroup) Add(delta int) {
	if w := W; w == nil || w.Parallel {
		g.wg.Add(delta)
		return
	}
	g.mu.Lock()
	g.n += delta
	n := g.n
	g.mu.Unlock()
	if n < 0 {
		panic("sync: negative WaitGroup counter")
	}
	if n == 0 {
		W.wakeWaiters(g)
	}
}

func (g *WaitGroup) Done() { g.Add(-1) }

func (g *WaitGroup) Wait() {
	if w := W; w == nil || w.Parallel {
		g.wg.Wait()
		return
	}
	t := enter("waitgroup.Wait")
	for {
		g.mu.Lock()
		n := g.n
		g.mu.Unlock()
		if n == 0 {
			return
		}
		if t == nil {
			panic("simrt: root goroutine would block in WaitGroup.Wait")
		}
		t.waitFor(g, "waitgroup.Wait")
	}
}

// ---------------------------------------------------------------------------------------------
// Time, randomness, maps, expvar

// Sleep replaces time.Sleep.
func Sleep(d time.Duration) {
	t := enter("sleep")
	if t == nil {
		time.Sleep(d)
		return
	}
	t.setState(stBlocked, "sleep")
	tm := time.NewTimer(d)
	select {
	case <-tm.C:
	case <-t.kill:
		tm.Stop()
		t.exit()
	}
	t.park(stRunnable, "sleep")
}

// AfterFunc replaces time.AfterFunc: the callback runs as a task.
func AfterFunc(d time.Duration, f func()) *time.Timer {
	w := W
	if w == nil {
		return time.AfterFunc(d, f)
	}
	t := w.newTask("afterfunc", stDormant)
	return time.AfterFunc(d, func() {
		if t.dead {
			return
		}
		t.setState(stRunnable, "afterfunc")
		w.signal()
		t.main(f)
	})
}

// uniqueDelay stretches d by the few nanoseconds it takes for the deadline to differ from every deadline handed
// out before in this world. One task that waits in a native select on two timer channels due at the same fake
// instant is woken by whichever the runtime's timer heap pops first, and the order of equal deadlines in that heap
// depends on unrelated timers of the process: with unique deadlines the tie cannot arise.
func uniqueDelay(d time.Duration) time.Duration {
	w := W
	if w == nil || w.Parallel || d < 0 {
		return d
	}
	now := time.Now().UnixNano()
	when := now + int64(d)
	w.mu.Lock()
	if w.due == nil {
		w.due = map[int64]bool{}
	}
	for w.due[when] {
		when++
	}
	w.due[when] = true
	w.mu.Unlock()
	return time.Duration(when - now)
}

// NewTimer replaces time.NewTimer.
func NewTimer(d time.Duration) *time.Timer { return time.NewTimer(uniqueDelay(d)) }

// After replaces time.After.
func After(d time.Duration) <-chan time.Time { return time.After(uniqueDelay(d)) }

// TimerReset replaces (*time.Timer).Reset.
func TimerReset(t *time.Timer, d time.Duration) bool { return t.Reset(uniqueDelay(d)) }

// RandIntn replaces math/rand.Intn.
func RandIntn(n int) int {
	if w := W; w != nil && w.Ch != nil && !w.Parallel {
		return w.Ch.intn(n)
	}
	return 0
}

// Publish replaces expvar.Publish and tolerates re-registration (second boot in one process).
var publishMu sync.Mutex

func Publish(name string, v expvar.Var) {
	publishMu.Lock()
	defer publishMu.Unlock()
	if expvar.Get(name) != nil {
		return
	}
	expvar.Publish(name, v)
}

func orderKey(k any) string {
	switch v := k.(type) {
	case string:
		return v
	case fmt.Stringer:
		// types.Uid etc.
		return v.String()
	}
	rv := reflect.ValueOf(k)
	switch rv.Kind() {
	case reflect.Int, reflect.Int8, reflect.Int16, reflect.Int32, reflect.Int64:
		return fmt.Sprintf("%020d", rv.Int()+(1<<62))
	case reflect.Uint, reflect.Uint8, reflect.Uint16, reflect.Uint32, reflect.Uint64:
		return fmt.Sprintf("%020d", rv.Uint())
	case reflect.String:
		return rv.String()
	}
	if w := W; w != nil && w.OrderKey != nil {
		return w.OrderKey(k)
	}
	if OrderKeyDefault != nil {
		return OrderKeyDefault(k)
	}
	panic(fmt.Sprintf("simrt: no stable order for map key of type %T", k))
}

// OrderKeyDefault is consulted for pointer-typed map keys (set by the harness).
var OrderKeyDefault func(k any) string

// Keys returns the keys of m in an order taken from the choice stream (sorted by a stable key, then rotated).
func Keys[K comparable, V any](m map[K]V) []K {
	keys := make([]K, 0, len(m))
	for k := range m {
		keys = append(keys, k)
	}
	if len(keys) < 2 {
		return keys
	}
	if W == nil {
		return keys
	}
	sk := make([]string, len(keys))
	idx := make([]int, len(keys))
	for i, k := range keys {
		sk[i] = orderKey(k)
		idx[i] = i
	}
	sort.SliceStable(idx, func(a, b int) bool { return sk[idx[a]] < sk[idx[b]] })
	out := make([]K, len(keys))
	rot := 0
	if t := cur(); t != nil && !t.w.Parallel && t.w.Ch != nil {
		rot = t.w.Ch.rot(len(keys))
	}
	for i := range idx {
		out[i] = keys[idx[(i+rot)%len(idx)]]
	}
	return out
}

// SyncMapRange replaces (*sync.Map).Range with a replayable order.
func SyncMapRange(m *sync.Map, f func(k, v any) bool) {
	type kv struct {
		k, v any
		s    string
	}
	var all []kv
	m.Range(func(k, v any) bool {
		all = append(all, kv{k, v, ""})
		return true
	})
	if W != nil {
		for i := range all {
			all[i].s = orderKey(all[i].k)
		}
		sort.SliceStable(all, func(a, b int) bool { return all[a].s < all[b].s })
		if t := cur(); t != nil && !t.w.Parallel && t.w.Ch != nil && len(all) > 1 {
			rot := t.w.Ch.rot(len(all))
			all = append(all[rot:], all[:rot]...)
		}
	}
	for _, e := range all {
		if _, ok := m.Load(e.k); !ok {
			continue
		}
		if !f(e.k, e.v) {
			break
		}
	}
}

func goid() int64 {
	var buf [64]byte
	n := runtime.Stack(buf[:], false)
	s := strings.TrimPrefix(string(buf[:n]), "goroutine ")
	var id int64
	for i := 0; i < len(s) && s[i] >= '0' && s[i] <= '9'; i++ {
		id = id*10 + int64(s[i]-'0')
	}
	return id
}

// RandSeed replaces math/rand.Seed (the simulation is seeded from the schedule).
func RandSeed(int64) {}

// SendI is `ch <- v` where v's static type differs from the channel's element type (interface element or untyped nil).
func SendI[T any](site string, ch chan<- T, v any) {
	var x T
	if v != nil {
		x = v.(T)
	}
	Send(site, ch, x)
}
