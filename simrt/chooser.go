package simrt

// Schedule is the replayable description of every scheduling decision of one run. It is drawn
// (by rapid) before the bubble starts; inside the bubble decisions are a pure function of it.
type Schedule struct {
	Policy   int       // 0 run-to-completion, 1 random walk, 2 PCT priorities, 3 starve-one
	Seed     uint64    // seeds the policy's own PRNG
	Preempts []Preempt // sparse forced deviations, by decision index delta
	Knob     int       // policy parameter (preemption rate / number of change points / starvation length)
}

// Preempt forces the Choice at the decision that comes Delta decisions after the previous forced one.
type Preempt struct {
	Delta  int
	Choice int
}

const (
	PolicyRTC = iota
	PolicyRandom
	PolicyPCT
	PolicyStarve
	NumPolicies
)

type rng struct{ s uint64 }

func (r *rng) next() uint64 {
	r.s += 0x9e3779b97f4a7c15
	z := r.s
	z = (z ^ (z >> 30)) * 0xbf58476d1ce4e5b9
	z = (z ^ (z >> 27)) * 0x94d049bb133111eb
	return z ^ (z >> 31)
}

func (r *rng) intn(n int) int {
	if n <= 1 {
		return 0
	}
	return int(r.next() % uint64(n))
}

// Chooser turns a Schedule into decisions.
type Chooser struct {
	S        Schedule
	r        rng
	dec      int // decision counter
	nextIdx  int // index into S.Preempts
	nextAt   int // decision index of the next forced deviation
	last     *Task
	changeAt []int // PCT change points (decision indices)
	lowPrio  int
	extPrio  map[int]int
	Forced   int // how many forced deviations fired
	Switches int // context switches
	victim   int
}

// NewChooser builds the decision source for one run.
func NewChooser(s Schedule) *Chooser {
	c := &Chooser{S: s, r: rng{s.Seed ^ 0xa5a5a5a5}, extPrio: map[int]int{}}
	if len(s.Preempts) > 0 {
		c.nextAt = s.Preempts[0].Delta
	} else {
		c.nextAt = -1
	}
	if s.Policy == PolicyPCT {
		d := 1 + s.Knob%3
		for i := 0; i < d; i++ {
			c.changeAt = append(c.changeAt, 1+c.r.intn(1500))
		}
	}
	if s.Policy == PolicyStarve {
		c.victim = 1 + c.r.intn(12)
	}
	return c
}

// forced reports whether the current decision is overridden by the sparse list.
func (c *Chooser) forced() (int, bool) {
	d := c.dec
	c.dec++
	if c.nextAt >= 0 && d >= c.nextAt {
		ch := c.S.Preempts[c.nextIdx].Choice
		c.nextIdx++
		if c.nextIdx < len(c.S.Preempts) {
			c.nextAt = d + 1 + c.S.Preempts[c.nextIdx].Delta
		} else {
			c.nextAt = -1
		}
		c.Forced++
		return ch, true
	}
	return 0, false
}

func (c *Chooser) newPrio() int {
	if c.S.Policy == PolicyPCT {
		return 1000 + c.r.intn(1000000)
	}
	return 0
}

// preempt: should the token holder yield before its next channel/lock operation?
func (c *Chooser) preempt() bool {
	if _, ok := c.forced(); ok {
		return true
	}
	switch c.S.Policy {
	case PolicyRandom, PolicyStarve:
		return c.r.intn(16) < 1+c.S.Knob%4
	case PolicyPCT:
		for _, at := range c.changeAt {
			if at == c.dec {
				if c.last != nil {
					c.lowPrio++
					c.last.prio = -c.lowPrio
				}
				return true
			}
		}
		return c.r.intn(12) == 0
	}
	return false
}

// yieldIO: should the token holder yield at a store call boundary?
func (c *Chooser) yieldIO() bool {
	if _, ok := c.forced(); ok {
		return true
	}
	switch c.S.Policy {
	case PolicyRandom, PolicyStarve:
		return c.r.intn(2) == 0
	case PolicyPCT:
		return c.r.intn(3) == 0
	}
	return false
}

// pick chooses among runnable tasks (sorted by id) followed by nExt external actions.
func (c *Chooser) pick(cand []*Task, nExt int) int {
	n := len(cand) + nExt
	i := c.pick0(cand, nExt, n)
	if i < len(cand) {
		if c.last != cand[i] {
			c.Switches++
		}
		c.last = cand[i]
	}
	return i
}

func (c *Chooser) pick0(cand []*Task, nExt, n int) int {
	if ch, ok := c.forced(); ok {
		if ch < 0 {
			ch = -ch
		}
		return ch % n
	}
	switch c.S.Policy {
	case PolicyRandom:
		return c.r.intn(n)
	case PolicyStarve:
		i := c.r.intn(n)
		if n > 1 && c.dec < 40+c.S.Knob*40 && i < len(cand) && cand[i].ID%13 == c.victim%13 {
			i = (i + 1) % n
		}
		return i
	case PolicyPCT:
		best, bp := 0, -1<<62
		for i, t := range cand {
			if t.prio > bp {
				best, bp = i, t.prio
			}
		}
		for j := 0; j < nExt; j++ {
			// external actions get a stable pseudo-random priority per slot
			p, ok := c.extPrio[j]
			if !ok {
				p = 1000 + c.r.intn(1000000)
				c.extPrio[j] = p
			}
			if p > bp {
				best, bp = len(cand)+j, p
			}
		}
		if best >= len(cand) {
			// re-draw that slot's priority so that one client does not monopolise the run
			c.extPrio[best-len(cand)] = 1000 + c.r.intn(1000000)
		}
		return best
	}
	// run to completion: keep the same task, else the lowest id, else the first external action
	for i, t := range cand {
		if t == c.last {
			return i
		}
	}
	return 0
}

// perm: order in which the clauses of a select are tried.
func (c *Chooser) perm(n int) []int {
	ch, forced := c.forced()
	if n < 2 {
		return nil
	}
	if !forced && c.S.Policy == PolicyRTC {
		return nil
	}
	p := make([]int, n)
	for i := range p {
		p[i] = i
	}
	if forced {
		if ch < 0 {
			ch = -ch
		}
		rot := ch % n
		for i := range p {
			p[i] = (i + rot) % n
		}
		return p
	}
	for i := n - 1; i > 0; i-- {
		j := c.r.intn(i + 1)
		p[i], p[j] = p[j], p[i]
	}
	return p
}

// rot: rotation applied to a sorted key list (map iteration order).
func (c *Chooser) rot(n int) int {
	ch, forced := c.forced()
	if forced {
		if ch < 0 {
			ch = -ch
		}
		return ch % n
	}
	if c.S.Policy == PolicyRTC {
		return 0
	}
	return c.r.intn(n)
}

func (c *Chooser) intn(n int) int {
	if n <= 0 {
		return 0
	}
	return c.r.intn(n)
}

// Decisions returns how many decisions were taken.
func (c *Chooser) Decisions() int { return c.dec }
