//go:build verif

package main

// Long-polling transport: the real serveLongPoll / readOnce / dispatchRaw / writeOnce run over
// in-memory HTTP requests. Exact JSON bytes reach the server (used for byte-level inputs and for the
// request fields the gRPC codec does not carry).

import (
	"bytes"
	"context"
	"crypto/hmac"
	"crypto/md5"
	"encoding/base64"
	"encoding/json"
	"fmt"
	"net/http/httptest"

	"github.com/tinode/chat/server/simrt"
)

const (
	TransportGRPC = 0
	TransportLP   = 1
)

// genAPIKey produces a key the way keygen does, signed with the given salt.
func genAPIKey(salt []byte, seq uint16, isRoot bool) string {
	data := make([]byte, apikeyLength)
	data[0] = 1
	data[5] = byte(seq)
	data[6] = byte(seq >> 8)
	if isRoot {
		data[7] = 1
	}
	h := hmac.New(md5.New, salt)
	h.Write(data[:apikeyVersion+apikeyAppID+apikeySequence+apikeyWho])
	copy(data[apikeyVersion+apikeyAppID+apikeySequence+apikeyWho:], h.Sum(nil))
	return base64.URLEncoding.EncodeToString(data)
}

func simAPIKeyValue() string {
	salt, _ := base64.StdEncoding.DecodeString(simAPISalt)
	return genAPIKey(salt, 1, false)
}

func (c *SimClient) lpRequest(ctx context.Context, method string, body []byte) *httptest.ResponseRecorder {
	url := "/v0/channels/lp"
	if c.lpSid != "" {
		url += "?sid=" + c.lpSid
	}
	var rd *bytes.Reader
	if body != nil {
		rd = bytes.NewReader(body)
	} else {
		rd = bytes.NewReader(nil)
	}
	req := httptest.NewRequest(method, url, rd)
	if ctx != nil {
		req = req.WithContext(ctx)
	}
	req.Header.Set("X-Tinode-APIKey", simAPIKeyValue())
	req.RemoteAddr = fmt.Sprintf("10.0.1.%d:%d", 1+c.Idx, 2000+c.Conn)
	rw := httptest.NewRecorder()
	serveLongPoll(rw, req)
	return rw
}

// connectLP creates a long-polling session and starts the poller and the sender tasks.
func (c *SimClient) connectLP() {
	conn := c.Conn
	in := make(chan []byte, 1024)
	c.inLP = in
	c.lpSid = ""
	ctx, cancel := context.WithCancel(context.Background())
	c.lpCancel = cancel
	simrt.Go(fmt.Sprintf("client%d.lp.send", c.Idx), func() {
		rw := c.lpRequest(nil, "GET", nil)
		var first ServerComMessage
		if err := json.Unmarshal(rw.Body.Bytes(), &first); err != nil || first.Ctrl == nil {
			c.W.rt.Logf("lp c%d: session creation failed: %s", c.Idx, rw.Body.String())
			return
		}
		if pm, ok := first.Ctrl.Params.(map[string]any); ok {
			c.lpSid, _ = pm["sid"].(string)
		}
		c.Sid = c.lpSid
		simrt.Go(fmt.Sprintf("client%d.lp.poll", c.Idx), func() {
			for c.Connected && c.Conn == conn {
				if st := c.stall; st != nil {
					simrt.Probe("client.slow_consumer.blocked")
					simrt.Recv("client.lp.stalled", st)
					continue
				}
				rw := c.lpRequest(ctx, "GET", nil)
				if !c.Connected || c.Conn != conn {
					return
				}
				if rw.Code == 403 {
					c.W.rt.Logf("lp c%d: session gone", c.Idx)
					c.disconnect()
					return
				}
				body := bytes.TrimSpace(rw.Body.Bytes())
				if len(body) == 0 {
					continue
				}
				c.deliverJSON(body)
			}
		})
		for {
			raw, ok := simrt.RecvOk("client.lp.sendq", in)
			if !ok || !c.Connected || c.Conn != conn {
				return
			}
			rw := c.lpRequest(nil, "POST", raw)
			if body := bytes.TrimSpace(rw.Body.Bytes()); len(body) > 0 {
				c.deliverJSON(body)
			}
		}
	})
}

// deliverJSON parses one or more JSON server messages and records them.
func (c *SimClient) deliverJSON(body []byte) {
	dec := json.NewDecoder(bytes.NewReader(body))
	for dec.More() {
		var msg ServerComMessage
		if err := dec.Decode(&msg); err != nil {
			if len(body) == 1 && body[0] == '0' {
				return
			}
			c.W.rt.Logf("lp c%d: undecodable frame %q", c.Idx, string(body))
			c.RawFrames = append(c.RawFrames, string(body))
			return
		}
		c.deliver(&msg)
	}
}
