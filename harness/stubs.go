//go:build verif

package main

// Stubbed delivery subsystems: push delivery and credential delivery. Both record what they were asked to deliver.

import (
	"encoding/json"
	"fmt"
	"strings"

	"github.com/tinode/chat/server/push"
	"github.com/tinode/chat/server/store"
	t "github.com/tinode/chat/server/store/types"
)

// ---- push ------------------------------------------------------------------------------------

type simPushHandler struct {
	ready    bool
	in       chan *push.Receipt
	ch       chan *push.ChannelReq
	Receipts []*push.Receipt
	ChanReqs []*push.ChannelReq
}

var simPush = &simPushHandler{in: make(chan *push.Receipt, 1<<16), ch: make(chan *push.ChannelReq, 1<<16)}

func (h *simPushHandler) Init(json.RawMessage) (bool, error) { h.ready = true; return true, nil }
func (h *simPushHandler) IsReady() bool                      { return h.ready }
func (h *simPushHandler) Push() chan<- *push.Receipt         { return h.in }
func (h *simPushHandler) Channel() chan<- *push.ChannelReq   { return h.ch }
func (h *simPushHandler) Stop()                              { h.ready = false }

// drain moves queued receipts into the recorded lists (called by the root at quiescence).
func (h *simPushHandler) drain() {
	for {
		select {
		case r := <-h.in:
			h.Receipts = append(h.Receipts, r)
		case c := <-h.ch:
			h.ChanReqs = append(h.ChanReqs, c)
		default:
			return
		}
	}
}

func (h *simPushHandler) reset() {
	h.drain()
	h.Receipts, h.ChanReqs = nil, nil
	h.ready = false
}

// ---- credential validator --------------------------------------------------------------------

type credRequest struct {
	User   t.Uid
	Cred   string
	Resp   string
	Reset  bool
	Code   string
	Scheme string
}

type simCredValidator struct {
	inited   bool
	Requests []credRequest
}

var simCred = &simCredValidator{}

const simCredName = "simcred"
const simCredMaxRetries = 3

func (v *simCredValidator) Init(string) error   { v.inited = true; return nil }
func (v *simCredValidator) IsInitialized() bool { return v.inited }

func (v *simCredValidator) PreCheck(cred string, _ map[string]interface{}) (string, error) {
	if len(cred) > 64 || !strings.Contains(cred, "@") {
		return "", t.ErrMalformed
	}
	return simCredName + ":" + strings.ToLower(cred), nil
}

func (v *simCredValidator) Request(user t.Uid, cred, lang, resp string, tmpToken []byte) (bool, error) {
	if resp != "" {
		return false, t.ErrFailed
	}
	cred = strings.ToLower(cred)
	code := fmt.Sprintf("%06d", (len(v.Requests)*7919+1234)%1000000)
	isNew, err := store.Users.UpsertCred(&t.Credential{User: user.String(), Method: simCredName, Value: cred, Resp: code})
	if err != nil {
		return false, err
	}
	v.Requests = append(v.Requests, credRequest{User: user, Cred: cred, Resp: code})
	return isNew, nil
}

func (v *simCredValidator) ResetSecret(cred, scheme, lang string, code []byte, params map[string]interface{}) error {
	v.Requests = append(v.Requests, credRequest{Cred: strings.ToLower(cred), Reset: true, Code: string(code), Scheme: scheme})
	return nil
}

func (v *simCredValidator) Check(user t.Uid, resp string) (string, error) {
	cred, err := store.Users.GetActiveCred(user, simCredName)
	if err != nil {
		return "", err
	}
	if cred == nil {
		return "", t.ErrNotFound
	}
	if cred.Retries > simCredMaxRetries {
		return "", t.ErrPolicy
	}
	if resp == "" {
		return "", t.ErrCredentials
	}
	if cred.Resp == resp {
		return cred.Value, store.Users.ConfirmCred(user, simCredName)
	}
	store.Users.FailCred(user, simCredName)
	return "", t.ErrCredentials
}

func (v *simCredValidator) Delete(user t.Uid) error {
	return store.Users.DelCred(user, simCredName, "")
}
func (v *simCredValidator) Remove(user t.Uid, value string) error {
	return store.Users.DelCred(user, simCredName, value)
}
func (v *simCredValidator) TempAuthScheme() (string, error) { return "code", nil }

func (v *simCredValidator) reset() { v.Requests = nil }
