//go:build verif

package main

// Scenario kit shared by the per-property workloads: population, configure phases through real
// client requests, white-box snapshots at quiescence, name translation.

import (
	"encoding/json"
	"fmt"
	"sort"
	"strings"
	"sync/atomic"

	"github.com/tinode/chat/server/auth"
	"github.com/tinode/chat/server/simrt"
	"github.com/tinode/chat/server/store/types"
	"pgregory.net/rapid"
)

type MemberSpec struct {
	User   int    `json:"user"`
	Want   string `json:"want,omitempty"` // requested mode in {sub}, "" = default
	AsChan bool   `json:"as_chan,omitempty"`
}

type GroupSpec struct {
	Owner   int          `json:"owner"`
	Chan    bool         `json:"chan,omitempty"`
	DefAuth string       `json:"def_auth,omitempty"`
	Members []MemberSpec `json:"members"`
}

type Scenario struct {
	NUsers   int         `json:"n_users"`
	Root     int         `json:"root"` // index of the root-level user, -1 = none
	Anon     int         `json:"anon"` // index of an anonymous-level user, -1 = none
	Sessions []int       `json:"sessions"`
	LP       []bool      `json:"lp,omitempty"` // per client slot: long-polling (JSON) transport instead of gRPC
	Groups   []GroupSpec `json:"groups"`
	P2P      [][2]int    `json:"p2p"`
	NoMe     bool        `json:"no_me,omitempty"` // clients do not attach to 'me'
}

func genScenario(rt *rapid.T, maxUsers, maxGroups int, withRoot bool) Scenario {
	sc := Scenario{Root: -1, Anon: -1}
	sc.NUsers = rapid.IntRange(2, maxUsers).Draw(rt, "nusers")
	for i := 0; i < sc.NUsers; i++ {
		n := rapid.IntRange(1, 2).Draw(rt, "nsess")
		sc.Sessions = append(sc.Sessions, n)
		for k := 0; k < n; k++ {
			sc.LP = append(sc.LP, rapid.IntRange(0, 2).Draw(rt, "lp") == 0)
		}
	}
	if withRoot && rapid.Bool().Draw(rt, "hasroot") {
		sc.Root = sc.NUsers - 1
	}
	ng := rapid.IntRange(1, maxGroups).Draw(rt, "ngroups")
	for g := 0; g < ng; g++ {
		gs := GroupSpec{Owner: rapid.IntRange(0, sc.NUsers-1).Draw(rt, "owner"), Chan: rapid.Bool().Draw(rt, "chan")}
		for u := 0; u < sc.NUsers; u++ {
			if u == gs.Owner || !rapid.Bool().Draw(rt, "member") {
				continue
			}
			m := MemberSpec{User: u}
			if gs.Chan && rapid.IntRange(0, 3).Draw(rt, "aschan") == 0 {
				m.AsChan = true
			}
			gs.Members = append(gs.Members, m)
		}
		sc.Groups = append(sc.Groups, gs)
	}
	if rapid.Bool().Draw(rt, "p2p") {
		a := rapid.IntRange(0, sc.NUsers-1).Draw(rt, "p2pa")
		b := (a + 1 + rapid.IntRange(0, sc.NUsers-2).Draw(rt, "p2pb")) % sc.NUsers
		sc.P2P = append(sc.P2P, [2]int{a, b})
	}
	return sc
}

// clientsOf returns the client slots of a workload user.
func (w *simWorld) clientsOf(u int) []*SimClient {
	var out []*SimClient
	for _, c := range w.Clients {
		if c.User != nil && c.User.Idx == u {
			out = append(out, c)
		}
	}
	return out
}

// runPhase queues per-client operations and runs to quiescence.
func (w *simWorld) runPhase(ops map[int][]*Op) simrt.RunResult {
	w.setOps(ops)
	return w.settle()
}

// configure creates users and clients and brings the scenario's topics into existence through
// ordinary client requests (two phases so that names exist before others refer to them).
func (w *simWorld) configure(sc Scenario) {
	for i := 0; i < sc.NUsers; i++ {
		lvl := auth.LevelAuth
		if i == sc.Root {
			lvl = auth.LevelRoot
		}
		if i == sc.Anon {
			lvl = auth.LevelAnon
		}
		w.Users = append(w.Users, seedUser(i, lvl, types.ModeCAuth, types.ModeNone))
	}
	for i := 0; i < sc.NUsers; i++ {
		for k := 0; k < sc.Sessions[i]; k++ {
			c := w.addClient(w.Users[i])
			if c.Idx < len(sc.LP) && sc.LP[c.Idx] {
				c.Transport = TransportLP
			}
		}
	}
	w.Groups = make([]string, len(sc.Groups))
	a := map[int][]*Op{}
	for _, c := range w.Clients {
		scheme := "basic"
		if c.Idx%2 == 1 {
			scheme = "token"
		}
		a[c.Idx] = append(a[c.Idx], opHi(), opLogin(c.User.Idx, scheme))
		if !sc.NoMe {
			a[c.Idx] = append(a[c.Idx], opSub("me", "", "desc sub"))
		}
	}
	for g, gs := range sc.Groups {
		name := "new"
		if gs.Chan {
			name = "nch"
		}
		o := opSub(name, "", "desc")
		if gs.DefAuth != "" {
			o.Msg.Sub.Set = &MsgSetQuery{Desc: &MsgSetDesc{DefaultAcs: &MsgDefaultAcsMode{Auth: gs.DefAuth}}}
		}
		o.CreatesGroup = g
		c := w.clientsOf(gs.Owner)[0]
		a[c.Idx] = append(a[c.Idx], o)
	}
	w.runPhase(a)
	b := map[int][]*Op{}
	for g, gs := range sc.Groups {
		for k, c := range w.clientsOf(gs.Owner) {
			if k > 0 {
				b[c.Idx] = append(b[c.Idx], opSub(fmt.Sprintf("@grp%d", g), "", ""))
			}
		}
		for _, m := range gs.Members {
			name := fmt.Sprintf("@grp%d", g)
			if m.AsChan {
				name = fmt.Sprintf("@chn%d", g)
			}
			for _, c := range w.clientsOf(m.User) {
				b[c.Idx] = append(b[c.Idx], opSub(name, m.Want, ""))
			}
		}
	}
	for _, p := range sc.P2P {
		for _, c := range w.clientsOf(p[0]) {
			b[c.Idx] = append(b[c.Idx], opSub(fmt.Sprintf("@usr%d", p[1]), "", ""))
		}
	}
	w.runPhase(b)
	cph := map[int][]*Op{}
	for _, p := range sc.P2P {
		for _, c := range w.clientsOf(p[1]) {
			cph[c.Idx] = append(cph[c.Idx], opSub(fmt.Sprintf("@usr%d", p[0]), "", ""))
		}
	}
	if len(cph) > 0 {
		w.runPhase(cph)
	}
}

// globalName translates the topic name a client uses into the server-wide routable name.
func (w *simWorld) globalName(c *SimClient, name string) string {
	switch {
	case name == "me":
		if c.User != nil {
			return c.User.Uid.UserId()
		}
	case name == "fnd":
		if c.User != nil {
			return c.User.Uid.FndName()
		}
	case strings.HasPrefix(name, "usr"):
		if c.User != nil {
			if u2 := types.ParseUserId(name); !u2.IsZero() {
				return c.User.Uid.P2PName(u2)
			}
		}
	case strings.HasPrefix(name, "chn"):
		return types.ChnToGrp(name)
	}
	return name
}

// userIdx maps a "usrXXX" id to the workload user index, -1 if unknown.
func (w *simWorld) userIdx(id string) int {
	for _, u := range w.Users {
		if u.Uid.UserId() == id {
			return u.Idx
		}
	}
	return -1
}

// ---- white-box snapshot at quiescence ----------------------------------------------------------

type SubSnap struct {
	Want, Given           types.AccessMode
	Online                int
	ReadID, RecvID, DelID int
	Deleted, IsChan       bool
	Private               string
}

type TopicSnap struct {
	Name                   string
	Cat                    types.TopicCat
	LastID                 int
	DelID                  int
	Owner                  types.Uid
	IsChan                 bool
	Status                 int32
	AccessAuth, AccessAnon types.AccessMode
	Tags                   []string
	Public, Trusted        string
	PerUser                map[types.Uid]SubSnap
	Sessions               map[string]types.Uid // sid -> uid attached
	ChanSess               map[string]bool
	HasCall                bool
	CallSeq                int
	CallParties            map[string]types.Uid // sid -> uid of the call parties
	CallOriginator         string               // sid of the originator
}

type SessSnap struct {
	Sid         string
	Uid         types.Uid
	AuthLvl     auth.Level
	Subs        []string
	Background  bool
	Terminating bool
	Client      int // client index, -1 if not matched
}

type Snapshot struct {
	Topics   map[string]*TopicSnap
	Sessions map[string]*SessSnap
}

// snapshot reads the live server state. Only legal at quiescence (no task is running).
func (w *simWorld) snapshot() *Snapshot {
	sn := &Snapshot{Topics: map[string]*TopicSnap{}, Sessions: map[string]*SessSnap{}}
	globals.hub.topics.Range(func(k, v any) bool {
		t := v.(*Topic)
		ts := &TopicSnap{Name: t.name, Cat: t.cat, LastID: t.lastID, DelID: t.delID, Owner: t.owner, IsChan: t.isChan,
			Status: atomic.LoadInt32(&t.status), AccessAuth: t.accessAuth, AccessAnon: t.accessAnon,
			Tags: append([]string{}, t.tags...), Public: canon(t.public), Trusted: canon(t.trusted),
			PerUser: map[types.Uid]SubSnap{}, Sessions: map[string]types.Uid{}, ChanSess: map[string]bool{}, HasCall: t.currentCall != nil}
		for uid, pud := range t.perUser {
			ts.PerUser[uid] = SubSnap{Want: pud.modeWant, Given: pud.modeGiven, Online: pud.online, ReadID: pud.readID,
				RecvID: pud.recvID, DelID: pud.delID, Deleted: pud.deleted, IsChan: pud.isChan, Private: canon(pud.private)}
		}
		for s, pssd := range t.sessions {
			ts.Sessions[s.sid] = pssd.uid
			if pssd.isChanSub {
				ts.ChanSess[s.sid] = true
			}
		}
		if t.currentCall != nil {
			ts.CallSeq = t.currentCall.seq
			ts.CallParties = map[string]types.Uid{}
			for sid, pd := range t.currentCall.parties {
				ts.CallParties[sid] = pd.uid
				if pd.isOriginator {
					ts.CallOriginator = sid
				}
			}
		}
		sn.Topics[t.name] = ts
		return true
	})
	for sid, s := range globals.sessionStore.sessCache {
		ss := &SessSnap{Sid: sid, Uid: s.uid, AuthLvl: s.authLvl, Background: s.background,
			Terminating: atomic.LoadInt32(&s.terminating) != 0, Client: -1}
		for name := range s.subs {
			ss.Subs = append(ss.Subs, name)
		}
		sort.Strings(ss.Subs)
		if st, ok := s.grpcnode.(*grpcStream); ok && st != nil {
			ss.Client = st.c.Idx
			st.c.Sid = sid
		} else if s.proto == LPOLL {
			for _, c := range w.Clients {
				if c.Transport == TransportLP && c.lpSid == sid && c.Connected {
					ss.Client = c.Idx
				}
			}
		}
		sn.Sessions[sid] = ss
	}
	return sn
}

// sessionOf returns the live server-side session of a client connection (nil if gone).
func (w *simWorld) sessionOf(c *SimClient) *Session {
	for _, s := range globals.sessionStore.sessCache {
		if st, ok := s.grpcnode.(*grpcStream); ok && st != nil && st.c == c && st.conn == c.Conn {
			return s
		}
	}
	return nil
}

// decodeContent normalises the content of a {data} frame (gRPC carries raw JSON bytes).
func decodeContent(v any) any {
	if b, ok := v.([]byte); ok {
		var out any
		if err := json.Unmarshal(b, &out); err == nil {
			return out
		}
		return string(b)
	}
	return v
}

func vio(prop, key, format string, a ...any) Violation {
	return Violation{Property: prop, Key: key, Text: fmt.Sprintf(format, a...)}
}
