//go:build verif

package main

// C15 — a peer-to-peer call follows one life cycle and ends exactly once.
//
// Workload: invitations ({pub head.webrtc}) and call events ({note what=call}) with right, stale and
// wrong call ids from every session of the two participants (and of outsiders), interleaved with leave,
// disconnect, reconnect, ordinary publishes and waits across the establishment timeout. In the
// sequential mode every act is an isolated probe judged against a small reference state machine of the
// call (idle / ringing / established) and against the relays each act may cause; in the concurrent
// mode the acts race and only the history is judged: every started call has exactly one ending in the
// store, at most one acceptance before it, both referring to the invitation and carrying its content.

import (
	"encoding/json"
	"fmt"
	"sort"
	"strings"
	"testing"
	"time"

	"github.com/tinode/chat/server/simrt"
	"github.com/tinode/chat/server/store/types"
	"pgregory.net/rapid"
)

type c15Act struct {
	Client int    `json:"c"`
	Kind   string `json:"k"` // invite, ev, leave, sub, disc, reconn, wait, pub
	Topic  int    `json:"t"`
	Event  string `json:"e,omitempty"`
	SeqRef string `json:"s,omitempty"` // cur, stale, wrong, zero
	Wait   int    `json:"w,omitempty"`
	Role   string `json:"r,omitempty"` // scripted step: "caller" / "callee" = first session of the p2p topic's first / second user
	Fail   bool   `json:"fail,omitempty"` // the message write this act causes (acceptance / ending of the call) fails in the store
}

type c15Prog struct {
	Sc         Scenario `json:"scenario"`
	Acts       []c15Act `json:"acts"`
	Concurrent bool     `json:"concurrent,omitempty"`
}

var c15Events = []string{"ringing", "accept", "offer", "answer", "ice-candidate", "hang-up", "hang-up", "bogus"}

func genC15(rt *rapid.T) c15Prog {
	p := c15Prog{Sc: genScenario(rt, 3, 1, false)}
	if len(p.Sc.P2P) == 0 {
		p.Sc.P2P = append(p.Sc.P2P, [2]int{0, 1})
	}
	p.Concurrent = rapid.IntRange(0, 3).Draw(rt, "concurrent") == 0
	n := rapid.IntRange(4, 18).Draw(rt, "nacts")
	for i := 0; i < n; i++ {
		a := c15Act{
			Client: rapid.IntRange(0, 5).Draw(rt, "client"),
			Kind: rapid.SampledFrom([]string{"invite", "invite", "ev", "ev", "ev", "ev", "ev", "ev", "leave", "sub", "disc", "reconn", "wait", "wait", "pub"}).Draw(rt, "kind"),
			Topic:  rapid.IntRange(0, 3).Draw(rt, "topic"),
			Event:  rapid.SampledFrom(c15Events).Draw(rt, "event"),
			SeqRef: rapid.SampledFrom([]string{"cur", "cur", "cur", "cur", "cur", "stale", "wrong", "zero"}).Draw(rt, "seqref"),
			Wait:   rapid.SampledFrom([]int{1, 2, 4, 7, 9}).Draw(rt, "wait"),
		}
		// most of the traffic goes to the p2p topic
		if rapid.IntRange(0, 4).Draw(rt, "onp2p") != 0 {
			a.Topic = len(p.Sc.Groups)
		}
		p.Acts = append(p.Acts, a)
	}
	// Scripted prefix (drawn last, run first): the first k steps of a regular call, so that the deep
	// states (established call, media exchange) are reached often; the random acts then disturb it.
	if k := rapid.SampledFrom([]int{0, 0, 1, 2, 3, 4, 5, 6, 7}).Draw(rt, "flow"); k > 0 {
		t := len(p.Sc.Groups)
		flow := []c15Act{
			{Kind: "invite", Topic: t, Role: "caller"},
			{Kind: "ev", Topic: t, Event: "ringing", SeqRef: "cur", Role: "callee"},
			{Kind: "ev", Topic: t, Event: "accept", SeqRef: "cur", Role: "callee"},
			{Kind: "ev", Topic: t, Event: "offer", SeqRef: "cur", Role: "caller"},
			{Kind: "ev", Topic: t, Event: "answer", SeqRef: "cur", Role: "callee"},
			{Kind: "ev", Topic: t, Event: "ice-candidate", SeqRef: "cur", Role: rapid.SampledFrom([]string{"caller", "callee"}).Draw(rt, "icerole")},
			{Kind: "ev", Topic: t, Event: "hang-up", SeqRef: "cur", Role: rapid.SampledFrom([]string{"caller", "callee"}).Draw(rt, "huprole")},
		}
		pre := append([]c15Act{}, flow[:k]...)
		// splice the scripted steps between the first random acts
		var merged []c15Act
		ri := 0
		for _, f := range pre {
			merged = append(merged, f)
			if ri < len(p.Acts) && rapid.IntRange(0, 2).Draw(rt, "interleave") == 0 {
				merged = append(merged, p.Acts[ri])
				ri++
			}
		}
		p.Acts = append(merged, p.Acts[ri:]...)
	}
	// store failures at the writes that record acceptance and ending (drawn last)
	if rapid.IntRange(0, 3).Draw(rt, "faults") == 0 {
		for i := range p.Acts {
			switch p.Acts[i].Kind {
			case "ev", "leave", "disc", "wait":
				p.Acts[i].Fail = rapid.IntRange(0, 2).Draw(rt, "fail") == 0
			}
		}
	}
	return p
}

// c15Call is the reference model's view of one call.
type c15Call struct {
	Topic     string
	Seq       int
	Content   string
	CallerUid types.Uid
	CallerSid string
	CallerC   int
	CalleeSid string
	CalleeC   int
	Since     time.Duration
	Accepted  bool
	End       string // "" while alive
	EndLost   bool   // the store write of the ending failed (injected): the history has no ending
}

type c15Exp struct {
	Kind     string
	Topic    string
	FrameLen map[int]int
	DiskDump string
	Skip     bool   // preconditions outside the model: only the history is judged
	Valid    bool   // the event must take effect
	Relay    int    // client that must get the forwarded {info} (-1 none)
	Event    string // event name
	Seq      int
	EndKind  string // expected ending of the call, "" = none
	NewCall  bool
	Busy     bool
	Refuse   int // expected error code of an invitation (0 = none)
	Sid      string
	Boundary bool // the act coincides with the establishment timeout
	Detached bool // the leaving party session was not attached to the call's topic
	RelayGone bool // the party that must get the relay is a session its client has abandoned (reconnected since)
}

const c15Timeout = 6 * time.Second

var c15Terminal = map[string]bool{"finished": true, "declined": true, "missed": true, "disconnected": true}

func runC15(t *testing.T, sched simrt.Schedule, prog c15Prog) ([]Violation, RunStats) {
	started, ended := 0, 0
	viol, st := runOne(t, sched, func(w *simWorld) []Violation {
		var out []Violation
		sc := prog.Sc
		w.configure(sc)
		ntop := len(sc.Groups) + len(sc.P2P)
		live := map[string]*c15Call{} // topic -> current call per the model
		lenient := map[string]bool{}  // topics whose call state the model no longer tracks
		var all []*c15Call
		sidOf := func(sn *Snapshot, c *SimClient) string {
			for sid, s := range sn.Sessions {
				if s.Client == c.Idx {
					return sid
				}
			}
			return ""
		}
		clientOfSid := func(sn *Snapshot, sid string) int {
			if s := sn.Sessions[sid]; s != nil {
				return s.Client
			}
			return -1
		}
		attachedTo := func(sn *Snapshot, c *SimClient, topic string) bool {
			for _, s := range sn.Sessions {
				if s.Client == c.Idx {
					for _, name := range s.Subs {
						if name == topic {
							return true
						}
					}
				}
			}
			return false
		}
		endCall := func(cl *c15Call, kind string) {
			simrt.Probe("c15.end_" + kind)
			if f := simStore.Fault; f != nil && f.Fired {
				cl.EndLost = true
				simrt.Probe("fault.store_err")
			}
			cl.End = kind
			delete(live, cl.Topic)
			ended++
		}
		// expire ringing calls whose establishment timer has fired
		expire := func(now time.Duration, sn *Snapshot) (boundary bool) {
			for _, cl := range all {
				if cl.End != "" || cl.Accepted {
					continue
				}
				switch d := now - cl.Since; {
				case d > c15Timeout:
					endCall(cl, "missed")
				case d == c15Timeout:
					// the timer and this act are due at the same instant: either order is legal
					boundary = true
					if ts := sn.Topics[cl.Topic]; ts == nil || !ts.HasCall {
						endCall(cl, "missed")
					}
				}
			}
			return
		}

		w.OnIsoFire = func(p *isoProbe) {
			e := &c15Exp{FrameLen: map[int]int{}, DiskDump: w.Disk.Dump(), Relay: -1}
			for _, cl := range w.Clients {
				e.FrameLen[cl.Idx] = len(cl.Frames)
			}
			p.Exp = e
			e.Boundary = expire(w.rt.Now(), p.Pre)
			c := p.C
			e.Sid = sidOf(p.Pre, c)
			if p.Op.Kind == OpDisconnect {
				e.Kind = "disc"
				for _, cl := range all {
					if cl.End == "" && e.Sid != "" && (cl.CallerSid == e.Sid || cl.CalleeSid == e.Sid) {
						if c.Transport == TransportLP {
							// the server cannot see a long-polling client go away: the session lingers until the
							// registry expires it. A ringing call then runs into its timeout; an established one
							// stays until the expiry, whose instant the model does not track.
							if cl.Accepted {
								lenient[cl.Topic] = true
								cl.End = "?"
								delete(live, cl.Topic)
								ended++
							}
							continue
						}
						e.Topic, e.EndKind = cl.Topic, "disconnected"
						e.Detached = !attachedTo(p.Pre, c, cl.Topic)
					}
				}
				return
			}
			if p.Sent == nil || p.Sent.Msg == nil {
				e.Skip = true
				return
			}
			m := p.Sent.Msg
			switch {
			case m.Leave != nil:
				e.Kind, e.Topic = "leave", w.globalName(c, m.Leave.Topic)
				if cl := live[e.Topic]; cl != nil && attachedTo(p.Pre, c, e.Topic) && (cl.CallerSid == e.Sid || cl.CalleeSid == e.Sid) {
					e.EndKind = "disconnected"
				}
			case m.Pub != nil && m.Pub.Head != nil && m.Pub.Head["webrtc"] != nil:
				e.Kind, e.Topic = "invite", w.globalName(c, m.Pub.Topic)
				ts := p.Pre.Topics[e.Topic]
				if ts == nil || !attachedTo(p.Pre, c, e.Topic) || e.Sid == "" {
					e.Skip = true // refused as any publish from an unattached session would be (C03)
					return
				}
				pud, ok := ts.PerUser[c.User.Uid]
				writer := ok && !pud.Deleted && pud.Want&pud.Given&types.ModeWrite != 0
				switch {
				case ts.Cat != types.TopicCatP2P:
					e.Refuse = 403
				case lenient[e.Topic]:
					e.Skip = true // the model lost track of this topic's call (abandoned party session)
				case live[e.Topic] != nil:
					e.Busy = true
				case !writer || ts.Status&(topicStatusReadOnly|topicStatusPaused|topicStatusMarkedDeleted) != 0:
					e.Skip = true
				default:
					e.NewCall = true
				}
			case m.Note != nil && m.Note.What == "call":
				e.Kind, e.Topic, e.Event, e.Seq = "ev", w.globalName(c, m.Note.Topic), m.Note.Event, m.Note.SeqId
				cl := live[e.Topic]
				ts := p.Pre.Topics[e.Topic]
				if lenient[e.Topic] {
					e.Skip = true
					return
				}
				if cl == nil || ts == nil || e.Sid == "" || e.Seq != cl.Seq || e.Seq <= 0 {
					return // invalid: no call, wrong id, topic not loaded
				}
				if _, member := ts.PerUser[c.User.Uid]; !member || ts.Cat != types.TopicCatP2P {
					return
				}
				att := attachedTo(p.Pre, c, e.Topic)
				if !att && e.Event != "ringing" && e.Event != "accept" && e.Event != "hang-up" {
					return // only these three are routed from a session that is not attached
				}
				isCaller := c.User.Uid == cl.CallerUid
				switch e.Event {
				case "ringing", "accept":
					if cl.Accepted || isCaller {
						return
					}
					e.Valid, e.Relay = true, cl.CallerC
				case "offer", "answer", "ice-candidate":
					if !cl.Accepted || (e.Sid != cl.CallerSid && e.Sid != cl.CalleeSid) {
						return
					}
					e.Valid = true
					if e.Sid == cl.CallerSid {
						e.Relay = cl.CalleeC
					} else {
						e.Relay = cl.CallerC
					}
				case "hang-up":
					if cl.Accepted {
						if e.Sid != cl.CallerSid && e.Sid != cl.CalleeSid {
							return
						}
						e.Valid, e.EndKind = true, "finished"
					} else {
						if isCaller && e.Sid != cl.CallerSid {
							return
						}
						e.Valid = true
						if isCaller {
							e.EndKind = "missed"
						} else {
							e.EndKind = "declined"
						}
					}
				}
			default:
				e.Skip = true
			}
			if e.Relay >= 0 {
				if cl := live[e.Topic]; cl != nil {
					want := cl.CallerSid
					if e.Relay == cl.CalleeC && e.Sid == cl.CallerSid {
						want = cl.CalleeSid
					}
					if cur := sidOf(p.Pre, w.Clients[e.Relay]); cur != want {
						e.RelayGone = true
					}
				}
			}
		}

		infoCalls := func(cl *SimClient, from int) (res []*MsgServerInfo) {
			for _, f := range cl.Frames[from:] {
				if f.Msg.Info != nil && f.Msg.Info.What == "call" {
					res = append(res, f.Msg.Info)
				}
			}
			return
		}

		w.OnIsoDone = func(p *isoProbe, post *Snapshot) {
			e, _ := p.Exp.(*c15Exp)
			if e == nil {
				return
			}
			c := p.C
			// outsiders never hear about a call: every {info what=call} goes to a participant of its topic
			for _, cl := range w.Clients {
				for _, in := range infoCalls(cl, e.FrameLen[cl.Idx]) {
					name := in.Topic
					if name == "me" {
						name = in.Src
					}
					g := w.globalName(cl, name)
					ts := post.Topics[g]
					if ts == nil {
						ts = p.Pre.Topics[g]
					}
					if ts != nil {
						if _, member := ts.PerUser[cl.User.Uid]; !member {
							out = append(out, vio("C15", "call-info-to-outsider", "client %d (user %d) got %s about %s", cl.Idx, cl.User.Idx, frameSummary(&ServerComMessage{Info: in}), g))
						}
					}
				}
			}
			if e.Skip {
				// resynchronise the model with what the server did (preconditions outside the model)
				if p.Sent != nil && p.Sent.Msg != nil && p.Sent.Msg.Pub != nil && p.Sent.Code == 202 && e.Kind == "invite" {
					e.NewCall = true
				} else {
					return
				}
			}
			switch e.Kind {
			case "invite":
				s := p.Sent
				switch {
				case e.Refuse != 0:
					if s.Code != e.Refuse {
						out = append(out, vio("C15", "invite-outside-p2p", "invitation in %s answered %d, expected %d", e.Topic, s.Code, e.Refuse))
					}
					if d := w.Disk.Dump(); d != e.DiskDump {
						out = append(out, vio("C15", "refused-invite-left-trace", "refused invitation in %s changed the store:\n%s", e.Topic, diffLines(e.DiskDump, d)))
					}
				case e.Busy:
					simrt.Probe("c15.busy_judged")
					if s.Code != 486 {
						out = append(out, vio("C15", "second-invite-not-busy", "invitation in %s during call %d answered %d, expected 486", e.Topic, live[e.Topic].Seq, s.Code))
					}
					if d := w.Disk.Dump(); d != e.DiskDump {
						out = append(out, vio("C15", "busy-invite-left-trace", "busy invitation in %s changed the store:\n%s", e.Topic, diffLines(e.DiskDump, d)))
					}
					for _, cl := range w.Clients {
						if cl != c && len(cl.Frames) > e.FrameLen[cl.Idx] {
							out = append(out, vio("C15", "busy-invite-caused-traffic", "busy invitation in %s caused a frame at client %d: %s", e.Topic, cl.Idx, frameSummary(cl.Frames[e.FrameLen[cl.Idx]].Msg)))
						}
					}
					if ts := post.Topics[e.Topic]; ts != nil && ts.CallSeq != live[e.Topic].Seq {
						out = append(out, vio("C15", "busy-invite-replaced-call", "after a busy invitation the topic's call is %d, was %d", ts.CallSeq, live[e.Topic].Seq))
					}
				case e.NewCall:
					if s.Code != 202 {
						if e.Boundary {
							return
						}
						out = append(out, vio("C15", "invite-refused", "invitation by an attached writer in idle p2p topic %s answered %d", e.Topic, s.Code))
						return
					}
					seq := toInt(s.Ctrl.Params.(map[string]any)["seq"])
					content, _ := s.Msg.Pub.Content.(string)
					cl := &c15Call{Topic: e.Topic, Seq: seq, Content: content, CallerUid: c.User.Uid, CallerSid: e.Sid, CallerC: c.Idx, CalleeC: -1, Since: p.Sent.At}
					live[e.Topic] = cl
					lenient[e.Topic] = false
					all = append(all, cl)
					started++
					if ts := post.Topics[e.Topic]; ts == nil || !ts.HasCall || ts.CallSeq != seq || ts.CallOriginator != e.Sid || len(ts.CallParties) != 1 {
						out = append(out, vio("C15", "invite-state", "after invitation seq %d by session %s the topic holds call %+v", seq, e.Sid, ts))
					}
				}
			case "ev":
				cl := live[e.Topic]
				got := map[int][]*MsgServerInfo{}
				for _, oc := range w.Clients {
					for _, in := range infoCalls(oc, e.FrameLen[oc.Idx]) {
						if in.Topic != "me" {
							got[oc.Idx] = append(got[oc.Idx], in)
						}
					}
				}
				if !e.Valid {
					simrt.Probe("c15.ignored_event_judged")
					if e.Boundary {
						return
					}
					for ci, ins := range got {
						out = append(out, vio("C15", "ignored-event-relayed "+e.Event, "%s event seq=%d from client %d (sid %s) must be ignored but client %d got %s", e.Event, e.Seq, c.Idx, e.Sid, ci, frameSummary(&ServerComMessage{Info: ins[0]})))
					}
					if d := w.Disk.Dump(); d != e.DiskDump {
						out = append(out, vio("C15", "ignored-event-changed-store "+e.Event, "%s event seq=%d from client %d must be ignored but the store changed:\n%s", e.Event, e.Seq, c.Idx, diffLines(e.DiskDump, d)))
					}
					if ts, pr := post.Topics[e.Topic], p.Pre.Topics[e.Topic]; ts != nil && pr != nil && (ts.HasCall != pr.HasCall || len(ts.CallParties) != len(pr.CallParties)) {
						out = append(out, vio("C15", "ignored-event-changed-call "+e.Event, "%s event seq=%d from client %d must be ignored but the call state changed", e.Event, e.Seq, c.Idx))
					}
					return
				}
				if e.Boundary && (post.Topics[e.Topic] == nil || (!post.Topics[e.Topic].HasCall && e.EndKind == "")) {
					// the timer won the race: the call was already over when the event arrived
					if cl != nil {
						endCall(cl, "missed")
					}
					return
				}
				switch e.Event {
				case "ringing", "accept", "offer", "answer", "ice-candidate":
					if e.Event == "accept" {
						// acceptance may fail when the caller lost write permission meanwhile: judged by the history
						if ts := post.Topics[e.Topic]; ts != nil && len(ts.CallParties) == 2 {
							cl.Accepted, cl.CalleeSid, cl.CalleeC = true, e.Sid, c.Idx
							simrt.Probe("c15.accepted")
						} else {
							return
						}
					}
					simrt.Probe("c15.relay_judged_" + e.Event)
					for ci, ins := range got {
						if ci != e.Relay {
							out = append(out, vio("C15", "relayed-to-third-session "+e.Event, "%s event of call %d from client %d was relayed to client %d (expected only client %d): %s", e.Event, e.Seq, c.Idx, ci, e.Relay, frameSummary(&ServerComMessage{Info: ins[0]})))
						}
					}
					if !w.Clients[e.Relay].Connected || e.RelayGone {
						// the other party is an abandoned long-polling session: nobody reads its queue
					} else if n := len(got[e.Relay]); n != 1 {
						out = append(out, vio("C15", fmt.Sprintf("relay-copies-%d %s", n, e.Event), "%s event of call %d from client %d: client %d must get exactly one {info}, got %d", e.Event, e.Seq, c.Idx, e.Relay, n))
					} else if in := got[e.Relay][0]; in.Event != e.Event || in.SeqId != e.Seq || in.From != c.User.Uid.UserId() || w.globalName(w.Clients[e.Relay], in.Topic) != e.Topic {
						out = append(out, vio("C15", "relay-altered "+e.Event, "%s event of call %d from client %d reached client %d as %s", e.Event, e.Seq, c.Idx, e.Relay, frameSummary(&ServerComMessage{Info: in})))
					}
				case "hang-up":
					endCall(cl, e.EndKind)
					if ts := post.Topics[e.Topic]; ts != nil && ts.HasCall {
						out = append(out, vio("C15", "hang-up-ignored", "valid hang-up of call %d from client %d (sid %s) left the call in place", e.Seq, c.Idx, e.Sid))
					}
				}
			case "leave", "disc":
				if e.EndKind != "" {
					if cl := live[e.Topic]; cl != nil {
						if ts := post.Topics[e.Topic]; ts != nil && ts.HasCall && e.Detached {
							// recorded finding: the topic never hears about the end of a session that is not attached to it
							out = append(out, vio("C15", "detached-party-gone-call-stays", "session %s, party to call %d of %s without being attached to the topic (it accepted through the hub), was closed but the call is still there", e.Sid, cl.Seq, e.Topic))
							lenient[e.Topic] = true
							cl.End = "?"
							delete(live, e.Topic)
							ended++
						} else {
							endCall(cl, e.EndKind)
							if ts != nil && ts.HasCall {
								out = append(out, vio("C15", "party-left-call-stays", "party session %s left %s but call %d is still there", e.Sid, e.Topic, cl.Seq))
							}
						}
					}
				}
			}
			// the model and the server agree on whether a call exists
			if !e.Boundary {
				for name, ts := range post.Topics {
					if ts.Cat != types.TopicCatP2P {
						if ts.HasCall {
							out = append(out, vio("C15", "call-outside-p2p", "topic %s (cat %d) holds a call", name, ts.Cat))
						}
						continue
					}
					cl := live[name]
					if lenient[name] {
						continue
					}
					if ts.HasCall != (cl != nil) {
						out = append(out, vio("C15", "call-state-mismatch", "after %s by client %d: topic %s has call=%v (seq %d), model says %v", e.Kind+" "+e.Event, c.Idx, name, ts.HasCall, ts.CallSeq, cl != nil))
						// resynchronise
						if cl != nil {
							endCall(cl, "?")
						}
					} else if cl != nil && (ts.CallSeq != cl.Seq || (len(ts.CallParties) == 2) != cl.Accepted) {
						out = append(out, vio("C15", "call-state-mismatch", "topic %s: call %d with %d parties, model says call %d accepted=%v", name, ts.CallSeq, len(ts.CallParties), cl.Seq, cl.Accepted))
					}
				}
			}
			_ = clientOfSid
		}

		tagN := 0
		pick := func(a c15Act) *SimClient {
			switch a.Role {
			case "caller":
				return w.clientsOf(sc.P2P[0][0])[0]
			case "callee":
				return w.clientsOf(sc.P2P[0][1])[0]
			}
			return w.Clients[a.Client%len(w.Clients)]
		}
		mk := func(a c15Act) (c *SimClient, op *Op) {
			c = pick(a)
			name := c01TopicName(sc, c, a.Topic%ntop)
			g := w.globalName(c, mustResolve(w, name))
			switch a.Kind {
			case "invite":
				tagN++
				op = opPub(name, fmt.Sprintf("call%d", tagN), false)
				op.Msg.Pub.Head = map[string]any{"webrtc": "started", "mime": "application/x-tinode-webrtc"}
			case "ev":
				seq := 0
				cur := 0
				if cl := live[g]; cl != nil {
					cur = cl.Seq
				} else if len(all) > 0 {
					cur = all[len(all)-1].Seq
				}
				switch a.SeqRef {
				case "cur":
					seq = cur
				case "stale":
					seq = cur - 1
				case "wrong":
					seq = cur + 1
				}
				op = opNote(name, "call", seq)
				op.Msg.Note.Event = a.Event
				if a.Event == "offer" || a.Event == "answer" || a.Event == "ice-candidate" {
					op.Msg.Note.Payload = json.RawMessage(`{"sdp":"x"}`)
				}
			case "leave":
				op = opLeave(name, false)
			case "sub":
				op = opSub(name, "", "")
			case "disc":
				op = &Op{Kind: OpDisconnect, CreatesGroup: -1}
			case "pub":
				tagN++
				op = opPub(name, fmt.Sprintf("txt%d", tagN), false)
			case "wait":
				op = &Op{Kind: OpSleep, CreatesGroup: -1, Delay: time.Duration(a.Wait) * time.Second}
			}
			return
		}
		reconnect := func(c *SimClient) []*Op {
			ops := []*Op{opHi(), opLogin(c.User.Idx, "token"), opSub("me", "", "")}
			for ti := 0; ti < ntop; ti++ {
				ops = append(ops, opSub(c01TopicName(sc, c, ti), "", ""))
			}
			return ops
		}

		if prog.Concurrent {
			// the acts race; the model is not consulted, only the history and the final state are judged
			ops := map[int][]*Op{}
			for _, a := range prog.Acts {
				c := pick(a)
				if a.Kind == "reconn" {
					if !c.Connected || true {
						ops[c.Idx] = append(ops[c.Idx], reconnect(c)...)
					}
					continue
				}
				_, op := mk(a)
				if op == nil {
					continue
				}
				if a.Kind == "ev" {
					// call ids are not known in advance: probe the small range the run can reach
					op.Msg.Note.SeqId = 1 + (a.Client+a.Topic+len(ops[c.Idx]))%6
				}
				op.NoWait = a.Kind != "wait"
				ops[c.Idx] = append(ops[c.Idx], op)
			}
			if r := w.runPhase(ops); r == simrt.RunLivelock {
				return append(out, vio("C14", "livelock", "step budget exhausted"))
			}
		} else {
			for _, a := range prog.Acts {
				c := pick(a)
				if a.Kind == "reconn" {
					if !c.Connected {
						w.runPhase(map[int][]*Op{c.Idx: reconnect(c)})
					}
					continue
				}
				_, op := mk(a)
				if op == nil || (!c.Connected && a.Kind != "wait") {
					continue
				}
				op.Isolated = true
				if a.Fail {
					simStore.Fault = &faultPlan{FailAt: 1, FailMethod: "MessageSave"}
					simrt.Probe("fault.store_armed")
				}
				w.setOps(map[int][]*Op{c.Idx: {op}})
				if r := w.rt.Run(500*time.Millisecond, nil); r != simrt.RunQuiescent {
					return append(out, vio("C14", "livelock", "run result %d", r))
				}
				w.Enabled(true)
				simStore.Fault = nil
			}
		}
		// everybody hangs up by leaving; then the history must show one ending per call
		w.OnIsoFire, w.OnIsoDone = nil, nil
		w.settle()
		fin := map[int][]*Op{}
		for _, c := range w.Clients {
			if c.Connected {
				for ti := 0; ti < ntop; ti++ {
					fin[c.Idx] = append(fin[c.Idx], opLeave(c01TopicName(sc, c, ti), false))
				}
			}
		}
		w.runPhase(fin)
		sn := w.snapshot()
		for name, ts := range sn.Topics {
			if ts.HasCall {
				held := false
				for sid := range ts.CallParties {
					if _, ok := ts.Sessions[sid]; ok {
						held = true // an abandoned long-polling session is still attached
					}
				}
				if !held {
					out = append(out, vio("C15", "call-outlives-sessions", "topic %s still holds call %d although none of its parties is attached", name, ts.CallSeq))
				}
			}
		}
		// history: invitations and their replacements in the store
		for topic, msgs := range w.Disk.Messages {
			type rec struct {
				seq     int
				state   string
				content string
				from    string
				replace string
			}
			var recs []rec
			for _, m := range msgs {
				var head map[string]any
				if len(m.Head) > 0 {
					b, _ := json.Marshal(m.Head)
					json.Unmarshal(b, &head)
				}
				st, _ := head["webrtc"].(string)
				if st == "" {
					continue
				}
				var content any
				json.Unmarshal(m.Content, &content)
				cs, _ := content.(string)
				rp, _ := head["replace"].(string)
				recs = append(recs, rec{m.SeqId, st, cs, m.From.String(), rp})
			}
			sort.Slice(recs, func(i, j int) bool { return recs[i].seq < recs[j].seq })
			inv := map[int]rec{}
			for _, r := range recs {
				if r.replace == "" {
					inv[r.seq] = r
				}
			}
			endings, accepts := map[int][]rec{}, map[int][]rec{}
			for _, r := range recs {
				if r.replace == "" {
					continue
				}
				var ref int
				fmt.Sscanf(strings.TrimPrefix(r.replace, ":"), "%d", &ref)
				orig, ok := inv[ref]
				if !ok {
					out = append(out, vio("C15", "replacement-of-unknown-call", "topic %s seq %d (%s) replaces %q which is not an invitation", topic, r.seq, r.state, r.replace))
					continue
				}
				if r.content != orig.content || r.from != orig.from {
					out = append(out, vio("C15", "replacement-altered", "topic %s seq %d (%s) of call %d carries content %q from %q, the invitation had %q from %q", topic, r.seq, r.state, ref, r.content, r.from, orig.content, orig.from))
				}
				switch {
				case c15Terminal[r.state]:
					endings[ref] = append(endings[ref], r)
				case r.state == "accepted":
					accepts[ref] = append(accepts[ref], r)
				default:
					out = append(out, vio("C15", "replacement-unknown-state", "topic %s seq %d of call %d has state %q", topic, r.seq, ref, r.state))
				}
			}
			for seq := range inv {
				lost := false
				for _, cl := range all {
					if cl.Topic == topic && cl.Seq == seq && (cl.EndLost || cl.End == "?") {
						lost = true
					}
				}
				if n := len(endings[seq]); n != 1 && !(lost && n == 0) {
					out = append(out, vio("C15", fmt.Sprintf("call-ended-%d-times", n), "topic %s call %d has %d endings in the store: %v (acceptances %v)", topic, seq, n, endings[seq], accepts[seq]))
				}
				if n := len(accepts[seq]); n > 1 {
					out = append(out, vio("C15", "call-accepted-twice", "topic %s call %d has %d acceptances: %v", topic, seq, n, accepts[seq]))
				} else if n == 1 && len(endings[seq]) == 1 {
					if accepts[seq][0].seq > endings[seq][0].seq {
						out = append(out, vio("C15", "accepted-after-end", "topic %s call %d: accepted at seq %d after its ending at seq %d", topic, seq, accepts[seq][0].seq, endings[seq][0].seq))
					}
					if k := endings[seq][0].state; k == "declined" || k == "missed" {
						out = append(out, vio("C15", "accepted-call-"+k, "topic %s call %d was accepted and then ended as %s", topic, seq, k))
					}
				} else if n == 0 && len(endings[seq]) == 1 && endings[seq][0].state == "finished" {
					out = append(out, vio("C15", "finished-without-accept", "topic %s call %d finished without having been accepted", topic, seq))
				}
			}
		}
		// sequential mode: the ending recorded in the store is the one the model derived
		if !prog.Concurrent {
			for _, cl := range all {
				if cl.End == "" || cl.End == "?" {
					continue
				}
				for _, m := range w.Disk.Messages[cl.Topic] {
					var head map[string]any
					b, _ := json.Marshal(m.Head)
					json.Unmarshal(b, &head)
					if rp, _ := head["replace"].(string); rp == fmt.Sprintf(":%d", cl.Seq) {
						if st, _ := head["webrtc"].(string); c15Terminal[st] && st != cl.End {
							out = append(out, vio("C15", "wrong-ending "+cl.End+"->"+st, "topic %s call %d ended as %q, the model says %q", cl.Topic, cl.Seq, st, cl.End))
						}
					}
				}
			}
		}
		return out
	})
	st.Trigger = started >= 1 && ended >= 1
	st.ProgHash = hashOf(prog)
	return viol, st
}

func TestSim_C15(t *testing.T) {
	rapid.Check(t, func(rt *rapid.T) {
		sched := genSchedule(rt)
		prog := genC15(rt)
		viol, st := runC15(t, sched, prog)
		reportRun(rt, "C15", viol, st, map[string]any{"schedule": sched, "program": prog})
	})
}
