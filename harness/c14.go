//go:build verif

package main

// C14 — attach, detach, disconnect and delete race without leaks, hangs or lost replies.

import (
	"fmt"
	"github.com/tinode/chat/server/store/types"
	"sort"
	"strings"
	"sync/atomic"
	"testing"
	"time"

	"github.com/tinode/chat/server/simrt"
	"pgregory.net/rapid"
)

type c14Act struct {
	Client int    `json:"c"`
	Kind   string `json:"k"`
	Topic  int    `json:"t"`
	Delay  int    `json:"d,omitempty"` // deciseconds
	NoWait bool   `json:"nw,omitempty"`
	N      int    `json:"n,omitempty"`
}

type c14Prog struct {
	Sc        Scenario   `json:"scenario"`
	Phases    [][]c14Act `json:"phases"`
	StoreFail int        `json:"store_fail"` // k-th TopicGet/UsersForTopic/... call fails in phase 1 (0 = none)
	FailMeth  string     `json:"fail_method"`
	FailPhase int        `json:"fail_phase,omitempty"` // index of the phase in which the store failure is armed (default: the first)
}

func genC14(rt *rapid.T) c14Prog {
	p := c14Prog{Sc: genScenario(rt, 4, 2, false)}
	nph := rapid.IntRange(1, 3).Draw(rt, "nphases")
	kinds := []string{"sub", "sub", "leave", "leave", "unsub", "pub", "pub", "disc", "reconnect", "stall", "unstall", "burst", "deltopic", "deluser", "getdesc", "idle", "subme", "leaveme"}
	for i := 0; i < nph; i++ {
		var ph []c14Act
		n := rapid.IntRange(3, 14).Draw(rt, "nacts")
		for j := 0; j < n; j++ {
			a := c14Act{
				Client: rapid.IntRange(0, 7).Draw(rt, "client"),
				Kind:   rapid.SampledFrom(kinds).Draw(rt, "kind"),
				Topic:  rapid.IntRange(0, 3).Draw(rt, "topic"),
				NoWait: rapid.Bool().Draw(rt, "nowait"),
			}
			switch rapid.IntRange(0, 5).Draw(rt, "delayed") {
			case 0:
				a.Delay = rapid.IntRange(1, 60).Draw(rt, "delay")
			case 1:
				a.Delay = rapid.SampledFrom([]int{39, 40, 41, 45}).Draw(rt, "delay4s") // around the 4 s idle unload
			}
			if a.Kind == "burst" {
				a.N = rapid.SampledFrom([]int{5, 20, 170, 200}).Draw(rt, "burst")
			}
			ph = append(ph, a)
		}
		p.Phases = append(p.Phases, ph)
	}
	if rapid.IntRange(0, 3).Draw(rt, "storefail") == 0 {
		p.StoreFail = rapid.IntRange(1, 8).Draw(rt, "failat")
		p.FailMeth = rapid.SampledFrom([]string{"TopicGet", "UsersForTopic", "SubsDelete", "SubscriptionGet", "TopicDelete", "UserGet", ""}).Draw(rt, "failmeth")
	}
	// Scripted ending, one run in five (drawn last): owner and a member attach to a group; then the owner deletes the
	// topic while the member's connection goes away, and the store refuses the deletion, so that the topic, paused for
	// the deletion, resumes. Whether the member's detach notice reaches the topic before, during or after the pause is
	// the scheduler's choice (fix 75cdefc, seeded change C14-m3).
	if rapid.IntRange(0, 4).Draw(rt, "script") == 0 && len(p.Sc.Groups) > 0 {
		g := rapid.IntRange(0, 3).Draw(rt, "scriptgroup") % len(p.Sc.Groups)
		var members []int
		for _, m := range p.Sc.Groups[g].Members {
			if m.User != p.Sc.Groups[g].Owner {
				members = append(members, m.User)
			}
		}
		if len(members) > 0 {
			mu := members[rapid.IntRange(0, 7).Draw(rt, "scriptmember")%len(members)]
			gap := rapid.SampledFrom([]int{0, 0, 1}).Draw(rt, "scriptgap")
			first := func(u int) int {
				n := 0
				for i := 0; i < u; i++ {
					n += p.Sc.Sessions[i]
				}
				return n
			}
			oc, mc := first(p.Sc.Groups[g].Owner), first(mu)
			p.Phases = append(p.Phases,
				[]c14Act{{Client: oc, Kind: "reconnect", Topic: g}, {Client: mc, Kind: "reconnect", Topic: g}, {Client: oc, Kind: "sub", Topic: g}, {Client: mc, Kind: "sub", Topic: g}},
				[]c14Act{{Client: oc, Kind: "deltopic", Topic: g}, {Client: mc, Kind: "disc", Delay: gap}})
			p.StoreFail, p.FailMeth, p.FailPhase = 1, "TopicDelete", len(p.Phases)-1
		}
	}
	return p
}

// homeWaits: the wait sites at which resident tasks (hub, topic actors, session loops, user cache, GC loops)
// sit when the system is idle. They are learned from the quiescent state right after the configure phase
// (when nothing can be hung yet) rather than hard-coded, so that they follow the code under test.
func learnHomeWaits(w *simWorld) map[string]bool {
	home := map[string]bool{}
	for _, ti := range w.rt.Tasks() {
		if ti.State == "blocked" {
			home[ti.WaitAt] = true
		}
	}
	return home
}

func runC14(t *testing.T, sched simrt.Schedule, prog c14Prog) ([]Violation, RunStats) {
	overlap := 0
	viol, st := runOne(t, sched, func(w *simWorld) []Violation {
		var out []Violation
		sc := prog.Sc
		w.configure(sc)
		home := learnHomeWaits(w)
		ntop := len(sc.Groups) + len(sc.P2P)
		tagN := 0
		deletedUsers := map[int]bool{}
		for pi, ph := range prog.Phases {
			ops := map[int][]*Op{}
			for _, a := range ph {
				c := w.Clients[a.Client%len(w.Clients)]
				name := "me"
				if ntop > 0 {
					name = c01TopicName(sc, c, a.Topic)
				}
				var list []*Op
				switch a.Kind {
				case "sub":
					list = []*Op{opSub(name, "", "")}
				case "subme":
					list = []*Op{opSub("me", "", "sub")}
				case "leaveme":
					list = []*Op{opLeave("me", false)}
				case "leave":
					list = []*Op{opLeave(name, false)}
				case "unsub":
					list = []*Op{opLeave(name, true)}
				case "pub":
					tagN++
					list = []*Op{opPub(name, fmt.Sprintf("x%d", tagN), false)}
				case "burst":
					for k := 0; k < a.N; k++ {
						tagN++
						o := opPub(name, fmt.Sprintf("b%d", tagN), true)
						o.NoWait = k%16 != 0 // pipelined in chunks: the publisher keeps reading its acknowledgements
						list = append(list, o)
					}
				case "disc":
					list = []*Op{{Kind: OpDisconnect, CreatesGroup: -1}}
				case "reconnect":
					list = []*Op{opHi(), opLogin(c.User.Idx, "token"), opSub(name, "", "")}
				case "stall":
					list = []*Op{{Kind: OpStall, CreatesGroup: -1}}
				case "unstall":
					list = []*Op{{Kind: OpUnstall, CreatesGroup: -1}}
				case "deltopic":
					list = []*Op{opDelTopic(name, a.N%2 == 0)}
				case "deluser":
					if len(deletedUsers) >= 1 {
						continue
					}
					deletedUsers[c.User.Idx] = true
					list = []*Op{opMsg(&ClientComMessage{Del: &MsgClientDel{What: "user", Hard: true}})}
				case "getdesc":
					list = []*Op{opGet(name, "desc")}
				case "idle":
					list = []*Op{{Kind: OpSleep, CreatesGroup: -1}}
				}
				if len(list) == 0 {
					continue
				}
				list[0].Delay = time.Duration(a.Delay) * 100 * time.Millisecond
				if a.Kind != "burst" {
					list[0].NoWait = a.NoWait
				}
				ops[c.Idx] = append(ops[c.Idx], list...)
			}
			if pi == prog.FailPhase && prog.StoreFail > 0 {
				simStore.Fault = &faultPlan{FailAt: prog.StoreFail, FailMethod: prog.FailMeth}
			}
			r := w.runPhase(ops)
			if f := simStore.Fault; f != nil && f.Fired {
				simrt.Probe("fault.store_err")
			}
			simStore.Fault = nil
			if r == simrt.RunLivelock {
				var st []string
				for _, c := range w.Clients {
					last := ""
					if c.lastSent != nil {
						last = fmt.Sprintf(" last=%s answered=%v timedout=%v", c.lastSent.Id, c.lastSent.Answered, c.lastSent.TimedOut)
					}
					st = append(st, fmt.Sprintf("c%d %d/%d conn=%v stalled=%v%s", c.Idx, c.next, len(c.Ops), c.Connected, c.stall != nil, last))
				}
				return append(out, vio("C14", "livelock", "step budget exhausted in phase %d at t=%v (clients: %s)", pi, w.rt.Now(), strings.Join(st, "; ")))
			}
			if r == simrt.RunPanic || len(w.rt.Panics) > 0 {
				return out
			}
		}
		// release slow consumers, let everything drain
		fin := map[int][]*Op{}
		for _, c := range w.Clients {
			fin[c.Idx] = []*Op{{Kind: OpUnstall, CreatesGroup: -1}}
		}
		w.runPhase(fin)
		w.settle()
		// A gRPC session whose write loop has ended (queue overflow, stop request) is torn down only when
		// its read loop returns from Recv, i.e. at the client's next frame or disconnect. A client that
		// neither sends nor hangs up is outside the server's control: supply the hang-up, then check.
		c14Zombies = map[int]bool{}
		zombies := map[string]bool{}
		globals.hub.topics.Range(func(k, v any) bool {
			for s := range v.(*Topic).sessions {
				if s.proto == GRPC && s.grpcnode == nil && atomic.LoadInt32(&s.terminating) == 0 {
					zombies[s.remoteAddr] = true
				}
			}
			return true
		})
		for _, s := range globals.sessionStore.sessCache {
			if s.proto == GRPC && s.grpcnode == nil && atomic.LoadInt32(&s.terminating) == 0 {
				zombies[s.remoteAddr] = true
			}
		}
		if len(zombies) > 0 {
			for _, c := range w.Clients {
				if c.Transport != TransportLP && c.Connected && zombies[fmt.Sprintf("10.0.0.%d:%d", 1+c.Idx, 1000+c.Conn)] {
					simrt.Probe("c14.grpc_write_loop_gone_client_hangs_up")
					c14Zombies[c.Idx] = true
					c.disconnect()
				}
			}
			w.settle()
		}
		overlap = w.rt.Probes["fault.disconnect"] + w.rt.Probes["fault.slow_consumer"] + w.rt.Probes["c14.evicted"]
		// topics whose owner / participant deleted the account during the run, and topics deleted by a
		// {del what=topic}: a request that reaches such a topic's channels after its run loop has drained
		// them is lost (two recorded findings, one per way of killing the topic)
		const kAcc, kDel = "request-forwarded-to-topic-killed-by-account-deletion", "request-sent-to-topic-deleted-concurrently"
		killed := map[string]string{}
		for _, c := range w.Clients {
			for _, s := range c.Sents {
				if s.Msg != nil && s.Msg.Del != nil && s.Msg.Del.What == "topic" && s.Code >= 200 && s.Code < 300 {
					name := w.globalName(c, s.Msg.Del.Topic)
					if types.IsChannel(name) {
						name = types.ChnToGrp(name)
					}
					// only a deletion that really stopped the topic (owner, last p2p participant) counts
					if tr := w.Disk.Topics[name]; tr == nil || tr.State == types.StateDeleted {
						killed[name] = kDel
					}
				}
			}
		}
		for _, u := range w.Users {
			// the account is gone from the store (the reply to {del user} may never reach the evicted client)
			if ur := w.Disk.Users[u.Uid]; ur == nil || ur.State == types.StateDeleted {
				for g, gs := range sc.Groups {
					if gs.Owner == u.Idx && g < len(w.Groups) {
						killed[w.Groups[g]] = kAcc
					}
				}
				for _, p := range sc.P2P {
					if p[0] == u.Idx || p[1] == u.Idx {
						killed[w.Users[p[0]].Uid.P2PName(w.Users[p[1]].Uid)] = kAcc
					}
				}
				// the user's own 'me' and 'fnd' topics are stopped the same way
				killed[u.Uid.UserId()] = kAcc
				killed[u.Uid.FndName()] = kAcc
			}
		}
		reqNo := func(text string) (client, no int, ok bool) {
			if k := strings.Index(text, "request c"); k >= 0 {
				if _, err := fmt.Sscanf(text[k:], "request c%d.%d", &client, &no); err == nil {
					return client, no, true
				}
			}
			return 0, 0, false
		}
		for _, v := range c14Oracle(w, home) {
			if strings.HasPrefix(v.Key, "unanswered sub") || strings.HasPrefix(v.Key, "unanswered leave") || strings.HasPrefix(v.Key, "unanswered del") || strings.HasPrefix(v.Key, "hang ") {
				for name, key := range killed {
					if name != "" && (strings.Contains(v.Text, name) || strings.Contains(v.Text, types.GrpToChn(name))) {
						v.Key = key
					}
				}
			}
			out = append(out, v)
		}
		// a session whose {sub}/{leave} was swallowed that way never gets its in-flight slot back
		// (capacity 1): its read loop blocks in boundedWaitGroup.Add at the next {sub}/{leave}, and nothing
		// it sends afterwards is answered. Same finding.
		// ... also when the swallowed request itself is not reported because its connection was closed later:
		// the blocked read loop cannot even notice the close, the session stays registered
		for _, c := range w.Clients {
			for _, s := range c.Sents {
				if s.Msg == nil || s.Answered || (s.Msg.Sub == nil && s.Msg.Leave == nil && s.Msg.Del == nil) {
					continue
				}
				name := ""
				switch {
				case s.Msg.Sub != nil:
					name = s.Msg.Sub.Topic
				case s.Msg.Leave != nil:
					name = s.Msg.Leave.Topic
				case s.Msg.Del != nil:
					name = s.Msg.Del.Topic
				}
				g := w.globalName(c, name)
				if types.IsChannel(g) {
					g = types.ChnToGrp(g)
				}
				if key := killed[g]; key != "" {
					for j := range out {
						if strings.HasPrefix(out[j].Key, fmt.Sprintf("hang client%d.", c.Idx)) && (strings.Contains(out[j].Key, "@sessionstore.go:") || strings.Contains(out[j].Key, "@waitgroup.Wait")) {
							// blocked at the next {sub}/{leave} (in-flight slot never returned) or, when the session is
							// evicted meanwhile, in the clean-up that waits for the in-flight requests
							out[j].Key = key
						}
						if out[j].Key == "closed-connection-still-registered" && strings.Contains(out[j].Text, fmt.Sprintf(" of client %d ", c.Idx)) {
							out[j].Key = key
						}
						// ... and a session evicted meanwhile never runs its clean-up (the read loop is stuck in the
						// swallowed request): the other topics it was attached to keep listing it
						if (out[j].Key == "terminated-session-attached" || out[j].Key == "unregistered-session-attached") && c.Sid != "" && strings.Contains(out[j].Text, "session "+c.Sid) {
							out[j].Key = key
						}
					}
				}
			}
		}
		for i := range out {
			if out[i].Key != kAcc && out[i].Key != kDel {
				continue
			}
			ci, no, ok := reqNo(out[i].Text)
			if !ok {
				continue
			}
			for j := range out {
				if strings.HasPrefix(out[j].Key, fmt.Sprintf("hang client%d.", ci)) && strings.Contains(out[j].Key, "@sessionstore.go:") {
					out[j].Key = out[i].Key
				}
				if strings.HasPrefix(out[j].Key, "unanswered ") {
					if cj, nj, ok := reqNo(out[j].Text); ok && cj == ci && nj > no {
						out[j].Key = out[i].Key
					}
				}
			}
		}
		// a {sub} that reaches the hub between stopTopicsForUser (topics of the account unloaded) and the removal of
		// the account's rows from the store loads the topic again: the new instance attaches the session while the
		// old one's termination unlinks it on the session's side, and the topic of a deleted owner stays loaded
		for j := range out {
			if out[j].Key != "topic-lists-session-not-vice-versa" && out[j].Key != "session-lists-topic-not-vice-versa" {
				continue
			}
			for name, key := range killed {
				if key == kAcc && name != "" && strings.Contains(out[j].Text, "topic "+name) {
					out[j].Key = "topic-reloaded-during-account-deletion"
				}
			}
		}
		// a read loop stuck that way never runs the session's clean-up: when the session is evicted meanwhile (the
		// account is being deleted) the other topics it is attached to keep listing it. Same finding.
		for i := range out {
			if out[i].Key != kAcc && out[i].Key != kDel {
				continue
			}
			var ci int
			k := strings.Index(out[i].Text, "task client")
			if k < 0 {
				continue
			}
			if _, err := fmt.Sscanf(out[i].Text[k:], "task client%d.MessageLoop", &ci); err != nil || ci >= len(w.Clients) {
				continue
			}
			// sessions are told from their remote address: 10.0.<0|1>.<1+client>:<port>
			from1, from2 := fmt.Sprintf("(from 10.0.0.%d:", 1+ci), fmt.Sprintf("(from 10.0.1.%d:", 1+ci)
			for j := range out {
				if (out[j].Key == "terminated-session-attached" || out[j].Key == "unregistered-session-attached") && (strings.Contains(out[j].Text, from1) || strings.Contains(out[j].Text, from2)) {
					out[j].Key = out[i].Key
				}
			}
		}
		return out
	})
	st.Trigger = overlap >= 2
	st.ProgHash = hashOf(prog)
	return viol, st
}

// c14Zombies: clients whose gRPC session had lost its write loop (slow consumer cut off at the outbound queue
// limit): whatever the server answered after that went into a queue nobody drains - documented overload behaviour.
var c14Zombies = map[int]bool{}

func c14Oracle(w *simWorld, homeWaits map[string]bool) (out []Violation) {
	if len(w.rt.Panics) > 0 {
		return nil
	}
	// Replies dropped because a bounded queue overflowed are documented overload behaviour, not lost replies.
	// (a session cut off at its outbound queue limit - a slow long-polling or gRPC consumer - is logged as
	// "outbound queue limit exceeded": what was queued for it is dropped)
	overload := simLog.count("queue full") + simLog.count("queue2 full") + simLog.count("channel full") + simLog.count("queue is full") + simLog.count("outbound queue limit exceeded")
	// (a) every subscribe / leave / delete request with an id was answered
	for _, c := range w.Clients {
		for _, s := range c.Sents {
			if s.Id == "" || s.Msg == nil || s.Answered {
				continue
			}
			if !(s.Msg.Sub != nil || s.Msg.Leave != nil || s.Msg.Del != nil) {
				continue
			}
			if s.Conn != c.Conn || !c.Connected || s.Inc != w.Inc {
				continue // connection closed before the reply could arrive
			}
			// a leave that crossed with the session's eviction from that topic may be answered by the eviction notice alone
			if s.Msg.Leave != nil {
				evicted := false
				for _, f := range c.Frames {
					if f.Ev > s.Ev && f.Msg.Ctrl != nil && f.Msg.Ctrl.Code == 205 && w.globalName(c, f.Msg.Ctrl.Topic) == w.globalName(c, s.Msg.Leave.Topic) {
						evicted = true
					}
				}
				if evicted {
					simrt.Probe("c14.leave_crossed_eviction")
					continue
				}
			}
			if overload > 0 || c14Zombies[c.Idx] {
				simrt.Probe("c14.unanswered_under_overload")
				continue
			}
			out = append(out, vio("C14", "unanswered "+msgKind(s.Msg), "request %s on connection %d of client %d was never answered: %s", s.Id, s.Conn, c.Idx, canon(s.Msg)))
		}
	}
	// (b)(c) attachment bijection and online counters, white-box at quiescence
	type att struct{ sid, topic string }
	fromTopics := map[att]bool{}
	online := map[string]map[string]int{} // topic -> uid -> attached foreground sessions
	globals.hub.topics.Range(func(k, v any) bool {
		t := v.(*Topic)
		online[t.name] = map[string]int{}
		for s, pssd := range t.sessions {
			fromTopics[att{s.sid, t.name}] = true
			if atomic.LoadInt32(&s.terminating) != 0 {
				out = append(out, vio("C14", "terminated-session-attached", "topic %s still lists terminated session %s (from %s)", t.name, s.sid, s.remoteAddr))
			}
			if _, ok := globals.sessionStore.sessCache[s.sid]; !ok && s.proto != LPOLL {
				out = append(out, vio("C14", "unregistered-session-attached", "topic %s lists session %s (from %s) which is not in the session registry", t.name, s.sid, s.remoteAddr))
			}
			if !s.background && !pssd.isChanSub {
				online[t.name][pssd.uid.UserId()]++
			}
		}
		for uid, pud := range t.perUser {
			if pud.online < 0 {
				out = append(out, vio("C10", "negative-online", "topic %s user %s online=%d", t.name, uid.UserId(), pud.online))
			}
			if pud.isChan {
				continue
			}
			if pud.online != online[t.name][uid.UserId()] {
				out = append(out, vio("C14", "online-count", "topic %s user %s: online counter %d, attached foreground sessions %d", t.name, uid.UserId(), pud.online, online[t.name][uid.UserId()]))
			}
		}
		return true
	})
	fromSessions := map[att]bool{}
	abandoned := map[string]bool{}
	for sid, s := range globals.sessionStore.sessCache {
		if s.proto == LPOLL {
			// A long-polling session handles detach requests only while a poll is outstanding; one abandoned by
			// its client keeps stale entries until the registry expires it. Only polled sessions are compared.
			polled := false
			for _, c := range w.Clients {
				if c.Transport == TransportLP && c.lpSid == sid && c.Connected && c.stall == nil {
					polled = true
				}
			}
			if !polled {
				simrt.Probe("c14.abandoned_lp_session")
				abandoned[sid] = true
				continue
			}
		}
		for name := range s.subs {
			fromSessions[att{sid, name}] = true
		}
	}
	for a := range fromTopics {
		if !fromSessions[a] && !abandoned[a.sid] {
			if _, live := globals.sessionStore.sessCache[a.sid]; live {
				out = append(out, vio("C14", "topic-lists-session-not-vice-versa", "topic %s lists session %s but the session does not list the topic", a.topic, a.sid))
			}
		}
	}
	for a := range fromSessions {
		if !fromTopics[a] {
			out = append(out, vio("C14", "session-lists-topic-not-vice-versa", "session %s lists topic %s but the topic does not list the session", a.sid, a.topic))
		}
	}
	// (b) every gRPC connection the client closed is gone from the registry
	live := map[int]bool{}
	for _, s := range globals.sessionStore.sessCache {
		if st, ok := s.grpcnode.(*grpcStream); ok && st != nil {
			if st.c.Conn != st.conn || !st.c.Connected {
				out = append(out, vio("C14", "closed-connection-still-registered", "session %s of client %d connection %d is still registered after the client closed it", s.sid, st.c.Idx, st.conn))
			}
			live[st.c.Idx] = true
		}
	}
	// (e) no task hangs outside its home wait, none waits for a lock / wait group forever
	var topicsLoaded int
	globals.hub.topics.Range(func(k, v any) bool { topicsLoaded++; return true })
	topicTasks := 0
	for _, ti := range w.rt.Tasks() {
		if ti.State == "waiting" {
			out = append(out, vio("C14", "hang "+ti.Site+"@"+ti.WaitAt, "task %s is waiting for a lock or wait group at quiescence (since t=%v)", ti.Site, ti.Since))
			continue
		}
		home := homeWaits[ti.WaitAt] || strings.HasPrefix(ti.WaitAt, "client.")
		if strings.HasPrefix(ti.Site, "init_topic.go") {
			topicTasks++
		}
		if !home {
			out = append(out, vio("C14", "hang "+ti.Site+"@"+ti.WaitAt, "task %s is blocked at %s at quiescence (since t=%v, now %v)", ti.Site, ti.WaitAt, ti.Since, w.rt.Now()))
		}
	}
	if topicTasks != topicsLoaded {
		var names []string
		globals.hub.topics.Range(func(k, v any) bool { names = append(names, k.(string)); return true })
		sort.Strings(names)
		out = append(out, vio("C14", "topic-task-leak", "%d topic actor tasks for %d registered topics %v", topicTasks, topicsLoaded, names))
	}
	return out
}

func TestSim_C14(t *testing.T) {
	rapid.Check(t, func(rt *rapid.T) {
		sched := genSchedule(rt)
		prog := genC14(rt)
		viol, st := runC14(t, sched, prog)
		reportRun(rt, "C14", viol, st, map[string]any{"schedule": sched, "program": prog})
	})
}
