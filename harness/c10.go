//go:build verif

package main

// C10 — presence converges to the truth and never leaks.
//
// One user of the population is a pure observer: its sessions stay attached to 'me' only and keep, per source,
// what they were last told (the answer to {get sub} when they attach, then every {pres} on 'me'). The other
// users' sessions attach to and detach from 'me', the p2p topics and the groups, as foreground or background
// sessions, disconnect, mute and un-mute, get evicted and re-invited, publish and send notes, with waits
// around the idle-unload (4 s) and deferred-notification (5 s) timers. After everything has settled the
// observer's last word about every p2p partner and every group is compared with the truth (white-box), every
// presence frame delivered to anybody during the run is checked against the recipient's subscription and
// presence permission before or after the action that caused it, and the per-user online counters of every
// loaded topic are compared with the attached foreground sessions.

import (
	"fmt"
	"sort"
	"strings"
	"testing"
	"time"

	"github.com/tinode/chat/server/db/simdb"
	"github.com/tinode/chat/server/simrt"
	"github.com/tinode/chat/server/store/types"
	"pgregory.net/rapid"
)

type c10Act struct {
	Client int    `json:"c"`
	Kind   string `json:"k"` // on, bkgon, leaveme, subme, disc, subt, leavet, mute, unmute, wait, pub, note, evict, invite
	Topic  int    `json:"t"`
	Wait   int    `json:"w,omitempty"`
	User   int    `json:"u,omitempty"`
	Mode   string `json:"m,omitempty"` // ban: the grant the owner leaves the member with (no J)
}

type c10Prog struct {
	Sc   Scenario `json:"scenario"`
	Acts []c10Act `json:"acts"`
}

func genC10(rt *rapid.T) c10Prog {
	p := c10Prog{Sc: genScenario(rt, 4, 2, false)}
	if p.Sc.NUsers < 3 {
		p.Sc.NUsers = 3
		for len(p.Sc.Sessions) < 3 {
			p.Sc.Sessions = append(p.Sc.Sessions, 1)
			p.Sc.LP = append(p.Sc.LP, false)
		}
	}
	obs := p.Sc.NUsers - 1
	// the observer is a p2p partner of the first user and a full member of the first group
	has := false
	for _, pp := range p.Sc.P2P {
		if (pp[0] == obs && pp[1] == 0) || (pp[1] == obs && pp[0] == 0) {
			has = true
		}
	}
	if !has {
		p.Sc.P2P = append(p.Sc.P2P, [2]int{0, obs})
	}
	if len(p.Sc.Groups) > 0 && p.Sc.Groups[0].Owner != obs {
		member := false
		for i, m := range p.Sc.Groups[0].Members {
			if m.User == obs {
				member = true
				p.Sc.Groups[0].Members[i].AsChan = false
			}
		}
		if !member {
			p.Sc.Groups[0].Members = append(p.Sc.Groups[0].Members, MemberSpec{User: obs})
		}
	}
	n := rapid.IntRange(4, 20).Draw(rt, "nacts")
	for i := 0; i < n; i++ {
		p.Acts = append(p.Acts, c10Act{
			Client: rapid.IntRange(0, 7).Draw(rt, "client"),
			Kind: rapid.SampledFrom([]string{"on", "bkgon", "leaveme", "subme", "disc", "disc", "subt", "subt", "leavet", "leavet", "mute", "unmute", "wait", "wait",
				"pub", "note", "evict", "invite", "unsubt", "obsdrop", "obsjoin", "obsjoin"}).Draw(rt, "kind"),
			Topic: rapid.IntRange(0, 3).Draw(rt, "topic"),
			Wait:  rapid.SampledFrom([]int{1, 3, 5, 6, 9}).Draw(rt, "wait"),
			User:  rapid.IntRange(0, 3).Draw(rt, "user"),
		})
	}
	// scripted tail, one run in three: a user with two sessions drops P on a topic through the attached session,
	// the other session stays on 'me' only, then the attached one acknowledges and deletes messages
	if rapid.IntRange(0, 2).Draw(rt, "tail") == 0 {
		first := 0
		for u := 0; u < obs; u++ {
			if p.Sc.Sessions[u] >= 2 {
				t := rapid.IntRange(0, 3).Draw(rt, "tailtopic") % len(p.Sc.Groups) // a group: the same index names the same topic for everybody
				other := 0 // a session of another user publishes (the publisher's own message counts as read by it)
				if u == 0 {
					other = p.Sc.Sessions[0]
				}
				p.Acts = append(p.Acts, c10Act{Client: other, Kind: "subt", Topic: t}, c10Act{Client: first, Kind: "subt", Topic: t}, c10Act{Client: first + 1, Kind: "leavet", Topic: t},
					c10Act{Client: other, Kind: "pub", Topic: t}, c10Act{Client: first, Kind: "mute", Topic: t},
					c10Act{Client: first, Kind: "wait", Wait: 5}, // past the window in which the state before the mute justifies a frame
					c10Act{Client: first, Kind: "note", Topic: t}, c10Act{Client: first, Kind: "delmsg", Topic: t}, c10Act{Client: first, Kind: "wait", Wait: 1})
				break
			}
			first += p.Sc.Sessions[u]
		}
	}
	// second scripted tail, one run in three (drawn last): an attached member loses J by the owner's hand (its
	// sessions are evicted, the subscription stays), is granted JRWPS again, attaches and leaves. The per-user online
	// counter has to follow every one of these steps (seeded change C10-m3).
	if rapid.IntRange(0, 2).Draw(rt, "tail2") == 0 && len(p.Sc.Groups) > 0 {
		g := rapid.IntRange(0, 3).Draw(rt, "tail2topic") % len(p.Sc.Groups)
		tu := rapid.IntRange(0, 3).Draw(rt, "tail2user") % p.Sc.NUsers
		mode := rapid.SampledFrom([]string{"RWPS", "RWPS", "RP", "N"}).Draw(rt, "tail2mode")
		if tu != p.Sc.Groups[g].Owner && tu != obs {
			first := 0
			for u := 0; u < tu; u++ {
				first += p.Sc.Sessions[u]
			}
			p.Acts = append(p.Acts, c10Act{Client: first, Kind: "on"}, c10Act{Client: first, Kind: "subt", Topic: g},
				c10Act{Kind: "ban", Topic: g, User: tu, Mode: mode}, c10Act{Kind: "wait", Wait: 1},
				c10Act{Kind: "invite", Topic: g, User: tu}, c10Act{Client: first, Kind: "subt", Topic: g},
				c10Act{Client: first, Kind: "leavet", Topic: g}, c10Act{Kind: "wait", Wait: 1})
		}
	}
	return p
}

func runC10(t *testing.T, sched simrt.Schedule, prog c10Prog) ([]Violation, RunStats) {
	judged, flips := 0, 0
	viol, st := runOne(t, sched, func(w *simWorld) []Violation {
		var out []Violation
		sc := prog.Sc
		w.configure(sc)
		ntop := len(sc.Groups) + len(sc.P2P)
		obsUser := sc.NUsers - 1
		isObs := func(c *SimClient) bool { return c.User.Idx == obsUser }
		var actors []*SimClient
		for _, c := range w.Clients {
			if !isObs(c) {
				actors = append(actors, c)
			}
		}
		if len(actors) == 0 || ntop == 0 {
			return nil
		}
		// the observer's sessions leave everything but 'me', then ask for the state of their contacts
		lv := map[int][]*Op{}
		for _, c := range w.clientsOf(obsUser) {
			for ti := 0; ti < ntop; ti++ {
				lv[c.Idx] = append(lv[c.Idx], opLeave(c01TopicName(sc, c, ti), false))
			}
		}
		w.runPhase(lv)
		told := map[int]map[string]string{} // observer client -> global source name -> "on" / "off" / "gone"
		seedFrom := map[int]int{}
		ask := map[int][]*Op{}
		for _, c := range w.clientsOf(obsUser) {
			told[c.Idx] = map[string]string{}
			seedFrom[c.Idx] = len(c.Frames)
			ask[c.Idx] = []*Op{opGet("me", "sub")}
		}
		w.runPhase(ask)
		frameSeen := map[int]int{}
		absorb := func() {
			for _, c := range w.clientsOf(obsUser) {
				for _, f := range c.Frames[frameSeen[c.Idx]:] {
					m := f.Msg
					if m.Meta != nil && m.Meta.Topic == "me" {
						for _, sub := range m.Meta.Sub {
							if sub.Topic == "" {
								continue
							}
							g := w.globalName(c, sub.Topic)
							if sub.Online {
								told[c.Idx][g] = "on"
							} else {
								told[c.Idx][g] = "off"
							}
						}
					}
					if m.Pres != nil && m.Pres.Topic == "me" && m.Pres.Src != "" {
						g := w.globalName(c, m.Pres.Src)
						switch {
						case strings.HasPrefix(m.Pres.What, "on"):
							if told[c.Idx][g] != "on" {
								flips++
							}
							told[c.Idx][g] = "on"
						case strings.HasPrefix(m.Pres.What, "off"):
							if told[c.Idx][g] != "off" {
								flips++
							}
							told[c.Idx][g] = "off"
						case m.Pres.What == "gone":
							told[c.Idx][g] = "gone"
						}
					}
				}
				frameSeen[c.Idx] = len(c.Frames)
			}
		}
		absorb()

		// ---- leak predicate over every presence frame, judged per action against the store before and after it
		leakSeen := map[int]int{}
		for _, c := range w.Clients {
			leakSeen[c.Idx] = len(c.Frames)
		}
		subOf := func(d *simdb.Disk, topic string, u types.Uid) (exists, pres bool) {
			if sr := d.Subs[simdbSubKey(topic, u)]; sr != nil {
				if sr.DeletedAt == nil {
					return true, sr.ModeWant&sr.ModeGiven&types.ModePres != 0
				}
				return true, false
			}
			return false, false
		}
		// a long-polling client receives its frames at its next poll, possibly during a later action: a frame is
		// justified by the recipient's state before any of the last few actions or after the current one
		type diskAt struct {
			at time.Duration
			d  *simdb.Disk
			sn *Snapshot
		}
		var hist []diskAt
		var recent []*simdb.Disk
		var preAt time.Duration
		var preSn *Snapshot
		takePre := func() *simdb.Disk {
			preAt, preSn = w.rt.Now(), w.snapshot()
			return w.Disk.Clone()
		}
		// the live topic's own view counts too: a topic that still believes the user has P (recorded C08
		// finding: a {set} from a detached session bypasses the loaded topic) notifies consistently with it
		cacheP := func(sn *Snapshot, topic string, u types.Uid) bool {
			if sn == nil {
				return false
			}
			if ts := sn.Topics[topic]; ts != nil {
				if pud, ok := ts.PerUser[u]; ok && !pud.Deleted {
					return pud.Want&pud.Given&types.ModePres != 0
				}
			}
			return false
		}
		detachedSet := map[string]bool{} // "topic/user": see below, where it is filled
		// p2p topics one party has unsubscribed from: when the other party attaches again the deleted subscription is
		// restored by initTopicP2P, but neither 'me' topic is told to track the other again (recorded finding)
		partnerUnsub := map[string]bool{}
		leakCheck := func(pre *simdb.Disk, where string) {
			hist = append(hist, diskAt{preAt, pre, preSn})
			post := w.Disk
			for _, c := range w.Clients {
				for _, f := range c.Frames[leakSeen[c.Idx]:] {
					p := f.Msg.Pres
					if p == nil {
						continue
					}
					src := p.Topic
					if src == "me" {
						src = p.Src
					}
					if src == "" || src == "me" {
						continue
					}
					g := w.globalName(c, src)
					if types.IsChannel(src) {
						g = types.ChnToGrp(src)
					}
					switch types.GetTopicCat(g) {
					case types.TopicCatGrp, types.TopicCatP2P:
					default:
						continue
					}
					// states in force during the 3 simulated seconds before the frame was delivered
					recent = recent[:0]
					e1, p1, chn1 := false, false, false
					for i, h := range hist {
						if h.at >= f.At-3*time.Second || i == len(hist)-1 || hist[i+1].at > f.At-3*time.Second {
							recent = append(recent, h.d)
							p1 = p1 || cacheP(h.sn, g, c.User.Uid)
						}
					}
					for _, d := range recent {
						e, pp := subOf(d, g, c.User.Uid)
						ch, _ := subOf(d, types.GrpToChn(g), c.User.Uid)
						e1, p1, chn1 = e1 || e, p1 || pp, chn1 || ch
					}
					e2, p2 := subOf(post, g, c.User.Uid)
					chn2, _ := subOf(post, types.GrpToChn(g), c.User.Uid)
					if !e1 && !e2 && !chn1 && !chn2 {
						out = append(out, vio("C10", "presence-to-stranger "+p.What, "%s: client %d (user %d), who has no subscription to %s, got %s", where, c.Idx, c.User.Idx, g, frameSummary(f.Msg)))
						continue
					}
					if p.Topic == "me" && (p.What == "read" || p.What == "recv" || p.What == "del" || p.What == "msg") {
						simrt.Probe("c10.me_frame_" + p.What)
						if !p1 && !p2 {
							simrt.Probe("c10.me_frame_without_P_" + p.What)
						}
					}
					switch p.What {
					case "on", "off", "ua", "upd", "msg", "read", "recv", "del":
						if !p1 && !p2 && !chn1 && !chn2 && detachedSet[g+"/"+c.User.Uid.UserId()] {
							out = append(out, vio("C10", "presence-without-P after-detached-set", "%s: client %d (user %d) dropped P on %s through a session that was not attached to it and got %s", where, c.Idx, c.User.Idx, g, frameSummary(f.Msg)))
						} else if !p1 && !p2 && !chn1 && !chn2 {
							out = append(out, vio("C10", "presence-without-P "+p.What, "%s: client %d (user %d), whose effective mode on %s lacks P (or who was removed), got %s at t=%v (states considered: %d, history %v)", where, c.Idx, c.User.Idx, g, frameSummary(f.Msg), f.At, len(recent), func() []time.Duration { var x []time.Duration; for _, h := range hist { x = append(x, h.at) }; return x }()))
						}
					}
				}
				leakSeen[c.Idx] = len(c.Frames)
			}
		}

		// a {set sub} from a session that is not attached to the topic bypasses the loaded topic (recorded C08
		// finding detached-set-bypasses-live-topic): nobody is told that P was dropped, the contacts' tables keep
		// the user enabled. Frames that are a consequence of that are keyed separately.
		tagN := 0
		for ai, a := range prog.Acts {
			c := actors[a.Client%len(actors)]
			name := c01TopicName(sc, c, a.Topic%ntop)
			if a.Kind == "mute" || a.Kind == "unmute" {
				// the concrete name behind the placeholder
				probe := opLeave(name, false)
				probe.KeepID = true
				if m := w.resolve(c, probe); m != nil && c.Connected && !c.Attached[m.Leave.Topic] {
					detachedSet[w.globalName(c, m.Leave.Topic)+"/"+c.User.Uid.UserId()] = true
				}
			}
			where := fmt.Sprintf("act %d (%s by client %d)", ai, a.Kind, c.Idx)
			pre := takePre()
			var ops []*Op
			switch a.Kind {
			case "on", "bkgon":
				if c.Connected {
					continue
				}
				hi := opHi()
				if a.Kind == "bkgon" {
					hi = opHiBkg()
				}
				ops = []*Op{hi, opLogin(c.User.Idx, "basic"), opSub("me", "", "sub")}
			case "leaveme":
				ops = []*Op{opLeave("me", false)}
			case "subme":
				ops = []*Op{opSub("me", "", "sub")}
			case "disc":
				if c.Transport == TransportLP {
					continue // the server cannot see a long-polling client go away
				}
				ops = []*Op{{Kind: OpDisconnect, CreatesGroup: -1}}
			case "subt":
				ops = []*Op{opSub(name, "", "")}
			case "leavet":
				ops = []*Op{opLeave(name, false)}
			case "mute":
				ops = []*Op{opSetSub(name, "", "JRW")}
			case "unmute":
				ops = []*Op{opSetSub(name, "", "JRWPS")}
			case "wait":
				w.rt.Advance(time.Duration(a.Wait) * time.Second)
				absorb()
				leakCheck(pre, where)
				continue
			case "pub":
				tagN++
				ops = []*Op{opPub(name, fmt.Sprintf("p%d", tagN), false)}
			case "note":
				ops = []*Op{opNote(name, "read", 1)}
			case "delmsg":
				ops = []*Op{opDelMsg(name, false, MsgDelRange{LowId: 1, HiId: 2})}
			case "unsubt":
				ops = []*Op{opLeave(name, true)}
				probe := opLeave(name, false)
				probe.KeepID = true
				if m := w.resolve(c, probe); m != nil && c.Connected {
					partnerUnsub[w.globalName(c, m.Leave.Topic)] = true
				}
			case "obsdrop", "obsjoin":
				// the observer deletes its subscription to the p2p topic with the first user, or subscribes (again)
				// and detaches at once: a new subscription must bring the partner's status with it
				var oc *SimClient
				for _, x := range w.clientsOf(obsUser) {
					if x.Connected && oc == nil {
						oc = x
					}
				}
				if oc == nil {
					continue
				}
				c = oc
				pname := fmt.Sprintf("@usr%d", 0)
				// the subscription exists between the two requests: judge the frames of each against its own states
				step1 := func() bool {
					w.setOps(map[int][]*Op{c.Idx: {opSub(pname, "", "")}})
					if r := w.rt.Run(600*time.Millisecond, nil); r == simrt.RunLivelock {
						return false
					}
					absorb()
					leakCheck(pre, where+" (sub)")
					pre = takePre()
					return true
				}
				if a.Kind == "obsdrop" {
					if !step1() {
						return append(out, vio("C14", "livelock", "step budget exhausted at %s", where))
					}
					ops = []*Op{opLeave(pname, true)}
					// the observer gives the contact up: what it knew is void (the session that unsubscribes is not
					// sent a "gone"), and the partner attaching later restores the subscription silently
					gone := w.Users[obsUser].Uid.P2PName(w.Users[0].Uid)
					for _, x := range w.clientsOf(obsUser) {
						told[x.Idx][gone] = "gone"
					}
					partnerUnsub[gone] = true
				} else {
					topic := w.Users[obsUser].Uid.P2PName(w.Users[0].Uid)
					if sr := w.Disk.Subs[simdbSubKey(topic, w.Users[obsUser].Uid)]; sr == nil || sr.DeletedAt != nil {
						for _, x := range w.clientsOf(obsUser) {
							told[x.Idx][topic] = "off" // nothing is known about a new contact
						}
						simrt.Probe("c10.observer_new_subscription")
					}
					if !step1() {
						return append(out, vio("C14", "livelock", "step budget exhausted at %s", where))
					}
					ops = []*Op{opLeave(pname, false)}
				}
			case "evict", "invite", "ban":
				if len(sc.Groups) == 0 {
					continue
				}
				g := a.Topic % len(sc.Groups)
				oc := w.clientsOf(sc.Groups[g].Owner)[0]
				tu := a.User % sc.NUsers
				if tu == sc.Groups[g].Owner || isObs(oc) {
					continue
				}
				c = oc
				if a.Kind == "evict" {
					ops = []*Op{opSub(fmt.Sprintf("@grp%d", g), "", ""), opDelSub(fmt.Sprintf("@grp%d", g), fmt.Sprintf("@usr%d", tu))}
				} else if a.Kind == "ban" {
					simrt.Probe("c10.ban")
					ops = []*Op{opSub(fmt.Sprintf("@grp%d", g), "", ""), opSetSub(fmt.Sprintf("@grp%d", g), fmt.Sprintf("@usr%d", tu), a.Mode)}
				} else {
					ops = []*Op{opSub(fmt.Sprintf("@grp%d", g), "", ""), opSetSub(fmt.Sprintf("@grp%d", g), fmt.Sprintf("@usr%d", tu), "JRWPS")}
				}
			}
			if !c.Connected && a.Kind != "on" && a.Kind != "bkgon" {
				continue
			}
			w.setOps(map[int][]*Op{c.Idx: ops})
			if r := w.rt.Run(600*time.Millisecond, nil); r == simrt.RunLivelock {
				return append(out, vio("C14", "livelock", "step budget exhausted at %s", where))
			}
			absorb()
			leakCheck(pre, where)
			if len(w.rt.Panics) > 0 {
				return out
			}
		}
		// ---- settle: idle topics unload, deferred notifications fire
		pre := takePre()
		w.settle()
		w.settle()
		absorb()
		leakCheck(pre, "while settling")
		sn := w.snapshot()
		// truth
		fgOnMe := func(u *simUser) bool {
			ts := sn.Topics[u.Uid.UserId()]
			if ts == nil {
				return false
			}
			for sid := range ts.Sessions {
				if ss := sn.Sessions[sid]; ss != nil && !ss.Background {
					return true
				}
			}
			return false
		}
		hasP := func(topic string, u types.Uid) bool {
			_, p := subOf(w.Disk, topic, u)
			return p
		}
		ou := w.Users[obsUser]
		for _, oc := range w.clientsOf(obsUser) {
			if !oc.Connected || !oc.Attached["me"] {
				continue
			}
			// p2p partners
			for _, pp := range sc.P2P {
				var other *simUser
				switch obsUser {
				case pp[0]:
					other = w.Users[pp[1]]
				case pp[1]:
					other = w.Users[pp[0]]
				default:
					continue
				}
				topic := ou.Uid.P2PName(other.Uid)
				if !hasP(topic, ou.Uid) || !hasP(topic, other.Uid) {
					continue
				}
				judged++
				truth := fgOnMe(other)
				last := told[oc.Idx][topic] // sources named usrX are keyed by the p2p topic they stand for
				simrt.Probe("c10.p2p_judged")
				if last == "gone" {
					continue
				}
				if (last == "on") != truth && (detachedSet[topic+"/"+ou.Uid.UserId()] || detachedSet[topic+"/"+other.Uid.UserId()]) {
					out = append(out, vio("C10", "presence-diverged after-detached-set", "observer client %d was last told %q about %s (foreground session on 'me' = %v); one of the two changed its mode on %s through a session not attached to it, the loaded topic still works with the old mode", oc.Idx, last, other.Uid.UserId(), truth, topic))
				} else if (last == "on") != truth && partnerUnsub[topic] {
					out = append(out, vio("C10", "p2p-presence-diverged after-partner-subscription-restored", "observer client %d was last told %q about %s, whose subscription to %s was deleted by its owner and restored by the observer's {sub}; that user has foreground session on 'me' = %v", oc.Idx, last, other.Uid.UserId(), topic, truth))
				} else if (last == "on") != truth {
					out = append(out, vio("C10", fmt.Sprintf("p2p-presence-diverged told=%s", last), "observer client %d was last told %q about %s, but that user has foreground session on 'me' = %v", oc.Idx, last, other.Uid.UserId(), truth))
				}
			}
			// groups the observer is a full member of
			for g, gs := range sc.Groups {
				if g >= len(w.Groups) || w.Groups[g] == "" {
					continue
				}
				member := gs.Owner == obsUser
				for _, m := range gs.Members {
					if m.User == obsUser && !m.AsChan {
						member = true
					}
				}
				if !member || !hasP(w.Groups[g], ou.Uid) {
					continue
				}
				judged++
				simrt.Probe("c10.group_judged")
				ts := sn.Topics[w.Groups[g]]
				truth := ts != nil && len(ts.Sessions) > 0
				last := told[oc.Idx][w.Groups[g]]
				if last == "gone" {
					continue
				}
				if truth {
					// sessions of channel readers produce no presence by design (sendSubNotifications returns early
					// for them): a group kept loaded by channel readers only is neither clearly on nor off
					full := 0
					for sid := range ts.Sessions {
						if !ts.ChanSess[sid] {
							full++
						}
					}
					if full == 0 {
						simrt.Probe("c10.group_held_by_channel_readers_only")
						continue
					}
				}
				if (last == "on") != truth && detachedSet[w.Groups[g]+"/"+ou.Uid.UserId()] {
					out = append(out, vio("C10", "presence-diverged after-detached-set", "observer client %d was last told %q about %s (attached sessions = %v); the observer changed its mode on it through a session not attached to it", oc.Idx, last, w.Groups[g], truth))
				} else if (last == "on") != truth {
					out = append(out, vio("C10", fmt.Sprintf("group-presence-diverged told=%s", last), "observer client %d was last told %q about %s, but the group has attached sessions = %v (loaded=%v, sessions %v)", oc.Idx, last, w.Groups[g], truth, ts != nil, func() []string { var x []string; if ts != nil { for sid := range ts.Sessions { x = append(x, sid) } }; sort.Strings(x); return x }()))
				}
			}
		}
		// ---- online counters
		var names []string
		for name := range sn.Topics {
			names = append(names, name)
		}
		sort.Strings(names)
		for _, name := range names {
			ts := sn.Topics[name]
			if ts.Cat != types.TopicCatGrp && ts.Cat != types.TopicCatP2P {
				continue
			}
			count := map[types.Uid]int{}
			for sid, uid := range ts.Sessions {
				if ss := sn.Sessions[sid]; ss != nil && !ss.Background && !ts.ChanSess[sid] {
					count[uid]++
				}
			}
			for uid, pud := range ts.PerUser {
				if pud.IsChan {
					continue
				}
				if pud.Online < 0 {
					out = append(out, vio("C10", "online-count-negative", "topic %s user %s: online count %d", name, uid.UserId(), pud.Online))
				}
				if pud.Online != count[uid] {
					abandoned := false
					for sid, u2 := range ts.Sessions {
						if u2 == uid {
							if ss := sn.Sessions[sid]; ss == nil || ss.Client < 0 {
								abandoned = true
							}
						}
					}
					if !abandoned {
						out = append(out, vio("C10", "online-count-wrong", "topic %s user %s: online count %d, attached foreground sessions %d", name, uid.UserId(), pud.Online, count[uid]))
					}
				}
			}
		}
		return out
	})
	st.Trigger = judged >= 1 && flips >= 2
	st.ProgHash = hashOf(prog)
	return viol, st
}

func TestSim_C10(t *testing.T) {
	rapid.Check(t, func(rt *rapid.T) {
		sched := genSchedule(rt)
		prog := genC10(rt)
		viol, st := runC10(t, sched, prog)
		reportRun(rt, "C10", viol, st, map[string]any{"schedule": sched, "program": prog})
	})
}
