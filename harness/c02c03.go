//go:build verif

package main

// C02 — each accepted message reaches exactly the attached readers, once, unaltered.
// C03 — only users with effective write permission can add a message.
// One workload ("pubfan") serves both: a population rich in eligibility classes, isolated publish
// probes judged against the white-box snapshot taken at fire time, and unisolated churn in between.

import (
	"fmt"
	"reflect"
	"sort"
	"strings"
	"testing"
	"time"

	"github.com/tinode/chat/server/push"
	"github.com/tinode/chat/server/simrt"
	"github.com/tinode/chat/server/store/types"
	"pgregory.net/rapid"
)

type pfShape struct {
	Topic  int    `json:"t"`
	Target int    `json:"u"`
	Kind   string `json:"k"` // given, want, unsub, leave, ban
	Mode   string `json:"m"`
}

type pfAct struct {
	Client int    `json:"c"`
	Kind   string `json:"k"`
	Topic  int    `json:"t"`
	Mode   string `json:"m,omitempty"`
	Iso    bool   `json:"iso,omitempty"`
	NoWait bool   `json:"nw,omitempty"`
	Delay  int    `json:"d,omitempty"`
	Head   int    `json:"h,omitempty"`
}

type pfProg struct {
	Sc      Scenario  `json:"scenario"`
	Shape   []pfShape `json:"shape"`
	Suspend int       `json:"suspend"` // user suspended by root before the act phases (-1 none)
	Phases  [][]pfAct `json:"phases"`
	// Pattern 1: every full subscriber of group PatTopic mutes it (no P), the topic idles out and is loaded
	// again, one of them un-mutes, the owner publishes: push addressing must follow the change.
	Pattern  int `json:"pattern,omitempty"`
	PatTopic int `json:"pat_topic,omitempty"`
	PatUser  int `json:"pat_user,omitempty"`
}

var pfModes = []string{"JRWPS", "JR", "JW", "JRP", "JWP", "RWP", "N", "JRWP", "JP", "J"}

func genPubfan(rt *rapid.T) pfProg {
	p := pfProg{Sc: genScenario(rt, 4, 2, true), Suspend: -1}
	nshape := rapid.IntRange(0, 6).Draw(rt, "nshape")
	for i := 0; i < nshape; i++ {
		p.Shape = append(p.Shape, pfShape{
			Topic:  rapid.IntRange(0, 2).Draw(rt, "st"),
			Target: rapid.IntRange(0, p.Sc.NUsers-1).Draw(rt, "su"),
			Kind:   rapid.SampledFrom([]string{"given", "given", "want", "want", "unsub", "leave", "ban", "reinvite"}).Draw(rt, "sk"),
			Mode:   rapid.SampledFrom(pfModes).Draw(rt, "sm"),
		})
	}
	if p.Sc.Root >= 0 && rapid.IntRange(0, 4).Draw(rt, "suspend") == 0 {
		p.Suspend = rapid.IntRange(0, p.Sc.NUsers-1).Draw(rt, "suspuser")
		if p.Suspend == p.Sc.Root {
			p.Suspend = -1
		}
	}
	nph := rapid.IntRange(1, 3).Draw(rt, "nphases")
	for i := 0; i < nph; i++ {
		var ph []pfAct
		n := rapid.IntRange(3, 12).Draw(rt, "nacts")
		for j := 0; j < n; j++ {
			a := pfAct{
				Client: rapid.IntRange(0, 7).Draw(rt, "client"),
				Kind: rapid.SampledFrom([]string{"pub", "pub", "pub", "pub", "pubne", "pubhead", "obo", "sub", "leave", "unsub",
					"setwant", "disc", "pubme", "pubfnd", "pubsys", "pubraw"}).Draw(rt, "kind"),
				Topic: rapid.IntRange(0, 3).Draw(rt, "topic"),
				Mode:  rapid.SampledFrom(pfModes).Draw(rt, "mode"),
				Head:  rapid.IntRange(0, 4).Draw(rt, "head"),
			}
			if strings.HasPrefix(a.Kind, "pub") || a.Kind == "obo" {
				a.Iso = rapid.IntRange(0, 3).Draw(rt, "iso") != 0
			}
			if !a.Iso {
				a.NoWait = rapid.Bool().Draw(rt, "nowait")
			}
			if rapid.IntRange(0, 7).Draw(rt, "delayed") == 0 {
				a.Delay = rapid.IntRange(1, 6).Draw(rt, "delay")
			}
			ph = append(ph, a)
		}
		p.Phases = append(p.Phases, ph)
	}
	if rapid.IntRange(0, 3).Draw(rt, "pattern") == 0 {
		p.Pattern = 1
		p.PatTopic = rapid.IntRange(0, 1).Draw(rt, "pat_topic")
		p.PatUser = rapid.IntRange(0, 3).Draw(rt, "pat_user")
	}
	return p
}

var pfHeads = []map[string]any{
	nil,
	{"mime": "text/x-drafty"},
	{"sender": "usrFORGED", "x": 1.5},
	{"replace": ":1", "mime": "text/plain"},
	{"sender": "usrFORGED"},
}

type pubProbe struct {
	Accept   bool
	Reason   string
	Topic    string // global name
	Tag      string
	Head     map[string]any
	NoEcho   bool
	AsUid    types.Uid
	Must     map[int]string // client idx -> topic name that client must see
	MustNot  map[int]bool
	ChanSub  map[int]bool
	PushTo   []string
	Channel  string
	FrameLen map[int]int // frames held by each client at fire time
	PushLen  int
	DiskDump string
}

// pubExpectation computes, from the snapshot taken at fire time, whether the publish must be accepted
// and who must receive it.
func pubExpectation(w *simWorld, p *isoProbe) *pubProbe {
	msg := p.Sent.Msg
	c := p.C
	pp := &pubProbe{Must: map[int]string{}, MustNot: map[int]bool{}, ChanSub: map[int]bool{}, FrameLen: map[int]int{}}
	pp.Tag, _ = msg.Pub.Content.(string)
	pp.Head = msg.Pub.Head
	pp.NoEcho = msg.Pub.NoEcho
	for _, cl := range w.Clients {
		pp.FrameLen[cl.Idx] = len(cl.Frames)
	}
	pp.PushLen = len(simPush.Receipts)
	pp.DiskDump = w.Disk.Dump()
	var sess *SessSnap
	for _, s := range p.Pre.Sessions {
		if s.Client == c.Idx {
			sess = s
		}
	}
	reject := func(r string) *pubProbe { pp.Accept, pp.Reason = false, r; return pp }
	if sess == nil || !c.Connected {
		return reject("no-session")
	}
	if !c.HiDone {
		return reject("no-hi")
	}
	if sess.Uid.IsZero() {
		return reject("not-logged-in")
	}
	asUid := sess.Uid
	asClient := c
	if msg.Extra != nil && msg.Extra.AsUser != "" {
		if sess.AuthLvl != 30 { // auth.LevelRoot
			return reject("obo-by-non-root")
		}
		asUid = types.ParseUserId(msg.Extra.AsUser)
		if asUid.IsZero() {
			return reject("obo-bad-user")
		}
		if ui := w.userIdx(msg.Extra.AsUser); ui >= 0 {
			asClient = w.clientsOf(ui)[0]
		}
	}
	pp.AsUid = asUid
	name := msg.Pub.Topic
	gname := w.globalName(asClient, name)
	if strings.HasPrefix(name, "usr") && types.ParseUserId(name) == asUid {
		return reject("p2p-self")
	}
	pp.Topic = gname
	attached := false
	for _, s := range sess.Subs {
		if s == gname {
			attached = true
		}
	}
	ts := p.Pre.Topics[gname]
	if gname == "sys" {
		if ts == nil {
			return reject("sys-not-loaded")
		}
		pp.Accept, pp.Reason = true, "sys"
	} else {
		if !attached {
			return reject("not-attached")
		}
		if ts == nil {
			return reject("topic-not-loaded")
		}
		if ts.Status&(topicStatusPaused|topicStatusMarkedDeleted) != 0 {
			return reject("inactive")
		}
		if strings.HasPrefix(name, "chn") && !ts.IsChan {
			return reject("chan-name-of-non-channel")
		}
		if ts.Status&topicStatusReadOnly != 0 {
			return reject("read-only")
		}
		if msg.Pub.Head != nil && msg.Pub.Head["webrtc"] != nil {
			return reject("call") // not generated here
		}
		pud, ok := ts.PerUser[asUid]
		if !ok || pud.Deleted {
			return reject("not-subscribed")
		}
		if pud.Want&types.ModeWrite == 0 && pud.Given&types.ModeWrite == 0 {
			return reject("no-W-both")
		}
		if pud.Want&types.ModeWrite == 0 {
			return reject("no-W-want")
		}
		if pud.Given&types.ModeWrite == 0 {
			return reject("no-W-given")
		}
		pp.Accept, pp.Reason = true, "writer"
	}
	// recipients: sessions attached at fire time
	if ts != nil {
		for sid, uid := range ts.Sessions {
			ss := p.Pre.Sessions[sid]
			if ss == nil || ss.Client < 0 {
				continue
			}
			rc := w.Clients[ss.Client]
			isChan := ts.ChanSess[sid]
			pud := ts.PerUser[uid]
			reader := (pud.Want & pud.Given & types.ModeRead) != 0
			if (reader || isChan) && !(pp.NoEcho && ss.Client == c.Idx) {
				nm := gname
				switch {
				case ts.Cat == types.TopicCatP2P:
					for other := range ts.PerUser {
						if other != uid {
							nm = other.UserId()
						}
					}
				case isChan:
					nm = types.GrpToChn(gname)
				}
				pp.Must[rc.Idx] = nm
				pp.ChanSub[rc.Idx] = isChan
			}
		}
		for uid, pud := range ts.PerUser {
			m := pud.Want & pud.Given
			if m&types.ModeRead != 0 && m&types.ModePres != 0 && !pud.Deleted && !pud.IsChan {
				pp.PushTo = append(pp.PushTo, uid.UserId())
			}
		}
		sort.Strings(pp.PushTo)
		if ts.IsChan {
			pp.Channel = types.GrpToChn(gname)
		}
	}
	for _, cl := range w.Clients {
		if _, ok := pp.Must[cl.Idx]; !ok {
			pp.MustNot[cl.Idx] = true
		}
	}
	return pp
}

type pfStats struct {
	accepted, rejected int
	reasons            map[string]bool
	classes            map[string]bool
}

// judgePub is called when the world is idle again after an isolated publish.
func judgePub(w *simWorld, p *isoProbe, post *Snapshot, st *pfStats) (out []Violation) {
	pp := p.Exp.(*pubProbe)
	s := p.Sent
	window := func(cl *SimClient) []Frame { return cl.Frames[pp.FrameLen[cl.Idx]:] }
	pushes := simPush.Receipts[pp.PushLen:]
	// dispatch-level refusals (before the handler knows the id) carry no id: take the anonymous error
	// {ctrl} delivered to the requester in the window as the reply.
	code := s.Code
	var anon *MsgServerCtrl
	if code == 0 {
		for _, f := range window(p.C) {
			if f.Msg.Ctrl != nil && f.Msg.Ctrl.Id == "" && anon == nil {
				anon = f.Msg.Ctrl
				code = anon.Code
			}
		}
	}
	if !pp.Accept {
		st.rejected++
		st.reasons[pp.Reason] = true
		if pp.Reason == "no-session" {
			return nil
		}
		if code >= 200 && code < 300 {
			out = append(out, vio("C03", "accepted-ineligible "+pp.Reason, "publish %q by client %d to %s answered %d although %s", pp.Tag, p.C.Idx, s.Msg.Pub.Topic, code, pp.Reason))
			return
		}
		if code < 400 {
			out = append(out, vio("C03", "rejected-without-error "+pp.Reason, "publish %q (%s) answered with code %d", pp.Tag, pp.Reason, code))
		}
		// no effect at all
		if d := w.Disk.Dump(); d != pp.DiskDump {
			out = append(out, vio("C03", "rejected-changed-store "+pp.Reason, "rejected publish %q (%s, code %d) changed the store:\n%s", pp.Tag, pp.Reason, s.Code, diffLines(pp.DiskDump, d)))
		}
		for _, cl := range w.Clients {
			for _, f := range window(cl) {
				if cl == p.C && f.Msg.Ctrl != nil && (f.Msg.Ctrl.Id == s.Id || f.Msg.Ctrl == anon) {
					continue
				}
				out = append(out, vio("C03", "rejected-caused-traffic "+pp.Reason, "rejected publish %q (%s) caused a frame at client %d: %s", pp.Tag, pp.Reason, cl.Idx, frameSummary(f.Msg)))
			}
		}
		if len(pushes) > 0 {
			out = append(out, vio("C03", "rejected-caused-push "+pp.Reason, "rejected publish %q (%s) caused %d push receipt(s)", pp.Tag, pp.Reason, len(pushes)))
		}
		if pre, po := p.Pre.Topics[pp.Topic], post.Topics[pp.Topic]; pre != nil && po != nil && pre.LastID != po.LastID {
			out = append(out, vio("C03", "rejected-consumed-id "+pp.Reason, "rejected publish %q moved lastID of %s from %d to %d", pp.Tag, pp.Topic, pre.LastID, po.LastID))
		}
		return
	}
	st.accepted++
	if s.Code != 202 {
		out = append(out, vio("C03", "eligible-rejected", "publish %q by an eligible author (%s) to %s answered %d", pp.Tag, pp.Reason, pp.Topic, s.Code))
		return
	}
	seq := 0
	if pm, ok := s.Ctrl.Params.(map[string]any); ok {
		seq = toInt(pm["seq"])
	}
	// C02: exactly the attached readers, once, unaltered
	wantHead := map[string]any{}
	for k, v := range pp.Head {
		if k != "sender" {
			wantHead[k] = v
		}
	}
	oboSender := ""
	if s.Msg.Extra != nil && s.Msg.Extra.AsUser != "" && pp.AsUid != p.C.User.Uid {
		oboSender = p.C.User.Uid.UserId()
	}
	classes := map[string]bool{}
	for _, cl := range w.Clients {
		var got []*MsgServerData
		for _, f := range window(cl) {
			if f.Msg.Data != nil {
				got = append(got, f.Msg.Data)
			}
		}
		nm, must := pp.Must[cl.Idx]
		if !must {
			classes["mustnot"] = true
			if len(got) > 0 {
				out = append(out, vio("C02", "delivered-to-ineligible", "client %d (user %d) received %q on %s without being an attached reader", cl.Idx, cl.User.Idx, pp.Tag, got[0].Topic))
			}
			continue
		}
		if pp.ChanSub[cl.Idx] {
			classes["chan"] = true
		} else if cl == p.C {
			classes["self"] = true
		} else {
			classes["reader"] = true
		}
		if len(got) != 1 {
			out = append(out, vio("C02", fmt.Sprintf("copies-%d", len(got)), "client %d must receive exactly one copy of %q on %s, got %d", cl.Idx, pp.Tag, nm, len(got)))
			continue
		}
		d := got[0]
		if d.Topic != nm {
			out = append(out, vio("C02", "wrong-topic-name", "client %d got %q under topic %q, expected %q", cl.Idx, pp.Tag, d.Topic, nm))
		}
		if d.SeqId != seq {
			out = append(out, vio("C02", "wrong-seq", "client %d got %q with seq %d, acknowledged %d", cl.Idx, pp.Tag, d.SeqId, seq))
		}
		wantFrom := pp.AsUid.UserId()
		if pp.ChanSub[cl.Idx] {
			wantFrom = ""
		}
		if d.From != wantFrom {
			out = append(out, vio("C02", "wrong-from", "client %d got %q from %q, expected %q", cl.Idx, pp.Tag, d.From, wantFrom))
		}
		if !reflect.DeepEqual(d.Content, any(pp.Tag)) {
			out = append(out, vio("C02", "content-altered", "client %d got content %v for %q", cl.Idx, d.Content, pp.Tag))
		}
		gotHead := map[string]any{}
		gotSender := ""
		for k, v := range d.Head {
			if k == "sender" {
				gotSender, _ = v.(string)
				continue
			}
			gotHead[k] = v
		}
		if !reflect.DeepEqual(gotHead, wantHead) {
			out = append(out, vio("C02", "head-altered", "client %d got head %v for %q, published %v", cl.Idx, canon(d.Head), pp.Tag, canon(pp.Head)))
		}
		if gotSender != oboSender {
			out = append(out, vio("C11", "sender-header", "client %d got head.sender=%q for %q, expected %q", cl.Idx, gotSender, pp.Tag, oboSender))
		}
	}
	for k := range classes {
		st.classes[k] = true
	}
	// push receipts
	if simCfg.Push {
		var msgPushes []*push.Receipt
		for _, r := range pushes {
			if r.Payload.What == push.ActMsg {
				msgPushes = append(msgPushes, r)
			}
		}
		wantPush := len(pp.PushTo) > 0 || pp.Channel != ""
		switch {
		case wantPush && len(msgPushes) != 1:
			out = append(out, vio("C02", fmt.Sprintf("push-count-%d", len(msgPushes)), "publish %q: expected one message push to %v, got %d", pp.Tag, pp.PushTo, len(msgPushes)))
		case !wantPush && len(msgPushes) != 0:
			out = append(out, vio("C02", "push-unexpected", "publish %q: nobody is entitled to a push but %d were sent", pp.Tag, len(msgPushes)))
		case wantPush:
			r := msgPushes[0]
			var to []string
			for uid := range r.To {
				to = append(to, uid.UserId())
			}
			sort.Strings(to)
			if !reflect.DeepEqual(to, pp.PushTo) && !(len(to) == 0 && len(pp.PushTo) == 0) {
				out = append(out, vio("C02", "push-recipients", "publish %q on %s: push addressed to %v, entitled %v", pp.Tag, pp.Topic, to, pp.PushTo))
			}
			if r.Channel != pp.Channel {
				out = append(out, vio("C02", "push-channel", "publish %q: push channel %q, expected %q", pp.Tag, r.Channel, pp.Channel))
			}
			if r.Payload.SeqId != seq {
				out = append(out, vio("C02", "push-seq", "publish %q: push seq %d, acknowledged %d", pp.Tag, r.Payload.SeqId, seq))
			}
		}
	}
	return
}

func diffLines(a, b string) string {
	am := map[string]bool{}
	for _, l := range strings.Split(a, "\n") {
		am[l] = true
	}
	bm := map[string]bool{}
	var out []string
	for _, l := range strings.Split(b, "\n") {
		bm[l] = true
		if !am[l] {
			out = append(out, "+ "+l)
		}
	}
	for _, l := range strings.Split(a, "\n") {
		if !bm[l] {
			out = append(out, "- "+l)
		}
	}
	if len(out) > 12 {
		out = out[:12]
	}
	return strings.Join(out, "\n")
}

func runPubfan(t *testing.T, sched simrt.Schedule, prog pfProg) ([]Violation, RunStats, *pfStats) {
	stt := &pfStats{reasons: map[string]bool{}, classes: map[string]bool{}}
	viol, st := runOne(t, sched, func(w *simWorld) []Violation {
		var out []Violation
		w.configure(prog.Sc)
		sc := prog.Sc
		ntop := len(sc.Groups) + len(sc.P2P)
		// shape phase: permission changes by the owner / the member, sequentially
		for _, sh := range prog.Shape {
			if ntop == 0 {
				break
			}
			ti := sh.Topic % ntop
			ops := map[int][]*Op{}
			tc := w.clientsOf(sh.Target)[0]
			name := c01TopicName(sc, tc, ti)
			switch sh.Kind {
			case "given", "ban":
				if ti >= len(sc.Groups) {
					continue
				}
				oc := w.clientsOf(sc.Groups[ti].Owner)[0]
				mode := sh.Mode
				if sh.Kind == "ban" {
					mode = "RWP"
				}
				if sh.Target == sc.Groups[ti].Owner {
					continue
				}
				ops[oc.Idx] = append(ops[oc.Idx], opSetSub(fmt.Sprintf("@grp%d", ti), fmt.Sprintf("@usr%d", sh.Target), mode))
			case "want":
				ops[tc.Idx] = append(ops[tc.Idx], opSetSub(name, "", sh.Mode))
			case "reinvite":
				// the target unsubscribes, another subscriber (owner / p2p peer) invites the user back, the user attaches again
				var inviter *SimClient
				if ti < len(sc.Groups) {
					inviter = w.clientsOf(sc.Groups[ti].Owner)[0]
				} else if p := sc.P2P[ti-len(sc.Groups)]; p[0] == sh.Target {
					inviter = w.clientsOf(p[1])[0]
				} else if p[1] == sh.Target {
					inviter = w.clientsOf(p[0])[0]
				}
				if inviter == nil || inviter.User.Idx == sh.Target {
					continue
				}
				w.runPhase(map[int][]*Op{tc.Idx: {opLeave(name, true)}})
				im := ""
				if ti >= len(sc.Groups) {
					im = "JRWPA" // the p2p default grant is JA: the user would not see any message
				}
				w.setOps(map[int][]*Op{inviter.Idx: {opSetSub(c01TopicName(sc, inviter, ti), fmt.Sprintf("@usr%d", sh.Target), im)}})
				w.rt.Run(2*time.Second, nil)
				ops[tc.Idx] = append(ops[tc.Idx], opSub(name, "", ""))
				simrt.Probe("c02.reinvite")
			case "unsub":
				ops[tc.Idx] = append(ops[tc.Idx], opLeave(name, true))
			case "leave":
				ops[tc.Idx] = append(ops[tc.Idx], opLeave(name, false))
			}
			w.setOps(ops)
			w.rt.Run(2*time.Second, nil)
		}
		if prog.Pattern == 1 && len(sc.Groups) > 0 {
			g := prog.PatTopic % len(sc.Groups)
			gs := sc.Groups[g]
			full := []int{gs.Owner}
			for _, m := range gs.Members {
				if !m.AsChan && m.User != sc.Root {
					full = append(full, m.User)
				}
			}
			mute := map[int][]*Op{}
			for _, u := range full {
				mode := "JRW"
				if u == gs.Owner {
					mode = "JRWASDO"
				}
				c := w.clientsOf(u)[0]
				mute[c.Idx] = append(mute[c.Idx], opSetSub(c01TopicName(sc, c, g), "", mode))
			}
			w.runPhase(mute)
			lv, back := map[int][]*Op{}, map[int][]*Op{}
			for _, c := range w.Clients {
				lv[c.Idx] = []*Op{opLeave(c01TopicName(sc, c, g), false)}
				back[c.Idx] = []*Op{opSub(c01TopicName(sc, c, g), "", "")}
			}
			w.runPhase(lv) // settles for longer than the idle timeout: the topic is unloaded
			w.runPhase(back)
			uc := w.clientsOf(full[prog.PatUser%len(full)])[0]
			um := "JRWPS"
			if uc.User.Idx == gs.Owner {
				um = "JRWPASDO"
			}
			w.runPhase(map[int][]*Op{uc.Idx: {opSetSub(c01TopicName(sc, uc, g), "", um)}})
			simrt.Probe("c02.mute_reload_unmute")
		}
		if prog.Suspend >= 0 && sc.Root >= 0 {
			rc := w.clientsOf(sc.Root)[0]
			w.runPhase(map[int][]*Op{rc.Idx: {opMsg(&ClientComMessage{Acc: &MsgClientAcc{User: fmt.Sprintf("@usr%d", prog.Suspend), State: "susp"}})}})
			// every loaded topic the suspended user owns or is a p2p participant of is suspended (read-only) now
			if ls := rc.Sents[len(rc.Sents)-1]; ls.Code >= 200 && ls.Code < 300 {
				su := w.Users[prog.Suspend].Uid
				sn := w.snapshot()
				for name, ts := range sn.Topics {
					_, member := ts.PerUser[su]
					if (ts.Cat == types.TopicCatP2P && member) || (ts.Cat == types.TopicCatGrp && ts.Owner == su) {
						simrt.Probe("c03.suspended_topic_checked")
						if ts.Status&topicStatusReadOnly == 0 {
							out = append(out, vio("C03", "suspended-topic-writable", "user %d was suspended but the loaded topic %s (cat %d) is not read-only", prog.Suspend, name, ts.Cat))
						}
					}
				}
			}
		} else {
			w.settle()
		}
		w.OnIsoFire = func(p *isoProbe) {
			if p.Sent != nil && p.Sent.Msg != nil && p.Sent.Msg.Pub != nil {
				p.Exp = pubExpectation(w, p)
			}
		}
		w.OnIsoDone = func(p *isoProbe, post *Snapshot) {
			if p.Exp != nil {
				out = append(out, judgePub(w, p, post, stt)...)
			}
		}
		tagN := 0
		for pi, ph := range prog.Phases {
			ops := map[int][]*Op{}
			if pi == 0 && prog.Pattern == 1 && len(sc.Groups) > 0 {
				g := prog.PatTopic % len(sc.Groups)
				oc := w.clientsOf(sc.Groups[g].Owner)[0]
				ops[oc.Idx] = append(ops[oc.Idx], opPub(c01TopicName(sc, oc, g), "pat.1", false).iso())
			}
			for _, a := range ph {
				c := w.Clients[a.Client%len(w.Clients)]
				name := "me"
				if ntop > 0 {
					name = c01TopicName(sc, c, a.Topic)
				}
				var op *Op
				tagN++
				tag := fmt.Sprintf("p%d.%d", pi, tagN)
				switch a.Kind {
				case "pub", "pubne":
					op = opPub(name, tag, a.Kind == "pubne")
				case "pubhead":
					op = opPub(name, tag, false)
					op.Msg.Pub.Head = pfHeads[a.Head%len(pfHeads)]
				case "pubme":
					op = opPub("me", tag, false)
				case "pubfnd":
					op = opPub("fnd", tag, false)
				case "pubsys":
					op = opPub("sys", tag, false)
				case "pubraw":
					// address a group by its other spelling, or a p2p topic by its global name
					if len(sc.Groups) > 0 {
						g := a.Topic % len(sc.Groups)
						if strings.HasPrefix(name, "@chn") {
							op = opPub(fmt.Sprintf("@grp%d", g), tag, false)
						} else {
							op = opPub(fmt.Sprintf("@chn%d", g), tag, false)
						}
					} else {
						op = opPub("grpNoSuchTopic", tag, false)
					}
				case "obo":
					target := a.Head % sc.NUsers
					rc := c
					if sc.Root >= 0 && a.Mode != "N" {
						rc = w.clientsOf(sc.Root)[0]
					}
					tcl := w.clientsOf(target)[0]
					nm := "me"
					if ntop > 0 {
						nm = c01TopicName(sc, tcl, a.Topic)
					}
					op = opPub(nm, tag, false).obo(fmt.Sprintf("@usr%d", target))
					c = rc
				case "sub":
					op = opSub(name, "", "")
				case "leave":
					op = opLeave(name, false)
				case "unsub":
					op = opLeave(name, true)
				case "setwant":
					op = opSetSub(name, "", a.Mode)
				case "disc":
					op = &Op{Kind: OpDisconnect, CreatesGroup: -1}
				}
				op.Isolated = a.Iso
				op.NoWait = a.NoWait
				op.Delay = time.Duration(a.Delay) * time.Second
				ops[c.Idx] = append(ops[c.Idx], op)
			}
			if r := w.runPhase(ops); r == simrt.RunLivelock {
				out = append(out, vio("C14", "livelock", "step budget exhausted in phase %d", pi))
				return out
			}
		}
		// unisolated traffic: at most one copy of any tag per client, and the C01 ledger still holds
		for _, c := range w.Clients {
			seen := map[string]int{}
			for _, f := range c.Frames {
				if f.Msg.Data != nil {
					if tag, ok := f.Msg.Data.Content.(string); ok {
						seen[tag]++
					}
				}
			}
			for tag, n := range seen {
				if n > 1 {
					out = append(out, vio("C02", "duplicate-copy", "client %d received %d copies of %q", c.Idx, n, tag))
				}
			}
		}
		return out
	})
	st.ProgHash = hashOf(prog)
	return viol, st, stt
}

func TestSim_C03(t *testing.T) {
	rapid.Check(t, func(rt *rapid.T) {
		sched := genSchedule(rt)
		prog := genPubfan(rt)
		viol, st, ps := runPubfan(t, sched, prog)
		st.Trigger = ps.accepted >= 1 && len(ps.reasons) >= 2
		for r := range ps.reasons {
			proc.Extra["c03.reject_reason."+r]++
		}
		reportRun(rt, "C03", viol, st, map[string]any{"schedule": sched, "program": prog})
	})
}

func TestSim_C02(t *testing.T) {
	rapid.Check(t, func(rt *rapid.T) {
		sched := genSchedule(rt)
		prog := genPubfan(rt)
		viol, st, ps := runPubfan(t, sched, prog)
		st.Trigger = ps.accepted >= 1 && len(ps.classes) >= 3
		for r := range ps.classes {
			proc.Extra["c02.recipient_class."+r]++
		}
		reportRun(rt, "C02", viol, st, map[string]any{"schedule": sched, "program": prog})
	})
}
