//go:build verif

package main

// C01 — per-topic message ids are unique, gapless and follow acceptance order.

import (
	"strings"
	"github.com/tinode/chat/server/store/types"
	"encoding/json"
	"fmt"
	"sort"
	"testing"
	"time"

	"github.com/tinode/chat/server/simrt"
	"pgregory.net/rapid"
)

type c01Act struct {
	Client int    `json:"c"`
	Kind   string `json:"k"` // pub, pubne (noecho), obo, leave, resub, getdata, getdesc, getsub, disc
	Topic  int    `json:"t"` // index into the run's topic list
	Delay  int    `json:"d"` // seconds before firing
	NoWait bool   `json:"nw,omitempty"`
}

type c01Fault struct {
	Kind   string `json:"kind"` // "", fail, crash
	Method string `json:"method"`
	At     int    `json:"at"`
	After  bool   `json:"after,omitempty"`
}

type c01Phase struct {
	Acts  []c01Act `json:"acts"`
	Fault c01Fault `json:"fault"`
	// Reload: k > 0 = before the phase every client leaves topic k-1, the topic idles out and is loaded
	// again by the {sub}s that open the phase
	Reload int `json:"reload,omitempty"`
}

type c01Prog struct {
	Sc     Scenario   `json:"scenario"`
	Phases []c01Phase `json:"phases"`
}

var c01FaultMethods = []string{"TopicUpdateOnMessage", "MessageSave", "SubsUpdate", "", "TopicGet", "UsersForTopic"}

func genC01(rt *rapid.T) c01Prog {
	p := c01Prog{Sc: genScenario(rt, 4, 2, true)}
	nph := rapid.IntRange(1, 3).Draw(rt, "nphases")
	faulty := rapid.IntRange(0, 9).Draw(rt, "faulty") < 5
	for i := 0; i < nph; i++ {
		var ph c01Phase
		n := rapid.IntRange(2, 12).Draw(rt, "nacts")
		for j := 0; j < n; j++ {
			a := c01Act{
				Client: rapid.IntRange(0, 7).Draw(rt, "client"),
				Kind:   rapid.SampledFrom([]string{"pub", "pub", "pub", "pub", "pubne", "obo", "leave", "resub", "getdata", "getdesc", "getsub", "disc", "unsub", "resub"}).Draw(rt, "kind"),
				Topic:  rapid.IntRange(0, 3).Draw(rt, "topic"),
			}
			if rapid.IntRange(0, 5).Draw(rt, "delayed") == 0 {
				a.Delay = rapid.IntRange(1, 7).Draw(rt, "delay")
			}
			a.NoWait = rapid.IntRange(0, 3).Draw(rt, "nowait") == 0
			ph.Acts = append(ph.Acts, a)
		}
		if faulty && rapid.Bool().Draw(rt, "fault_here") {
			ph.Fault = c01Fault{
				Kind:   rapid.SampledFrom([]string{"fail", "fail", "crash"}).Draw(rt, "fkind"),
				Method: rapid.SampledFrom(c01FaultMethods).Draw(rt, "fmethod"),
				At:     rapid.IntRange(1, 6).Draw(rt, "fat"),
				After:  rapid.Bool().Draw(rt, "fafter"),
			}
		}
		if i > 0 {
			if r := rapid.IntRange(0, 9).Draw(rt, "reload"); r <= 4 {
				ph.Reload = r
			}
		}
		p.Phases = append(p.Phases, ph)
	}
	return p
}

// c01Topics lists the publishable topics of a scenario as (name used by client c) resolvers.
func c01TopicName(sc Scenario, c *SimClient, ti int) string {
	n := len(sc.Groups) + len(sc.P2P)
	if n == 0 {
		return ""
	}
	ti %= n
	if ti < len(sc.Groups) {
		for _, m := range sc.Groups[ti].Members {
			if m.User == c.User.Idx && m.AsChan {
				return fmt.Sprintf("@chn%d", ti)
			}
		}
		return fmt.Sprintf("@grp%d", ti)
	}
	p := sc.P2P[ti-len(sc.Groups)]
	switch c.User.Idx {
	case p[0]:
		return fmt.Sprintf("@usr%d", p[1])
	case p[1]:
		return fmt.Sprintf("@usr%d", p[0])
	}
	return fmt.Sprintf("@usr%d", p[0])
}

type c01Accepted struct {
	Topic  string
	Seq    int
	Tag    string
	SentEv int
	AckEv  int
	Inc    int
	Client int
	Conn   int
}

func runC01(t *testing.T, sched simrt.Schedule, prog c01Prog) ([]Violation, RunStats) {
	var trigger bool
	viol, st := runOne(t, sched, func(w *simWorld) []Violation {
		var out []Violation
		w.configure(prog.Sc)
		tagN := 0
		var faultEvs []int
		for pi, ph := range prog.Phases {
			ops := map[int][]*Op{}
			for _, c := range w.Clients {
				if !c.Connected {
					// reconnect after a crash or a disconnect
					ops[c.Idx] = append(ops[c.Idx], opHi(), opLogin(c.User.Idx, "token"))
					for g, gs := range prog.Sc.Groups {
						if gs.Owner == c.User.Idx {
							ops[c.Idx] = append(ops[c.Idx], opSub(fmt.Sprintf("@grp%d", g), "", ""))
						}
						for _, m := range gs.Members {
							if m.User == c.User.Idx {
								ops[c.Idx] = append(ops[c.Idx], opSub(c01TopicName(prog.Sc, c, g), "", ""))
							}
						}
					}
					for k, p := range prog.Sc.P2P {
						if p[0] == c.User.Idx || p[1] == c.User.Idx {
							ops[c.Idx] = append(ops[c.Idx], opSub(c01TopicName(prog.Sc, c, len(prog.Sc.Groups)+k), "", ""))
						}
					}
				}
			}
			if ph.Reload > 0 && len(prog.Sc.Groups)+len(prog.Sc.P2P) > 0 {
				lv := map[int][]*Op{}
				for _, c := range w.Clients {
					if c.Connected {
						lv[c.Idx] = []*Op{opLeave(c01TopicName(prog.Sc, c, ph.Reload-1), false)}
						ops[c.Idx] = append(ops[c.Idx], opSub(c01TopicName(prog.Sc, c, ph.Reload-1), "", ""))
					}
				}
				w.runPhase(lv)
				simrt.Probe("c01.idle_reload")
			}
			for _, a := range ph.Acts {
				c := w.Clients[a.Client%len(w.Clients)]
				name := c01TopicName(prog.Sc, c, a.Topic)
				if name == "" {
					continue
				}
				var op *Op
				switch a.Kind {
				case "unsub":
					op = opLeave(name, true)
				case "pub", "pubne":
					tagN++
					op = opPub(name, fmt.Sprintf("t%d.%d", pi, tagN), a.Kind == "pubne")
				case "obo":
					if prog.Sc.Root < 0 {
						continue
					}
					rc := w.clientsOf(prog.Sc.Root)[0]
					target := (a.Client) % prog.Sc.NUsers
					if target == prog.Sc.Root {
						continue
					}
					tc := w.clientsOf(target)[0]
					nm := c01TopicName(prog.Sc, tc, a.Topic)
					tagN++
					// root must be attached to the topic under the target's identity: use sys-free path only when attached
					op = opPub(nm, fmt.Sprintf("t%d.%d", pi, tagN), false).obo(fmt.Sprintf("@usr%d", target))
					c = rc
				case "leave":
					op = opLeave(name, false)
				case "resub":
					op = opSub(name, "", "")
				case "getdata":
					op = opGet(name, "data")
				case "getdesc":
					op = opGet(name, "desc")
				case "getsub":
					op = opGet(name, "sub")
				case "disc":
					op = &Op{Kind: OpDisconnect, CreatesGroup: -1}
				}
				op.Delay = time.Duration(a.Delay) * time.Second
				op.NoWait = a.NoWait
				ops[c.Idx] = append(ops[c.Idx], op)
			}
			switch ph.Fault.Kind {
			case "fail":
				simStore.Fault = &faultPlan{FailAt: ph.Fault.At, FailMethod: ph.Fault.Method}
			case "crash":
				simStore.Fault = &faultPlan{CrashAt: ph.Fault.At, FailMethod: ph.Fault.Method, CrashAfter: ph.Fault.After}
			default:
				simStore.Fault = nil
			}
			evBefore := w.ev
			r := w.runPhase(ops)
			_ = evBefore
			if f := simStore.Fault; f != nil && f.Fired {
				faultEvs = append(faultEvs, f.FiredEv)
				if f.Crashed {
					simrt.Probe("c01.crash_in_store_call")
				} else {
					simrt.Probe("fault.store_err")
				}
			}
			simStore.Fault = nil
			switch r {
			case simrt.RunCrash:
				w.crashRestart()
				w.settle()
			case simrt.RunLivelock:
				out = append(out, vio("C14", "livelock", "step budget exhausted in phase %d", pi))
				return out
			}
		}
		// final fault-free probe publishes so that post-fault numbering is observed
		fin := map[int][]*Op{}
		for _, c := range w.Clients {
			if c.Connected {
				for ti := 0; ti < len(prog.Sc.Groups)+len(prog.Sc.P2P); ti++ {
					tagN++
					fin[c.Idx] = append(fin[c.Idx], opPub(c01TopicName(prog.Sc, c, ti), fmt.Sprintf("fin.%d", tagN), false), opGet(c01TopicName(prog.Sc, c, ti), "data desc"))
				}
			}
		}
		w.runPhase(fin)
		v, trig := c01Oracle(w, faultEvs)
		trigger = trig
		return append(out, v...)
	})
	st.Trigger = trigger
	st.ProgHash = hashOf(prog)
	return viol, st
}

// c01Oracle checks the numbering ledger over the recorded history and the Disk.
func c01Oracle(w *simWorld, faultEvs []int) (out []Violation, trigger bool) {
	var acc []c01Accepted
	type obsKey struct {
		topic string
		seq   int
	}
	obs := map[obsKey]map[string]int{} // (topic, seq) -> tag -> first event
	note := func(topic string, seq int, tag string, ev int) {
		k := obsKey{topic, seq}
		if obs[k] == nil {
			obs[k] = map[string]int{}
		}
		if _, ok := obs[k][tag]; !ok {
			obs[k][tag] = ev
		}
	}
	// shown[topic] = list of (ev, seq) for every number shown to any client
	type shownAt struct{ ev, seq int }
	shown := map[string][]shownAt{}
	// A deleted topic (last p2p participant unsubscribed) may come back under the same name: numbering
	// starts over. Every observation is keyed by topic incarnation = name + number of deletions before it.
	delEvs := map[string][]int{}
	for _, sc := range simStore.Log {
		if sc.Method == "TopicDelete" && len(sc.Args) > 0 && sc.Err == "" {
			if name, ok := sc.Args[0].(string); ok {
				delEvs[name] = append(delEvs[name], sc.Ev)
			}
		}
	}
	// Frames and acknowledgements of a long-polling client are delivered at its next poll, possibly after
	// the deletion: delivery order cannot tell the incarnations apart. A topic that was deleted during the
	// run is therefore left out of the ledger altogether (bucket "#deleted").
	ek := func(topic string, ev int) string {
		if len(delEvs[topic]) == 0 {
			return topic
		}
		simrt.Probe("c01.deleted_topic_excluded")
		return topic + "#deleted"
	}
	base := func(k string) string {
		if i := strings.IndexByte(k, '#'); i >= 0 {
			return k[:i]
		}
		return k
	}
	unans := map[string][]*Sent{}   // topic -> publishes that never got any reply (lost with a connection or a crash)
	pubByTag := map[string]*Sent{}  // content tag -> the publish that carried it
	pubTopic := map[string]string{} // content tag -> global topic
	for _, c := range w.Clients {
		for _, s := range c.Sents {
			if s.Msg == nil || s.Msg.Pub == nil {
				continue
			}
			topic := w.globalName(c, s.Msg.Pub.Topic)
			if s.Msg.Extra != nil && s.Msg.Extra.AsUser != "" {
				if ui := w.userIdx(s.Msg.Extra.AsUser); ui >= 0 {
					topic = w.globalName(w.clientsOf(ui)[0], s.Msg.Pub.Topic)
				}
			}
			if tag, ok := s.Msg.Pub.Content.(string); ok {
				pubByTag[tag] = s
				pubTopic[tag] = topic
			}
			if s.Code == 0 {
				unans[ek(topic, s.Ev)] = append(unans[ek(topic, s.Ev)], s)
			}
			if s.Code == 202 && s.Ctrl != nil {
				pm, _ := s.Ctrl.Params.(map[string]any)
				seq := toInt(pm["seq"])
				tag, _ := s.Msg.Pub.Content.(string)
				if seq <= 0 {
					out = append(out, vio("C01", "ack-without-seq", "publish %s acknowledged 202 without a positive seq: %v", s.Id, canon(s.Ctrl.Params)))
					continue
				}
				acc = append(acc, c01Accepted{Topic: ek(topic, s.CtrlEv), Seq: seq, Tag: tag, SentEv: s.Ev, AckEv: s.CtrlEv, Inc: s.Inc, Client: c.Idx, Conn: s.Conn})
				note(ek(topic, s.CtrlEv), seq, tag, s.CtrlEv)
				shown[ek(topic, s.CtrlEv)] = append(shown[ek(topic, s.CtrlEv)], shownAt{s.CtrlEv, seq})
			}
		}
		for _, f := range c.Frames {
			m := f.Msg
			switch {
			case m.Data != nil:
				topic := ek(w.globalName(c, m.Data.Topic), f.Ev)
				if tag, ok := m.Data.Content.(string); ok && m.Data.DeletedAt == nil {
					note(topic, m.Data.SeqId, tag, f.Ev)
				}
				shown[topic] = append(shown[topic], shownAt{f.Ev, m.Data.SeqId})
			case m.Meta != nil:
				topic := ek(w.globalName(c, m.Meta.Topic), f.Ev)
				if m.Meta.Desc != nil && m.Meta.Desc.SeqId > 0 && m.Meta.Topic != "me" {
					shown[topic] = append(shown[topic], shownAt{f.Ev, m.Meta.Desc.SeqId})
				}
				if m.Meta.Topic == "me" {
					for _, sub := range m.Meta.Sub {
						if sub.SeqId > 0 && sub.Topic != "" {
							st := ek(w.globalName(c, sub.Topic), f.Ev)
							shown[st] = append(shown[st], shownAt{f.Ev, sub.SeqId})
						}
					}
				}
			case m.Pres != nil:
				if m.Pres.What == "msg" && m.Pres.SeqId > 0 {
					topic := m.Pres.Topic
					if topic == "me" {
						topic = m.Pres.Src
					}
					topic = ek(w.globalName(c, topic), f.Ev)
					shown[topic] = append(shown[topic], shownAt{f.Ev, m.Pres.SeqId})
				}
			}
		}
	}
	// Disk contents
	for topic, msgs := range w.Disk.Messages {
		for _, m := range msgs {
			var content any
			json.Unmarshal(m.Content, &content)
			if tag, ok := content.(string); ok {
				note(ek(topic, 1<<30), m.SeqId, tag, 1<<30)
			}
		}
	}
	for topic, msgs := range w.Disk.Messages {
		for _, m := range msgs {
			var content any
			json.Unmarshal(m.Content, &content)
			tag, ok := content.(string)
			if !ok || m.DeletedAt != nil {
				continue
			}
			p := pubByTag[tag]
			switch {
			case p == nil:
				out = append(out, vio("C01", "stored-unknown-message", "topic %s seq %d holds %q which nobody published", topic, m.SeqId, tag))
			case pubTopic[tag] != topic:
				out = append(out, vio("C01", "stored-in-wrong-topic", "message %q published to %s is stored in %s", tag, pubTopic[tag], topic))
			case p.Code >= 500:
				out = append(out, vio("C01", "failed-publish-stored", "publish %q answered %d (failed save) is stored in %s as seq %d", tag, p.Code, topic, m.SeqId))
			case p.Code >= 300:
				out = append(out, vio("C03", "rejected-publish-stored", "publish %q answered %d is stored in %s as seq %d", tag, p.Code, topic, m.SeqId))
			}
		}
	}
	// (1)+(6) every (topic, seq) has exactly one content everywhere it was ever observed
	var keys []obsKey
	for k := range obs {
		keys = append(keys, k)
	}
	sort.Slice(keys, func(i, j int) bool {
		if keys[i].topic != keys[j].topic {
			return keys[i].topic < keys[j].topic
		}
		return keys[i].seq < keys[j].seq
	})
	for _, k := range keys {
		if strings.Contains(k.topic, "#") {
			continue
		}
		if len(obs[k]) > 1 {
			out = append(out, vio("C01", "number-issued-twice", "topic %s seq %d carries different messages: %v", k.topic, k.seq, obs[k]))
		}
	}
	// per topic checks over accepted publishes in acknowledgement order
	byTopic := map[string][]c01Accepted{}
	for _, a := range acc {
		byTopic[a.Topic] = append(byTopic[a.Topic], a)
	}
	var topics []string
	for tname := range byTopic {
		topics = append(topics, tname)
	}
	sort.Strings(topics)
	for _, tname := range topics {
		if strings.Contains(tname, "#") {
			continue
		}
		list := byTopic[tname]
		sort.Slice(list, func(i, j int) bool { return list[i].Seq < list[j].Seq })
		clients := map[int]bool{}
		for i, a := range list {
			clients[a.Client] = true
			// (3)/(5) strictly above every number shown before this publish was sent
			for _, s := range shown[tname] {
				if s.ev < a.SentEv && s.seq >= a.Seq {
					out = append(out, vio("C01", "not-above-shown", "topic %s: publish %q sent at ev %d got seq %d but seq %d had been shown at ev %d", tname, a.Tag, a.SentEv, a.Seq, s.seq, s.ev))
					break
				}
			}
			if i == 0 {
				continue
			}
			prev := list[i-1]
			if prev.Seq == a.Seq {
				out = append(out, vio("C01", "number-acked-twice", "topic %s: seq %d acknowledged for %q and %q", tname, a.Seq, prev.Tag, a.Tag))
				continue
			}
			// (2)/(4) gapless within an incarnation when no store fault / crash lies between
			if prev.Inc == a.Inc && a.Seq != prev.Seq+1 {
				// a failed save may leave the stored counter one ahead; that shows only after the topic is loaded again
				faultBetween := false
				for _, fe := range faultEvs {
					if fe >= prev.SentEv && fe <= a.AckEv {
						for _, sc := range simStore.Log {
							if sc.Method == "TopicGet" && len(sc.Args) > 0 && sc.Args[0] == base(tname) && sc.Ev >= fe && sc.Ev <= a.AckEv {
								faultBetween = true
							}
						}
					}
				}
				for _, u := range unans[tname] {
					if u.Ev < a.AckEv && u.Inc == a.Inc {
						faultBetween = true // an unacknowledged publish may hold the skipped number
					}
				}
				if !faultBetween {
					out = append(out, vio("C01", "gap", "topic %s: accepted seq %d follows %d in one incarnation without any fault", tname, a.Seq, prev.Seq))
				}
			}
		}
		if len(list) >= 2 && len(clients) >= 2 {
			trigger = true
		}
		// per session: acknowledgements arrive in increasing order
		perConn := map[[2]int][]c01Accepted{}
		for _, a := range list {
			perConn[[2]int{a.Client, a.Conn}] = append(perConn[[2]int{a.Client, a.Conn}], a)
		}
		for _, l := range perConn {
			sort.Slice(l, func(i, j int) bool { return l[i].AckEv < l[j].AckEv })
			for i := 1; i < len(l); i++ {
				if l[i].Seq < l[i-1].Seq {
					out = append(out, vio("C01", "ack-order", "topic %s client %d: ack seq %d arrived after ack seq %d", tname, l[i].Client, l[i].Seq, l[i-1].Seq))
				}
			}
		}
		// (6) the Disk holds every acknowledged message under its number, and its topic row is at least that high
		disk := map[int]string{}
		for _, m := range w.Disk.Messages[base(tname)] {
			var content any
			json.Unmarshal(m.Content, &content)
			if s, ok := content.(string); ok {
				disk[m.SeqId] = s
			}
		}
		maxAck := 0
		for _, a := range list {
			if a.Seq > maxAck {
				maxAck = a.Seq
			}
			if tr := w.Disk.Topics[base(tname)]; tr == nil || tr.State == types.StateDeleted {
				continue // the topic was deleted (last p2p participant unsubscribed): its messages went with it
			}
			if got, ok := disk[a.Seq]; !ok {
				out = append(out, vio("C01", "acked-not-durable", "topic %s: acknowledged seq %d (%q) is not in the store", tname, a.Seq, a.Tag))
			} else if got != a.Tag {
				out = append(out, vio("C01", "acked-wrong-content", "topic %s: seq %d acknowledged for %q but the store holds %q", tname, a.Seq, a.Tag, got))
			}
		}
		if tr := w.Disk.Topics[base(tname)]; tr != nil && tr.SeqId < maxAck {
			out = append(out, vio("C01", "topic-row-behind", "topic %s: stored seqid %d < acknowledged %d", tname, tr.SeqId, maxAck))
		}
	}
	if len(faultEvs) > 0 && len(acc) >= 2 {
		trigger = true
	}
	// without any fault: the live counter equals the stored one and the numbers are exactly 1..n
	if len(faultEvs) == 0 {
		sn := w.snapshot()
		for _, tname := range topics {
			if strings.Contains(tname, "#") {
				continue
			}
			list := byTopic[tname]
			if list[0].Seq > 1+len(unans[tname]) && w.Crashes == 0 {
				out = append(out, vio("C01", "first-number", "topic %s: first accepted number is %d", tname, list[0].Seq))
			}
			if strings.Contains(tname, "#") {
				continue
			}
			if ts := sn.Topics[tname]; ts != nil {
				if tr := w.Disk.Topics[tname]; tr != nil && tr.SeqId != ts.LastID {
					out = append(out, vio("C01", "cache-store-seq", "topic %s: live lastID %d != stored seqid %d", tname, ts.LastID, tr.SeqId))
				}
			}
		}
	}
	return
}

func toInt(v any) int {
	switch x := v.(type) {
	case int:
		return x
	case int64:
		return int(x)
	case float64:
		return int(x)
	}
	return 0
}

func TestSim_C01(t *testing.T) {
	rapid.Check(t, func(rt *rapid.T) {
		sched := genSchedule(rt)
		prog := genC01(rt)
		viol, st := runC01(t, sched, prog)
		reportRun(rt, "C01", viol, st, map[string]any{"schedule": sched, "program": prog})
	})
}
