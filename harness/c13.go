//go:build verif

package main

// C13 — no client input can crash the server or leave a request unanswered.

import (
	"encoding/json"
	"fmt"
	"strings"
	"testing"
	"time"

	"github.com/tinode/chat/server/simrt"
	"pgregory.net/rapid"
)

type fzMsg struct {
	Client int    `json:"c"`
	Kind   string `json:"k"`   // structured message kind or "raw"
	Topic  int    `json:"t"`   // index into the nasty topic list
	A      int    `json:"a"`   // generic small integer argument
	B      int    `json:"b"`   // generic small integer argument
	S      int    `json:"s"`   // index into the nasty string list
	Raw    string `json:"raw"` // raw bytes for "raw"
	Mut    int    `json:"mut"` // mutation applied to the marshalled JSON (0 = none)
	Delay  int    `json:"d,omitempty"`
	NoWait bool   `json:"nw,omitempty"`
}

type fzProg struct {
	Sc      Scenario `json:"scenario"`
	Hostile []int    `json:"hostile_mode"` // per hostile client: 0 logged in, 1 hi only, 2 nothing, 3 root
	Msgs    []fzMsg  `json:"msgs"`
	// Prelude: unusual world states set up by the regular population before (and between) the hostile inputs:
	// 1 a member unsubscribes from group 0, 2 everybody leaves group 0 and it idles out, 3 that member deletes
	// the account (soft), 4 (hard), 5 the owner re-invites the member, 6 the member comes back on a new connection
	Prelude []int `json:"prelude,omitempty"`
}

var fzStrings = []string{"", "x", "N", "JRWPASDO", "XYZ", "basic", "token", "code", "reset", "nosuch", "new", "newabc", "␡", "a b,c", "\"q", "email:a@b.c",
	"usr", "0", "-1", strings.Repeat("z", 300), "desc sub data del tags cred", "data", "topic", "msg", "sub", "user", "cred", "ok", "susp", "del", "undef", "auth", "root", "anon",
	"ringing", "accept", "hang-up", "offer", "answer", "ice-candidate", "bogus", "read", "recv", "kp", "kpa", "call", "0.23", "0.1", "99.99", "abc", "1.2.3.4.5"}

func (w *simWorld) fzTopic(c *SimClient, i int) string {
	self := ""
	if c.User != nil {
		self = c.User.Uid.UserId()
	}
	other := w.Users[(c.Idx+1)%len(w.Users)].Uid
	list := []string{"", "x", "xy", "me", "fnd", "sys", "grp", "usr", "chn", "p2p", "new", "nch", "newfoo", "nchfoo", "grpNoSuchTopic00", "chnNoSuchTopic00",
		"usrNoSuchUser000", "p2pNoSuchTopicNoSuchTop", "p2pXYZ", "usr!!!", "grp/../x", self, other.UserId(), "@grp0", "@chn0", "@grp1", "@usr0", "@usr1", "@p2p0_1",
		"fnd" + strings.TrimPrefix(self, "usr"), "me ", "ME", strings.Repeat("g", 200), "sysx", "slf"}
	return list[i%len(list)]
}

func genFuzz(rt *rapid.T) fzProg {
	p := fzProg{Sc: genScenario(rt, 3, 2, true)}
	nh := rapid.IntRange(1, 2).Draw(rt, "nhostile")
	for i := 0; i < nh; i++ {
		p.Hostile = append(p.Hostile, rapid.IntRange(0, 3).Draw(rt, "hmode"))
	}
	n := rapid.IntRange(3, 25).Draw(rt, "nmsgs")
	kinds := []string{"hi", "acc", "login", "sub", "leave", "pub", "get", "set", "del", "note", "raw", "empty", "multi"}
	for i := 0; i < n; i++ {
		m := fzMsg{
			Client: rapid.IntRange(0, 5).Draw(rt, "client"),
			Kind:   rapid.SampledFrom(kinds).Draw(rt, "kind"),
			Topic:  rapid.IntRange(0, 40).Draw(rt, "topic"),
			A:      rapid.IntRange(-2, 12).Draw(rt, "a"),
			B:      rapid.IntRange(-2, 12).Draw(rt, "b"),
			S:      rapid.IntRange(0, len(fzStrings)-1).Draw(rt, "s"),
			Mut:    rapid.SampledFrom([]int{0, 0, 0, 0, 1, 2, 3, 4}).Draw(rt, "mut"),
			NoWait: rapid.IntRange(0, 3).Draw(rt, "nowait") == 0,
		}
		if m.Kind == "raw" {
			m.Raw = rapid.SampledFrom([]string{"", "1", "0", "{", "}", "[]", "null", "{}", "{\"hi\":1}", "{\"pub\":{}}", "{\"sub\":null,\"pub\":{\"topic\":5}}",
				"{\"hi\":{\"id\":\"1\",\"ver\":\"0.23\"}}{\"hi\":{}}", "\x00\x01\x02", "{\"note\":{\"topic\":\"x\",\"what\":\"call\",\"seq\":1}}",
				"{\"get\":{\"id\":\"g1\",\"topic\":\"me\",\"what\":\"desc\",\"desc\":{\"ims\":\"bad\"}}}", "{\"login\":{\"id\":\"l\",\"scheme\":\"basic\",\"secret\":\"!!!\"}}",
				"{\"extra\":{\"obo\":\"usrX\"},\"get\":{\"id\":\"g2\",\"topic\":\"me\",\"what\":\"desc\"}}", "\"str\"", "123", "{\"del\":{\"id\":\"d1\",\"what\":\"topic\",\"topic\":\"xyz\"}}"}).Draw(rt, "rawstr")
		}
		if rapid.IntRange(0, 9).Draw(rt, "delayed") == 0 {
			m.Delay = rapid.IntRange(1, 6).Draw(rt, "delay")
		}
		p.Msgs = append(p.Msgs, m)
	}
	if rapid.IntRange(0, 2).Draw(rt, "prelude") == 0 {
		n := rapid.IntRange(1, 5).Draw(rt, "nprelude")
		for i := 0; i < n; i++ {
			p.Prelude = append(p.Prelude, rapid.SampledFrom([]int{1, 2, 3, 3, 4, 5, 5, 6}).Draw(rt, "pstep"))
		}
	}
	return p
}

// fzBuild builds the structured client message for one fuzz step.
func (w *simWorld) fzBuild(c *SimClient, m fzMsg) *ClientComMessage {
	str := fzStrings[m.S%len(fzStrings)]
	str2 := fzStrings[(m.S+m.A+7)%len(fzStrings)]
	topic := w.fzTopic(c, m.Topic)
	uid := func(i int) string {
		switch {
		case i < 0:
			return "usrBOGUS"
		case i%5 == 4:
			return ""
		}
		return fmt.Sprintf("@usr%d", i%len(w.Users))
	}
	var desc *MsgSetDesc
	if m.B%3 == 0 {
		desc = &MsgSetDesc{Public: map[string]any{"fn": str, "n": m.A}, Private: str2}
		if m.B%2 == 0 {
			desc.DefaultAcs = &MsgDefaultAcsMode{Auth: str, Anon: str2}
		}
	}
	getq := MsgGetQuery{What: []string{"desc", "sub", "data", "del", "tags", "cred", "desc sub data del tags cred", str, ""}[(m.A+20)%9]}
	if m.B%2 == 0 {
		o := &MsgGetOpts{SinceId: m.A, BeforeId: m.B, Limit: m.A * m.B, User: uid(m.B), Topic: str2}
		getq.Desc, getq.Sub, getq.Data, getq.Del = o, o, o, o
		if m.B%4 == 0 {
			o.User, o.Topic = "", ""
		}
	}
	setq := MsgSetQuery{}
	switch (m.A + 20) % 5 {
	case 0:
		setq.Desc = desc
	case 1:
		setq.Sub = &MsgSetSub{User: uid(m.B), Mode: str}
	case 2:
		setq.Tags = []string{str, str2, "tag one", "x"}
	case 3:
		setq.Cred = &MsgCredClient{Method: []string{"simcred", "email", "tel", str}[(m.B+20)%4], Value: "a@b.c", Response: str2}
	}
	var content any = str
	switch (m.B + 20) % 5 {
	case 1:
		content = map[string]any{"txt": str, "fmt": []any{map[string]any{"at": m.A, "len": m.B * 1000, "tp": "ST"}}, "ent": []any{map[string]any{"tp": "IM", "data": map[string]any{"val": str2}}}}
	case 2:
		content = map[string]any{"txt": "héllo wörld 😀", "fmt": []any{map[string]any{"at": -1, "len": 100, "key": m.A}}, "ent": "notalist"}
	case 3:
		content = []any{1, "a", nil}
	case 4:
		content = nil
	}
	msg := &ClientComMessage{}
	switch m.Kind {
	case "hi":
		msg.Hi = &MsgClientHi{Version: []string{"0.23", "0.19", "0.1", str, ""}[(m.A+20)%5], UserAgent: str2, DeviceID: []string{"", "dev1", "␡", str}[(m.B+20)%4], Lang: []string{"", "en", "zh_CN_#Hans", str}[(m.A+20)%4], Background: m.B%2 == 0}
	case "acc":
		msg.Acc = &MsgClientAcc{User: []string{"new", "newX", uid(m.A), "", str}[(m.B+20)%5], Scheme: []string{"basic", "", str, "token", "anonymous"}[(m.A+20)%5],
			Secret: []byte(fmt.Sprintf("fz%d%s:secret%d", m.A, strings.ToLower(strings.Map(func(r rune) rune {
				if r >= 'a' && r <= 'z' {
					return r
				}
				return -1
			}, str)), m.B)), Login: m.B%2 == 0, Tags: []string{str, "fzt"}, Desc: desc,
			TmpScheme: []string{"", "", "code", "nosuch", "token", "basic"}[(m.A+m.B+40)%6], TmpSecret: []byte(str2), State: []string{"", "", "ok", "susp", str}[(m.B+20)%5], AuthLevel: []string{"", "auth", "root", str}[(m.A+20)%4]}
		if m.B%4 == 1 {
			msg.Acc.Cred = []MsgCredClient{{Method: "simcred", Value: "x@y.z"}, {Method: str, Value: str2}}
		}
	case "login":
		msg.Login = &MsgClientLogin{Scheme: []string{"basic", "token", "code", "reset", "anonymous", "rest", str}[(m.A+21)%7], Secret: []byte(str2)}
		if m.B%3 == 0 {
			msg.Login.Secret = []byte("basic:simcred:" + str)
		}
	case "sub":
		msg.Sub = &MsgClientSub{Topic: topic}
		if m.A%2 == 0 {
			msg.Sub.Set = &setq
		}
		if m.B%2 == 0 {
			msg.Sub.Get = &getq
		}
	case "leave":
		msg.Leave = &MsgClientLeave{Topic: topic, Unsub: m.A%2 == 0}
	case "pub":
		msg.Pub = &MsgClientPub{Topic: topic, NoEcho: m.A%3 == 0, Content: content}
		switch (m.A + 20) % 6 {
		case 1:
			msg.Pub.Head = map[string]any{"mime": str, "replace": str2, "sender": "usrX", "webrtc": nil}
		case 2:
			msg.Pub.Head = map[string]any{"webrtc": "started", "aonly": "notbool", "replace": ":abc"}
		case 3:
			msg.Pub.Head = map[string]any{"webrtc": 5, "replace": 7, "mime": 1.5}
		}
		if m.B%4 == 0 {
			msg.Extra = &MsgClientExtra{Attachments: []string{str, "/v0/file/s/abc.jpg", "../../etc/passwd"}}
		}
	case "get":
		msg.Get = &MsgClientGet{Topic: topic, MsgGetQuery: getq}
	case "set":
		msg.Set = &MsgClientSet{Topic: topic, MsgSetQuery: setq}
	case "del":
		msg.Del = &MsgClientDel{Topic: topic, What: []string{"msg", "topic", "sub", "user", "cred", "", str}[(m.A+21)%7], Hard: m.B%2 == 0, User: uid(m.B)}
		if m.A%2 == 0 {
			msg.Del.DelSeq = []MsgDelRange{{LowId: m.A, HiId: m.B}, {LowId: m.B}}
		}
		if m.B%3 == 0 {
			msg.Del.Cred = &MsgCredClient{Method: str, Value: str2}
		}
	case "note":
		msg.Note = &MsgClientNote{Topic: topic, What: []string{"read", "recv", "kp", "kpa", "kpv", "call", "data", str}[(m.A+24)%8], SeqId: m.B,
			Event: []string{"", "ringing", "accept", "hang-up", "offer", "answer", "ice-candidate", str2}[(m.B+24)%8]}
		if m.A%3 == 0 {
			msg.Note.Payload = json.RawMessage(`{"a":1}`)
		}
	case "multi":
		msg.Hi = &MsgClientHi{Version: "0.23"}
		msg.Pub = &MsgClientPub{Topic: topic, Content: content}
		msg.Get = &MsgClientGet{Topic: topic, MsgGetQuery: getq}
	case "empty":
	}
	if m.A == 11 && msg.Extra == nil {
		msg.Extra = &MsgClientExtra{AsUser: uid(m.B), AuthLevel: str}
	}
	return msg
}

func mutateJSON(b []byte, mut, a int) []byte {
	if len(b) == 0 {
		return b
	}
	pos := (a*31 + 17) % len(b)
	if pos < 0 {
		pos = -pos
	}
	switch mut {
	case 1:
		return b[:pos] // truncate
	case 2:
		out := append([]byte{}, b...)
		out[pos] ^= 0x20
		return out
	case 3:
		return append(append(append([]byte{}, b[:pos]...), []byte(`"x":{"y":[1,2,`)...), b[pos:]...)
	case 4:
		return append(append([]byte{}, b...), b...)
	}
	return b
}

func runFuzz(t *testing.T, sched simrt.Schedule, prog fzProg) ([]Violation, RunStats) {
	reached := false
	viol, st := runOne(t, sched, func(w *simWorld) []Violation {
		var out []Violation
		w.rt.StopOnPanic = true
		sc := prog.Sc
		w.configure(sc)
		// hostile clients
		var hostile []*SimClient
		for i, mode := range prog.Hostile {
			u := w.Users[i%len(w.Users)]
			if mode == 3 && sc.Root >= 0 {
				u = w.Users[sc.Root]
			}
			c := w.addClient(u)
			c.Transport = TransportLP
			if i%2 == 1 {
				c.Transport = TransportGRPC
			}
			hostile = append(hostile, c)
			var ops []*Op
			switch mode {
			case 0, 3:
				ops = []*Op{opHi(), opLogin(u.Idx, "token")}
			case 1:
				ops = []*Op{opHi()}
			default:
				ops = []*Op{{Kind: OpConnect, CreatesGroup: -1}}
			}
			w.setOps(map[int][]*Op{c.Idx: ops})
			w.rt.Run(time.Second, nil)
		}
		bystander := w.Clients[0]
		if len(prog.Prelude) > 0 && len(sc.Groups) > 0 {
			gs := sc.Groups[0]
			member := -1
			for _, m := range gs.Members {
				if !m.AsChan && m.User != bystander.User.Idx && m.User != sc.Root {
					member = m.User
				}
			}
			if member >= 0 && gs.Owner != member {
				mc, oc := w.clientsOf(member)[0], w.clientsOf(gs.Owner)[0]
				for _, step := range prog.Prelude {
					switch step {
					case 1:
						w.runPhase(map[int][]*Op{mc.Idx: {opLeave("@grp0", true)}})
					case 2:
						lv := map[int][]*Op{}
						for _, c := range w.Clients {
							if c.Connected && c.LoggedIn {
								lv[c.Idx] = []*Op{opLeave(c01TopicName(sc, c, 0), false)}
							}
						}
						w.runPhase(lv)
					case 3, 4:
						w.runPhase(map[int][]*Op{mc.Idx: {opMsg(&ClientComMessage{Del: &MsgClientDel{What: "user", Hard: step == 4}})}})
					case 5:
						w.runPhase(map[int][]*Op{oc.Idx: {opSub("@grp0", "", ""), opSetSub("@grp0", fmt.Sprintf("@usr%d", member), "")}})
					case 6:
						if !mc.Connected {
							w.runPhase(map[int][]*Op{mc.Idx: {opHi(), opLogin(member, "basic"), opSub("me", "", "")}})
						}
					}
					if len(w.rt.Panics) > 0 {
						return out
					}
				}
				simrt.Probe("c13.prelude")
			}
		}
		hostileOps := map[int][]*Op{}
		byOps := []*Op{}
		for i, m := range prog.Msgs {
			c := hostile[m.Client%len(hostile)]
			var op *Op
			if m.Kind == "raw" {
				raw := m.Raw
				if raw == "" {
					raw = "\n" // an empty body is a poll, not a message
				}
				op = &Op{Kind: OpMsg, Msg: &ClientComMessage{}, Raw: []byte(raw), KeepID: true, CreatesGroup: -1}
			} else {
				op = opMsg(w.fzBuild(c, m))
				op.Mut, op.MutArg = m.Mut, m.A
			}
			if c.Transport == TransportGRPC {
				op.Mut, op.Raw = 0, nil
			}
			op.NoWait = m.NoWait
			op.Delay = time.Duration(m.Delay) * time.Second
			op.Note = fmt.Sprintf("fz%d", i)
			hostileOps[c.Idx] = append(hostileOps[c.Idx], op)
			if i%4 == 3 {
				byOps = append(byOps, opGet("me", "desc"))
			}
		}
		byOps = append(byOps, opGet("me", "desc").after(2*time.Second))
		hostileOps[bystander.Idx] = byOps
		w.Timeout = 15 * time.Second
		r := w.runPhase(hostileOps)
		if r == simrt.RunPanic || len(w.rt.Panics) > 0 {
			return out // reported by runOne from w.rt.Panics
		}
		if r == simrt.RunLivelock {
			return append(out, vio("C14", "livelock", "step budget exhausted"))
		}
		// final bystander probe after everything
		w.runPhase(map[int][]*Op{bystander.Idx: {opGet("me", "desc"), opGet("me", "sub")}})
		if len(w.rt.Panics) > 0 {
			return out
		}
		// every request with an id that reached the server must have been answered
		for _, c := range w.Clients {
			// dispatch-level refusals (before the handler knows the id) are anonymous error {ctrl}s. Which
			// request each one answers is not recorded on the wire, so ask only whether SOME assignment of
			// anonymous errors to the unanswered well-formed requests exists (a frame can answer a request
			// only if it arrived after the request was sent): latest request takes the latest free frame.
			// Mutated requests are left out: their replies may also be anonymous, which only makes the check
			// more lenient, never wrong.
			used := map[int]bool{}
			for si := len(c.Sents) - 1; si >= 0; si-- {
				s := c.Sents[si]
				if s.Id == "" || s.Answered || s.Msg == nil || s.Msg.Note != nil || (s.Op != nil && (s.Op.Raw != nil || s.Op.Mut != 0)) {
					continue
				}
				for fi := len(c.Frames) - 1; fi >= 0; fi-- {
					f := c.Frames[fi]
					if f.Ev <= s.Ev {
						break
					}
					if !used[fi] && f.Msg.Ctrl != nil && f.Msg.Ctrl.Id == "" && f.Msg.Ctrl.Code >= 400 {
						used[fi] = true
						s.Answered, s.Code = true, f.Msg.Ctrl.Code
						break
					}
				}
			}
			for _, s := range c.Sents {
				if s.Id == "" || s.Msg == nil || s.Msg.Note != nil || (s.Op != nil && (s.Op.Raw != nil || s.Op.Mut != 0)) {
					continue
				}
				if s.Conn != c.Conn || s.Inc != w.Inc {
					continue // the connection was closed (evicted or deleted account) before quiescence
				}
				if !s.Answered {
					kind := msgKind(s.Msg)
					if !c.Connected {
						continue // evicted (account suspended or deleted by a root session) or disconnected
					}
					if c == bystander {
						out = append(out, vio("C13", "bystander-unanswered", "bystander request %s (%s) was never answered", s.Id, kind))
					} else if !c.Connected {
						continue
					} else {
						tail := ""
						for _, f := range c.Frames {
							if f.Ev > s.Ev && len(tail) < 600 {
								tail += " | " + frameSummary(f.Msg)
							}
						}
						out = append(out, vio("C13", "unanswered "+kind, "request %s was never answered: %s; frames after it:%s", s.Id, canon(s.Msg), tail))
					}
				}
			}
		}
		// out-of-sequence / unauthenticated requests get an error code
		for hi, c := range hostile {
			mode := prog.Hostile[hi]
			for _, s := range c.Sents {
				if s.Op == nil || s.Op.Raw != nil || s.Op.Mut != 0 || s.Msg == nil || s.Id == "" || !s.Answered || s.Conn != c.Conn {
					continue
				}
				m := s.Msg
				privileged := m.Sub != nil || m.Leave != nil || m.Pub != nil || m.Get != nil || m.Set != nil || m.Del != nil
				multi := (m.Hi != nil && m.Pub != nil)
				if multi {
					continue
				}
				if mode == 2 && (privileged || m.Login != nil || m.Acc != nil) && s.Code < 400 && !hiSeen(c, s) {
					out = append(out, vio("C11", "served-before-hi", "request %s answered %d before any handshake", canon(m), s.Code))
				}
				if mode == 1 && privileged && s.Code != 0 && s.Code < 400 && !loginSeen(c, s) {
					out = append(out, vio("C11", "served-before-login", "request %s answered %d before login", canon(m), s.Code))
				}
			}
		}
		for _, p := range w.rt.Probes {
			_ = p
		}
		reached = w.rt.Probes["c13.reached_topic"]+simStore.Calls["SubscriptionGet"]+simStore.Calls["TopicGet"] > 0
		return out
	})
	st.Trigger = reached
	st.ProgHash = hashOf(prog)
	return viol, st
}

func msgKind(m *ClientComMessage) string {
	switch {
	case m.Hi != nil && m.Pub != nil:
		return "multi"
	case m.Hi != nil:
		return "hi"
	case m.Acc != nil:
		return "acc"
	case m.Login != nil:
		return "login"
	case m.Sub != nil:
		return "sub"
	case m.Leave != nil:
		return "leave"
	case m.Pub != nil:
		return "pub"
	case m.Get != nil:
		return "get"
	case m.Set != nil:
		return "set"
	case m.Del != nil:
		return "del"
	case m.Note != nil:
		return "note"
	}
	return "empty"
}

// hiSeen: did the client complete a handshake on this connection before request s was sent?
func hiSeen(c *SimClient, s *Sent) bool {
	for _, o := range c.Sents {
		if o.Ev < s.Ev && o.Conn == s.Conn && o.Msg != nil && o.Msg.Hi != nil && o.Code >= 200 && o.Code < 300 {
			return true
		}
	}
	return false
}

func loginSeen(c *SimClient, s *Sent) bool {
	for _, o := range c.Sents {
		if o.Ev < s.Ev && o.Conn == s.Conn && o.Msg != nil && (o.Msg.Login != nil || (o.Msg.Acc != nil && o.Msg.Acc.Login)) && o.Code >= 200 && o.Code < 300 {
			return true
		}
	}
	return false
}

func TestSim_C13(t *testing.T) {
	rapid.Check(t, func(rt *rapid.T) {
		sched := genSchedule(rt)
		prog := genFuzz(rt)
		viol, st := runFuzz(t, sched, prog)
		reportRun(rt, "C13", viol, st, map[string]any{"schedule": sched, "program": prog})
	})
}
