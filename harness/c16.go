//go:build verif

package main

// C16 — out-of-band files are served only to authorised users and kept while referenced.
//
// The real largeFileReceive / largeFileServe handlers, the fs media handler (real files under the run's
// scratch directory), the store's file mapper and the garbage-collection loop run in the simulated world;
// requests are in-memory *http.Request values. Every act is sequential and judged against a ledger of
// uploads (bytes, detected type, owner, links, age): gates (method, API key and its placement, credentials and
// their placement, size), exact bytes and type on download, forced attachment disposition for active content,
// URL shapes that must not name anything but a completed upload, links made by publishes with attachment
// lists and by avatar updates, unlinking by message/topic deletion, and what the collector removes after
// simulated hours.

import (
	"bytes"
	"encoding/base64"
	"encoding/json"
	"fmt"
	"io"
	"mime/multipart"
	"net/http"
	"net/http/httptest"
	"net/textproto"
	"net/url"
	"os"
	"path"
	"sort"
	"strings"
	"testing"
	"time"

	"github.com/tinode/chat/server/simrt"
	"github.com/tinode/chat/server/store/types"
	"pgregory.net/rapid"
)

type c16Act struct {
	Kind    string `json:"k"` // up, down, pubatt, avatar, delmsg, deltopic, gc, wait
	User    int    `json:"u"`
	Size    int    `json:"size,omitempty"`
	Content int    `json:"content,omitempty"`
	Method  int    `json:"method,omitempty"`
	Key     int    `json:"key,omitempty"`
	Auth    int    `json:"auth,omitempty"`
	Ref     int    `json:"ref,omitempty"`
	Shape   int    `json:"shape,omitempty"`
	Wait    int    `json:"wait,omitempty"`
}

type c16Fail struct {
	Act int `json:"act"` // index of the action during which the K-th store call fails (uploads, publishes, avatar updates)
	K   int `json:"k"`
}

type c16Prog struct {
	Sc    Scenario  `json:"scenario"`
	Acts  []c16Act  `json:"acts"`
	Fails []c16Fail `json:"fails,omitempty"`
}

var c16Sizes = []int{0, 1, 17, 600, 3000, 3700, 3900, 4096, 4200, 9000}

func genC16(rt *rapid.T) c16Prog {
	p := c16Prog{Sc: genScenario(rt, 3, 1, false)}
	n := rapid.IntRange(4, 16).Draw(rt, "nacts")
	for i := 0; i < n; i++ {
		a := c16Act{
			Kind:    rapid.SampledFrom([]string{"up", "up", "up", "down", "down", "down", "pubatt", "avatar", "delmsg", "deltopic", "gc", "wait"}).Draw(rt, "kind"),
			User:    rapid.IntRange(0, 2).Draw(rt, "user"),
			Size:    rapid.SampledFrom(c16Sizes).Draw(rt, "size"),
			Content: rapid.IntRange(0, 6).Draw(rt, "content"),
			Method:  rapid.SampledFrom([]int{0, 0, 0, 0, 1, 2, 3, 4}).Draw(rt, "method"),
			Key:     rapid.SampledFrom([]int{0, 0, 0, 1, 2, 3, 4, 5}).Draw(rt, "key"),
			Auth:    rapid.SampledFrom([]int{0, 0, 8, 8, 1, 2, 3, 4, 5, 6, 7, 9}).Draw(rt, "auth"),
			Ref:     rapid.IntRange(0, 5).Draw(rt, "ref"),
			Shape:   rapid.IntRange(0, 9).Draw(rt, "shape"),
			Wait:    rapid.SampledFrom([]int{30, 600, 3000, 3500, 3700, 4000, 7300}).Draw(rt, "wait"),
		}
		p.Acts = append(p.Acts, a)
	}
	// scripted tail, one run in four: an avatar is replaced while a store call of the replacement fails, then the
	// grace period passes
	if rapid.IntRange(0, 3).Draw(rt, "tail") == 0 {
		usr := rapid.IntRange(0, 2).Draw(rt, "tailuser")
		k := rapid.IntRange(1, 4).Draw(rt, "tailk")
		up := c16Act{Kind: "up", User: usr, Size: 600}
		base := len(p.Acts)
		p.Acts = append(p.Acts, up, c16Act{Kind: "avatar", User: usr, Ref: -1}, up, c16Act{Kind: "avatar", User: usr, Ref: -1}, c16Act{Kind: "gc"}, c16Act{Kind: "down", User: usr, Ref: -2})
		p.Fails = append(p.Fails, c16Fail{Act: base + 3, K: k})
		n = len(p.Acts)
	}
	// store failures (drawn last so that the draws above keep their positions): one run in three has 1-2
	if rapid.IntRange(0, 2).Draw(rt, "faulty") == 0 {
		nf := rapid.IntRange(1, 2).Draw(rt, "nfails")
		for i := 0; i < nf; i++ {
			// prefer the actions that can be interrupted at all
			var cand []int
			for j, a := range p.Acts {
				if a.Kind == "up" || a.Kind == "pubatt" || a.Kind == "avatar" {
					cand = append(cand, j)
				}
			}
			act := rapid.IntRange(0, n-1).Draw(rt, "failact")
			if len(cand) > 0 {
				act = cand[act%len(cand)]
			}
			p.Fails = append(p.Fails, c16Fail{Act: act, K: rapid.IntRange(1, 5).Draw(rt, "failk")})
		}
	}
	return p
}

// content kinds: bytes, the client-supplied part content type, the type the server must record
func c16Content(kind, size int) (body []byte, clientType, want string) {
	fill := func(prefix string) []byte {
		b := []byte(prefix)
		for len(b) < size {
			b = append(b, byte('a'+len(b)%23))
		}
		if len(b) > size && size >= len(prefix) {
			b = b[:size]
		}
		return b
	}
	switch kind % 7 {
	case 0:
		return fill("\x89PNG\x0d\x0a\x1a\x0a"), "image/png", "image/png"
	case 1:
		return fill("<html><body>hi</body></html>"), "text/plain", "text/html; charset=utf-8"
	case 2:
		return fill("%PDF-1.4 "), "", "application/pdf"
	case 3:
		return fill("plain text, nothing special here. "), "image/png", "text/plain; charset=utf-8"
	case 4:
		b := fill("\x00\x01\x02\x03\x04\x05\x06\x07binary")
		return b, "application/x-custom", "application/x-custom"
	case 5:
		b := fill("\x00\x01\x02\x03\x04\x05\x06\x07binary")
		return b, "evil/type", "application/octet-stream"
	default:
		return fill("<?xml version=\"1.0\"?><a/>"), "text/xml", "text/xml; charset=utf-8"
	}
}

type c16Up struct {
	ID       types.Uid
	URL      string
	Bytes    []byte
	Mime     string
	Owner    int
	At       time.Duration // simulated time of completion
	Location string
}

func runC16(t *testing.T, sched simrt.Schedule, prog c16Prog) ([]Violation, RunStats) {
	uploads, downloads, collected := 0, 0, 0
	viol, st := runOne(t, sched, func(w *simWorld) []Violation {
		var out []Violation
		sc := prog.Sc
		// the upload directory belongs to the OS process: start every run with an empty one
		if ents, err := os.ReadDir(simUploadDir); err == nil {
			for _, e := range ents {
				os.Remove(simUploadDir + "/" + e.Name())
			}
		}
		w.configure(sc)
		var ups []*c16Up

		doHTTP := func(h func(http.ResponseWriter, *http.Request), req *http.Request) *httptest.ResponseRecorder {
			rw := httptest.NewRecorder()
			simrt.Go("http."+req.Method, func() { h(rw, req) })
			w.rt.Run(300*time.Millisecond, nil)
			return rw
		}
		dirState := func() string {
			ents, _ := os.ReadDir(simUploadDir)
			var names []string
			for _, e := range ents {
				if info, err := e.Info(); err == nil {
					names = append(names, fmt.Sprintf("%s:%d", e.Name(), info.Size()))
				}
			}
			sort.Strings(names)
			return strings.Join(names, ",")
		}
		unsure := false // the token is within seconds of its expiry: either answer is right
		tokenValid := func() bool {
			exp := time.Duration(simCfg.TokenExpire) * time.Second
			if d := w.rt.Now() - exp; d > -5*time.Second && d < 5*time.Second {
				unsure = true
			}
			return w.rt.Now() < exp
		}
		// credentials: returns whether they are valid now
		addAuth := func(a c16Act, u *simUser, req *http.Request, form map[string]string) (valid bool, label string) {
			tok := base64.StdEncoding.EncodeToString(u.Token)
			basic := base64.StdEncoding.EncodeToString([]byte(u.Login + ":" + u.Pass))
			switch a.Auth {
			case 0:
				req.Header.Set("X-Tinode-Auth", "Token "+tok)
				return tokenValid(), "token-header"
			case 1:
				req.Header.Set("Authorization", "Token "+tok)
				return tokenValid(), "token-authorization"
			case 2:
				q := req.URL.Query()
				q.Set("auth", "token")
				q.Set("secret", strings.NewReplacer("+", "-", "/", "_").Replace(tok))
				req.URL.RawQuery = q.Encode()
				return tokenValid(), "token-query"
			case 3:
				if form == nil {
					req.Header.Set("X-Tinode-Auth", "Basic "+basic)
					return true, "basic-header"
				}
				form["auth"], form["secret"] = "basic", basic
				return true, "basic-form"
			case 4:
				req.AddCookie(&http.Cookie{Name: "auth", Value: "basic"})
				req.AddCookie(&http.Cookie{Name: "secret", Value: basic})
				return true, "basic-cookie"
			case 5:
				// a live session id
				sid := ""
				for _, c := range w.clientsOf(u.Idx) {
					if s := w.sessionOf(c); s != nil && c.Connected {
						sid = s.sid
					}
					if c.Transport == TransportLP && c.Connected && c.lpSid != "" {
						sid = c.lpSid
					}
				}
				if sid == "" {
					return false, "sid-none"
				}
				q := req.URL.Query()
				q.Set("sid", sid)
				req.URL.RawQuery = q.Encode()
				return true, "sid"
			case 6:
				return false, "no-credentials"
			case 7:
				bad := append([]byte{}, u.Token...)
				bad[len(bad)-3] ^= 0x40
				req.Header.Set("X-Tinode-Auth", "Token "+base64.StdEncoding.EncodeToString(bad))
				return false, "forged-token"
			case 8:
				req.Header.Set("X-Tinode-Auth", "Basic "+basic)
				return true, "basic-header"
			default:
				req.Header.Set("X-Tinode-Auth", "Basic "+base64.StdEncoding.EncodeToString([]byte(u.Login+":wrong")))
				return false, "wrong-password"
			}
		}
		addKey := func(a c16Act, req *http.Request, form map[string]string) (valid bool, label string) {
			key := simAPIKeyValue()
			switch a.Key {
			case 0:
				req.Header.Set("X-Tinode-APIKey", key)
				return true, "key-header"
			case 1:
				q := req.URL.Query()
				q.Set("apikey", key)
				req.URL.RawQuery = q.Encode()
				return true, "key-query"
			case 2:
				if form == nil {
					req.Header.Set("X-Tinode-APIKey", key)
					return true, "key-header"
				}
				form["apikey"] = key
				return true, "key-form"
			case 3:
				req.AddCookie(&http.Cookie{Name: "apikey", Value: key})
				return true, "key-cookie"
			case 4:
				return false, "key-missing"
			default:
				b := []byte(key)
				b[4] ^= 1
				req.Header.Set("X-Tinode-APIKey", string(b))
				return false, "key-forged"
			}
		}
		find := func(id types.Uid) *c16Up {
			for _, u := range ups {
				if u.ID == id {
					return u
				}
			}
			return nil
		}
		// The collector loop ticks every 45-75 simulated seconds, also in the middle of other actions: an upload
		// that is not linked and older than the grace hour may disappear at any time. wasLinked remembers the
		// state at the previous check (a link removed since then makes the file collectable only from now on).
		collectedNow := 0
		dropUp := func(id types.Uid) {
			var keep []*c16Up
			for _, u := range ups {
				if u.ID != id {
					keep = append(keep, u)
				}
			}
			ups = keep
		}
		wasLinked := map[types.Uid]bool{}
		unlinkedNow := map[types.Uid]bool{} // uploads whose last link the current action removes: collectable within it
		collectable := func(u *c16Up) bool { return !wasLinked[u.ID] && w.rt.Now()-u.At > time.Hour }
		var linkedNow func(id types.Uid) bool
		var pinCheck func(id types.Uid) string
		var faultNote func(kind string) string
		failOf := map[types.Uid]map[string]bool{} // upload -> store methods that failed inside the action that listed it
		// every completed upload that the ledger says must exist does, with its bytes
		verifyStore := func(where string, mayBeGone map[types.Uid]bool) {
			for _, u := range append([]*c16Up{}, ups...) {
				row := w.Disk.FileUploads[u.ID]
				data, err := os.ReadFile(u.Location)
				if why := pinCheck(u.ID); why != "" && (row == nil || err != nil) {
					note := ""
					if len(failOf[u.ID]) > 0 {
						note = " after-failed:" + strings.Join(keys(failOf[u.ID]), "+")
					}
					out = append(out, vio("C16", "pinned-file-lost "+why+note, "%s: upload %s is still the %s of something that exists but is gone (%v old): record=%v file=%v", where, u.URL, why, w.rt.Now()-u.At, row != nil, err == nil))
					dropUp(u.ID)
					continue
				}
				if mayBeGone[u.ID] {
					if row == nil && err != nil && !unlinkedNow[u.ID] {
						continue // (the wait branch does its own bookkeeping)
					}
					if row == nil && err != nil {
						simrt.Probe("c16.collected")
						collectedNow++
						dropUp(u.ID)
					}
					continue
				}
				if row == nil && err != nil && !collectable(u) && wasLinked[u.ID] && w.rt.Now()-u.At > time.Hour {
					// its last link went with the action just executed (avatar replaced, messages or topic deleted) and a
					// collector tick fell into the same action: older than the grace hour, it was collectable at once
					if _, still := w.Disk.FileUploads[u.ID]; !still && !linkedNow(u.ID) {
						simrt.Probe("c16.collected")
						collectedNow++
						dropUp(u.ID)
						continue
					}
				}
				if row == nil && err != nil && collectable(u) {
					simrt.Probe("c16.collected")
					collectedNow++
					dropUp(u.ID)
					continue
				}
				if row == nil || err != nil {
					out = append(out, vio("C16", "file-lost", "%s: upload %s (%d bytes, by user %d) is gone: record=%v file=%v", where, u.URL, len(u.Bytes), u.Owner, row != nil, err == nil))
				} else if !bytes.Equal(data, u.Bytes) {
					out = append(out, vio("C16", "stored-bytes-differ", "%s: stored bytes of %s differ from what was uploaded", where, u.URL))
				}
			}
			for _, u := range ups {
				wasLinked[u.ID] = linkedNow(u.ID)
			}
		}
		linkedNow = func(id types.Uid) bool {
			for _, l := range w.Disk.FileLinks {
				if l.FileId == id {
					return true
				}
			}
			return false
		}
		drop := func(id types.Uid) {
			var keep []*c16Up
			for _, u := range ups {
				if u.ID != id {
					keep = append(keep, u)
				}
			}
			ups = keep
		}

		// What must stay, independent of the link table: the avatar an account shows (its stored public.photo.ref)
		// and the attachments of accepted publishes until the messages or the topic are deleted.
		msgPins := map[types.Uid]int{}
		pinnedBy := func(id types.Uid) string {
			if msgPins[id] > 0 {
				return "attachment"
			}
			for _, r := range w.Disk.Users {
				var pub map[string]any
				if json.Unmarshal(r.Public, &pub) == nil {
					if ph, ok := pub["photo"].(map[string]any); ok {
						if ref, _ := ph["ref"].(string); ref != "" && store_GetIdFromUrl(ref) == id {
							return "avatar"
						}
					}
				}
			}
			return ""
		}
		pinCheck = pinnedBy
		failAt := map[int]int{}
		for _, f := range prog.Fails {
			failAt[f.Act] = f.K
		}
		// store methods that failed, per kind of interrupted action: the loss of an avatar is attributed to the
		// failures inside avatar updates only, and so on
		failedIn := map[string]map[string]bool{}
		curKind := ""
		faultNote = func(kind string) string {
			if kind == "attachment" {
				kind = "pubatt"
			}
			if len(failedIn[kind]) == 0 {
				return ""
			}
			return " after-failed:" + strings.Join(keys(failedIn[kind]), "+")
		}
		arm := func(ai int) int {
			curKind = prog.Acts[ai].Kind
			if k := failAt[ai]; k > 0 {
				simStore.Fault = &faultPlan{FailAt: k}
				simrt.Probe("fault.store_armed")
			}
			return len(simStore.Log)
		}
		fired := func(nlog int) bool {
			f := simStore.Fault != nil && simStore.Fault.Fired
			simStore.Fault = nil
			if f {
				simrt.Probe("fault.store_err")
				for _, sc2 := range simStore.Log[nlog:] {
					if sc2.Err == errInjected.Error() {
						if failedIn[curKind] == nil {
							failedIn[curKind] = map[string]bool{}
						}
						failedIn[curKind][sc2.Method] = true
					}
				}
			}
			return f
		}

		pubN := 0
		for ai, a := range prog.Acts {
			u := w.Users[a.User%len(w.Users)]
			where := fmt.Sprintf("act %d (%s)", ai, a.Kind)
			unsure = false
			switch a.Kind {
			case "up":
				body, ctype, wantMime := c16Content(a.Content, a.Size)
				method := []string{"POST", "PUT", "GET", "DELETE", "HEAD"}[a.Method%5]
				form := map[string]string{"id": fmt.Sprintf("up%d", ai)}
				req := httptest.NewRequest(method, "/v0/file/u/", nil)
				keyOK, keyLabel := addKey(a, req, form)
				authOK, authLabel := addAuth(a, u, req, form)
				var buf bytes.Buffer
				mw := multipart.NewWriter(&buf)
				for _, k := range []string{"apikey", "auth", "secret", "id"} {
					if v, ok := form[k]; ok {
						mw.WriteField(k, v)
					}
				}
				hdr := textproto.MIMEHeader{}
				hdr.Set("Content-Disposition", `form-data; name="file"; filename="f.bin"`)
				if ctype != "" {
					hdr.Set("Content-Type", ctype)
				}
				pw, _ := mw.CreatePart(hdr)
				pw.Write(body)
				mw.Close()
				req.Body = io.NopCloser(bytes.NewReader(buf.Bytes()))
				req.ContentLength = int64(buf.Len())
				req.Header.Set("Content-Type", mw.FormDataContentType())
				req.RemoteAddr = "10.0.2.1:3000"
				tooLarge := buf.Len() > int(globals.maxFileUploadSize)
				preDisk, preDir := w.Disk.Dump(), dirState()
				nlog := arm(ai)
				rw := doHTTP(largeFileReceive, req)
				faulted := fired(nlog)
				code := rw.Code
				var resp ServerComMessage
				json.Unmarshal(rw.Body.Bytes(), &resp)
				mustSucceed := (method == "POST" || method == "PUT") && keyOK && authOK && !tooLarge && len(body) > 0 && !unsure
				mustRefuse := (method != "POST" && method != "PUT") || !keyOK || (!authOK && !unsure) || tooLarge
				accepted := code == 200 && resp.Ctrl != nil && resp.Ctrl.Params != nil && method != "HEAD"
				var upURL string
				if accepted {
					if pm, ok := resp.Ctrl.Params.(map[string]any); ok {
						upURL, _ = pm["url"].(string)
					}
					accepted = upURL != ""
				}
				if faulted && !accepted {
					// a store failure inside the upload: any answer but success is fine; what is left behind must be
					// collectable, i.e. no bytes without a record
					recs := map[string]bool{}
					for _, r := range w.Disk.FileUploads {
						recs[path.Base(r.Location)] = true
					}
					ents, _ := os.ReadDir(simUploadDir)
					for _, e := range ents {
						if !recs[e.Name()] {
							out = append(out, vio("C16", "failed-upload-bytes-orphaned"+faultNote("up"), "%s: upload answered %d after a store failure left %s in the upload directory without a record", where, code, e.Name()))
						}
					}
					verifyStore(where, nil)
					continue
				}
				switch {
				case accepted && mustRefuse:
					out = append(out, vio("C16", "upload-accepted "+keyLabel+" "+authLabel, "%s: %s upload of %d bytes (body %d, limit %d) with %s / %s answered %d url=%s", where, method, len(body), buf.Len(), globals.maxFileUploadSize, keyLabel, authLabel, code, upURL))
				case !accepted && mustSucceed:
					out = append(out, vio("C16", "valid-upload-refused "+keyLabel+" "+authLabel, "%s: %s upload of %d bytes with %s / %s answered %d %s", where, method, len(body), keyLabel, authLabel, code, strings.TrimSpace(rw.Body.String())))
				}
				if !accepted {
					c0 := collectedNow
					verifyStore(where, nil)
					if collectedNow != c0 {
						continue // the collector ran during this action: the store changed for that reason
					}
					if d := w.Disk.Dump(); d != preDisk {
						out = append(out, vio("C16", "refused-upload-changed-store", "%s: upload answered %d changed the store:\n%s", where, code, diffLines(preDisk, d)))
					}
					if d := dirState(); d != preDir {
						out = append(out, vio("C16", "refused-upload-left-bytes", "%s: upload answered %d changed the upload directory: %s -> %s", where, code, preDir, d))
					}
					// (key or credentials carried inside an oversize body cannot be read: then 403/401 is as good)
					if tooLarge && keyOK && authOK && !unsure && a.Key != 2 && a.Auth != 3 && (method == "POST" || method == "PUT") && code != 413 {
						out = append(out, vio("C16", "oversize-upload-code", "%s: upload with a body of %d bytes (limit %d) answered %d, expected 413", where, buf.Len(), globals.maxFileUploadSize, code))
					}
					continue
				}
				uploads++
				id := store_GetIdFromUrl(upURL)
				row := w.Disk.FileUploads[id]
				if id.IsZero() || row == nil {
					out = append(out, vio("C16", "upload-without-record", "%s: upload answered 200 url=%s but the store has no record of it", where, upURL))
					continue
				}
				rec := &c16Up{ID: id, URL: upURL, Bytes: body, Mime: row.MimeType, Owner: u.Idx, At: w.rt.Now(), Location: row.Location}
				ups = append(ups, rec)
				if row.Status != types.UploadCompleted || row.Size != int64(len(body)) || row.User != u.Uid {
					out = append(out, vio("C16", "upload-record-wrong", "%s: record of %s: status %d size %d user %s, expected completed, %d, %s", where, upURL, row.Status, row.Size, row.User.UserId(), len(body), u.Uid.UserId()))
				}
				if row.MimeType != wantMime {
					out = append(out, vio("C16", "upload-content-type", "%s: content kind %d (client said %q) recorded as %q, expected %q", where, a.Content%7, ctype, row.MimeType, wantMime))
				}
				verifyStore(where, nil)
			case "down":
				if len(ups) == 0 {
					continue
				}
				target := ups[(a.Ref+2*len(ups))%len(ups)]
				base := path.Base(target.URL)
				idstr := base
				if i := strings.IndexByte(base, '.'); i >= 0 {
					idstr = base[:i]
				}
				other := ups[(a.Ref+1+2*len(ups))%len(ups)]
				shapes := []struct {
					url   string
					names *c16Up // the only upload whose bytes a 200 may carry (nil: must not be 200)
				}{
					{target.URL, target},
					{target.URL + "?asatt=1", target},
					{"/v0/file/s/../s/" + base, target},
					{"/v0/file/s/" + base + "/../../../../etc/passwd", nil},
					{"http://evil.example.com/v0/file/s/" + base, nil},
					{"/v0/file/s/" + idstr + ".png.exe", target},
					{"/v0/file/s/" + idstr + "%2F..%2F" + path.Base(other.URL), target}, // encoded slashes are not path separators: the name starts with target's id
					{"/v0/file/s/AAAAAAAAAAA", nil},
					{"/v0/file/x/" + base, nil},
					{"/v0/file/s/" + simUploadDir + "/" + path.Base(target.Location), nil},
				}
				sh := shapes[a.Shape%len(shapes)]
				method := []string{"GET", "HEAD", "POST", "DELETE", "GET"}[a.Method%5]
				req := httptest.NewRequest(method, "/", nil)
				if pu, err := url.Parse(sh.url); err == nil {
					req.URL = pu
				} else {
					continue
				}
				req.RequestURI = sh.url
				keyOK, keyLabel := addKey(a, req, nil)
				authOK, authLabel := addAuth(a, u, req, nil)
				req.RemoteAddr = "10.0.2.1:3001"
				preDisk, preDir := w.Disk.Dump(), dirState()
				rw := doHTTP(largeFileServe, req)
				downloads++
				c0 := collectedNow
				verifyStore(where, nil)
				if collectedNow != c0 {
					continue
				}
				if d := w.Disk.Dump(); d != preDisk || dirState() != preDir {
					out = append(out, vio("C16", "download-changed-store", "%s: %s %s changed the store or the upload directory:\n%s", where, method, sh.url, diffLines(preDisk, d)))
				}
				gateOK := (method == "GET" || method == "HEAD") && keyOK && authOK
				if unsure {
					continue
				}
				if rw.Code == 200 && !gateOK {
					out = append(out, vio("C16", "download-served "+keyLabel+" "+authLabel, "%s: %s %s with %s / %s answered 200", where, method, sh.url, keyLabel, authLabel))
					continue
				}
				if rw.Code == 200 && method == "GET" {
					ct := rw.Header().Get("Content-Type")
					isJSONErr := strings.HasPrefix(ct, "application/json") && bytes.Contains(rw.Body.Bytes(), []byte(`"ctrl"`))
					if isJSONErr {
						continue
					}
					if sh.names == nil {
						out = append(out, vio("C16", "odd-url-served", "%s: GET %s answered 200 with %d bytes (%s)", where, sh.url, rw.Body.Len(), ct))
						continue
					}
					if !bytes.Equal(rw.Body.Bytes(), sh.names.Bytes) {
						out = append(out, vio("C16", "download-bytes-differ", "%s: GET %s returned %d bytes, the upload had %d", where, sh.url, rw.Body.Len(), len(sh.names.Bytes)))
					}
					if ct != sh.names.Mime {
						out = append(out, vio("C16", "download-content-type", "%s: GET %s returned Content-Type %q, recorded %q", where, sh.url, ct, sh.names.Mime))
					}
					m := sh.names.Mime
					active := strings.Contains(m, "html") || strings.Contains(m, "xml") || strings.HasPrefix(m, "text/") || strings.HasPrefix(m, "application/")
					att := rw.Header().Get("Content-Disposition") == "attachment"
					if active && !att {
						out = append(out, vio("C16", "active-content-inline", "%s: GET %s of type %q was not forced to be saved (Content-Disposition %q)", where, sh.url, m, rw.Header().Get("Content-Disposition")))
					}
					if !active && att != strings.Contains(sh.url, "asatt=1") {
						out = append(out, vio("C16", "disposition-wrong", "%s: GET %s of type %q has Content-Disposition %q", where, sh.url, m, rw.Header().Get("Content-Disposition")))
					}
				}
				if gateOK && sh.names != nil && method == "GET" && rw.Code != 200 && w.Disk.FileUploads[sh.names.ID] != nil {
					out = append(out, vio("C16", "valid-download-refused "+keyLabel+" "+authLabel, "%s: GET %s with %s / %s answered %d", where, sh.url, keyLabel, authLabel, rw.Code))
				}
			case "pubatt", "avatar":
				if len(ups) == 0 || len(sc.Groups) == 0 {
					continue
				}
				c := w.clientsOf(u.Idx)[0]
				if !c.Connected {
					continue
				}
				target := ups[(a.Ref+2*len(ups))%len(ups)] // negative: counted from the latest upload
				name := c01TopicName(sc, c, 0)
				var op *Op
				if a.Kind == "pubatt" {
					pubN++
					op = opPub(name, fmt.Sprintf("att%d", pubN), false)
					op.Msg.Extra = &MsgClientExtra{Attachments: []string{target.URL}}
				} else {
					op = opMsg(&ClientComMessage{Set: &MsgClientSet{Topic: "me", MsgSetQuery: MsgSetQuery{Desc: &MsgSetDesc{Public: map[string]any{"fn": "u", "photo": map[string]any{"ref": target.URL}}}}},
						Extra: &MsgClientExtra{Attachments: []string{target.URL}}})
				}
				op.Isolated = true
				nlog := arm(ai)
				w.setOps(map[int][]*Op{c.Idx: {op}})
				w.rt.Run(500*time.Millisecond, nil)
				w.Enabled(true)
				faulted := fired(nlog)
				if sx := c.Sents[len(c.Sents)-1]; faulted && sx.Code >= 200 && sx.Code < 300 {
					// the request took effect although a store call inside it failed
					for _, sc2 := range simStore.Log[nlog:] {
						if sc2.Err == errInjected.Error() {
							if failOf[target.ID] == nil {
								failOf[target.ID] = map[string]bool{}
							}
							failOf[target.ID][sc2.Method] = true
						}
					}
				}
				s := c.Sents[len(c.Sents)-1]
				if a.Kind == "pubatt" && s.Code >= 200 && s.Code < 300 && w.Disk.FileUploads[target.ID] != nil {
					msgPins[target.ID]++
				}
				if s.Code >= 200 && s.Code < 300 && w.Disk.FileUploads[target.ID] != nil && !faulted {
					if !linkedNow(target.ID) {
						out = append(out, vio("C16", "attachment-not-linked "+a.Kind, "%s: %s listing %s was accepted (%d) but the file is not linked to anything", where, a.Kind, target.URL, s.Code))
					} else {
						simrt.Probe("c16.linked_" + a.Kind)
					}
				}
				verifyStore(where, nil)
			case "delmsg", "deltopic":
				if len(sc.Groups) == 0 {
					continue
				}
				oc := w.clientsOf(sc.Groups[0].Owner)[0]
				if !oc.Connected {
					continue
				}
				var op *Op
				if a.Kind == "delmsg" {
					op = opDelMsg("@grp0", true, MsgDelRange{LowId: 1, HiId: 50})
				} else {
					op = opDelTopic("@grp0", true)
				}
				op.Isolated = true
				w.setOps(map[int][]*Op{oc.Idx: {op}})
				w.rt.Run(500*time.Millisecond, nil)
				w.Enabled(true)
				if s := oc.Sents[len(oc.Sents)-1]; s.Code >= 200 && s.Code < 300 {
					msgPins = map[types.Uid]int{}
				}
				// unlinking removes nothing by itself, but a collector tick may fall into the same action: an upload older
				// than the grace hour whose last link this action removed may be gone already
				for k := range unlinkedNow {
					delete(unlinkedNow, k)
				}
				for _, up := range ups {
					if wasLinked[up.ID] && !linkedNow(up.ID) && w.rt.Now()-up.At > time.Hour {
						unlinkedNow[up.ID] = true
					}
				}
				verifyStore(where, unlinkedNow)
			case "wait", "gc":
				d := time.Duration(a.Wait) * time.Second
				if a.Kind == "gc" {
					d = 3700 * time.Second
				}
				before := w.rt.Now()
				// what may and what must be collected by the end of the wait: unlinked and older than the grace hour
				linked := map[types.Uid]bool{}
				for _, up := range ups {
					linked[up.ID] = linkedNow(up.ID)
				}
				w.rt.Advance(d)
				simrt.Probe("fault.clock_jump")
				now := w.rt.Now()
				may, must := map[types.Uid]bool{}, map[types.Uid]bool{}
				for _, up := range ups {
					if linked[up.ID] {
						continue
					}
					// a collector tick happens every 45..75 s of simulated time
					if now-up.At > time.Hour {
						may[up.ID] = true
					}
					if now-up.At > time.Hour+80*time.Second && now-before > 80*time.Second {
						must[up.ID] = true
					}
				}
				verifyStore(where, may)
				for _, up := range append([]*c16Up{}, ups...) {
					row := w.Disk.FileUploads[up.ID]
					_, ferr := os.Stat(up.Location)
					if must[up.ID] && (row != nil || ferr == nil) {
						out = append(out, vio("C16", "unlinked-file-not-collected", "%s: %s was never linked and is %v old but was not collected (record=%v bytes=%v)", where, up.URL, now-up.At, row != nil, ferr == nil))
					}
					if (row == nil) != (ferr != nil) {
						out = append(out, vio("C16", "record-and-bytes-disagree", "%s: %s: record present=%v, bytes present=%v", where, up.URL, row != nil, ferr == nil))
					}
					if row == nil {
						collected++
						simrt.Probe("c16.collected")
						drop(up.ID)
					}
				}
			}
			if len(w.rt.Panics) > 0 {
				return out
			}
		}
		// nothing but uploads lives in the upload directory, and every record has its bytes
		known := map[string]bool{}
		for _, r := range w.Disk.FileUploads {
			known[path.Base(r.Location)] = true
			if r.Status == types.UploadCompleted {
				if _, err := os.Stat(r.Location); err != nil {
					out = append(out, vio("C16", "record-without-bytes", "at the end: completed upload %s has no file at %s", r.Id.String(), r.Location))
				}
			}
		}
		ents, _ := os.ReadDir(simUploadDir)
		for _, e := range ents {
			if !known[e.Name()] {
				out = append(out, vio("C16", "bytes-without-record", "at the end: file %s in the upload directory has no record", e.Name()))
			}
		}
		_ = find
		return out
	})
	st.Trigger = uploads >= 1 && downloads >= 1
	st.ProgHash = hashOf(prog)
	_ = collected
	return viol, st
}

func store_GetIdFromUrl(u string) types.Uid {
	base := path.Base(u)
	if i := strings.IndexByte(base, '.'); i >= 0 {
		base = base[:i]
	}
	return types.ParseUid(base)
}

func TestSim_C16(t *testing.T) {
	rapid.Check(t, func(rt *rapid.T) {
		sched := genSchedule(rt)
		prog := genC16(rt)
		viol, st := runC16(t, sched, prog)
		reportRun(rt, "C16", viol, st, map[string]any{"schedule": sched, "program": prog})
	})
}
