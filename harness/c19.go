//go:build verif

package main

// C19 — search finds only what the query and the tag rules allow.
//
// The query parser, the tag rewriter and the tag normaliser are pure functions; what a simulator can decide is
// what happens to them inside histories: tags cached by a loaded 'me', 'fnd' or group topic while credentials are
// validated and deleted, logins change, accounts are suspended and deleted and topics are unloaded and loaded
// again. One run is a sequence of isolated client requests (tag updates with reserved, masked, badly shaped tags,
// credential requests/confirmations/deletions, login changes, account and group creation with tags, searches
// through fnd.public / fnd.private, suspensions and deletions by root, waits that unload idle topics), optionally
// with one injected store failure inside a request. After every request the Disk is judged:
//   - every stored tag list is normalised (trimmed, lower case, unique, first rune letter/digit, 2..96 runes,
//     at most max_tag_count entries);
//   - tag lists and tag index agree;
//   - a request that is not a credential or login request never changes the reserved-namespace tags of any user
//     or topic, and topics never carry reserved tags;
//   - fault-free: the reserved tags of a user are exactly basic:<login> plus simcred:<value> of the confirmed
//     credentials.
// Every search is compared with an independent reading of the documented grammar: 400 for malformed and empty
// queries, 403 when a term of a masked namespace is not among the searcher's own stored tags, otherwise the
// (required, optional) term lists handed to the store, activeOnly for non-root searchers, and the set of users
// and topics in the answer = those the reference evaluation finds on the Disk.

import (
	"fmt"
	"sort"
	"strings"
	"testing"
	"time"
	"unicode"

	"github.com/tinode/chat/server/auth"
	"github.com/tinode/chat/server/simrt"
	"github.com/tinode/chat/server/store/types"
	"pgregory.net/rapid"
)

type c19Act struct {
	Client  int      `json:"c"`
	Kind    string   `json:"k"`
	Target  int      `json:"t"` // -1 = me, else group index
	Tags    []string `json:"tags,omitempty"`
	Keep    bool     `json:"keep,omitempty"` // resend the tags the target has now together with Tags
	Rep     bool     `json:"rep,omitempty"`  // with Keep on 'me': what the target has now is taken from {get tags}, not from the Disk
	Drop    []string `json:"drop,omitempty"` // with Keep: leave these out
	Query   string   `json:"q,omitempty"`
	Private bool     `json:"priv,omitempty"`
	User    int      `json:"u,omitempty"`
	Hard    bool     `json:"hard,omitempty"`
	Fail    int      `json:"fail,omitempty"`
}

type c19Prog struct {
	Sc     Scenario `json:"scenario"`
	Acts   []c19Act `json:"acts"`
	Faults bool     `json:"faults"`
}

var c19TagPool = []string{
	"flowers", "travel", "puppies", "Kittens", " nyc ", "日本", "flowers", "TRAVEL", "x", "-bad", "_hidden", "new york", "a,b",
	strings.Repeat("long", 24), strings.Repeat("z", 97), "7up", "tag.with-dots", "",
	"basic:user0", "basic:user1", "basic:user2", "BASIC:User1", " basic:user3 ", "basic:ghost", "simcred:c0@x.com", "simcred:c1@x.com", "Simcred:C2@X.com",
	"rtg:gold", "rtg:vip", "RTG:Gold", "email:a@b.c", "tel:+17025550001",
}

var c19Terms = []string{
	"flowers", "travel", "puppies", "Kittens", "nyc", "日本", "7up", "user0", "user1", "user2", "renamed0", "basic:user1", "basic:user0", "basic:ghost",
	"c0@x.com", "c1@x.com", "C2@X.com", "simcred:c1@x.com", "simcred:c0@x.com", "rtg:gold", "rtg:vip", "RTG:gold", `"new york"`, `"flowers"`, `"rtg:gold"`, `"a,b"`,
	"ab", "x", "-bad", "fl*wers", `""`, "email:a@b.c", "new_york", "tag.with-dots", "a:b:c",
}

var c19Seps = []string{" ", " ", "  ", "\t", ",", ",", ", ", " ,", " , ", ",,", ", ,", " \t "}

func genC19Query(rt *rapid.T) string {
	switch rapid.IntRange(0, 14).Draw(rt, "qshape") {
	case 0:
		return rapid.SampledFrom([]string{`"abc`, `a"b`, `flowers "travel`, `flowers,,travel`, `puppies"`, `,`, `" "`, `"flowers"travel`, `flowers , , travel`}).Draw(rt, "qbad")
	}
	var sb strings.Builder
	sb.WriteString(rapid.SampledFrom([]string{"", "", "", " ", ",", ", "}).Draw(rt, "qlead"))
	n := rapid.IntRange(1, 5).Draw(rt, "qterms")
	for i := 0; i < n; i++ {
		if i > 0 {
			sb.WriteString(rapid.SampledFrom(c19Seps).Draw(rt, "qsep"))
		}
		sb.WriteString(rapid.SampledFrom(c19Terms).Draw(rt, "qterm"))
	}
	sb.WriteString(rapid.SampledFrom([]string{"", "", "", " ", ",", " ,"}).Draw(rt, "qtrail"))
	return sb.String()
}

func genC19(rt *rapid.T) c19Prog {
	p := c19Prog{Sc: genScenario(rt, 4, 2, true)}
	p.Faults = rapid.IntRange(0, 3).Draw(rt, "faults") == 0
	n := rapid.IntRange(6, 24).Draw(rt, "nacts")
	for i := 0; i < n; i++ {
		a := c19Act{
			Client: rapid.IntRange(0, 7).Draw(rt, "client"),
			Kind: rapid.SampledFrom([]string{"settags", "settags", "settags", "fnd", "fnd", "fnd", "fnd", "addcred", "confirm", "confirm", "delcred", "chlogin",
				"newgrp", "newacc", "susp", "unsusp", "deluser", "deltopic", "leavefnd", "reme", "wait", "gettags"}).Draw(rt, "kind"),
			Target: rapid.IntRange(-1, 1).Draw(rt, "target"),
			User:   rapid.IntRange(0, 3).Draw(rt, "user"),
		}
		switch a.Kind {
		case "settags", "newgrp", "newacc":
			k := rapid.IntRange(0, 6).Draw(rt, "ntags")
			for j := 0; j < k; j++ {
				a.Tags = append(a.Tags, rapid.SampledFrom(c19TagPool).Draw(rt, "tag"))
			}
			a.Keep = rapid.Bool().Draw(rt, "keep")
			if rapid.IntRange(0, 9).Draw(rt, "clear") == 0 {
				a.Tags = []string{"␡"}
				a.Keep = false
			}
		case "fnd":
			a.Query = genC19Query(rt)
			a.Private = rapid.IntRange(0, 3).Draw(rt, "private") == 0
		case "deluser", "deltopic":
			a.Hard = rapid.Bool().Draw(rt, "hard")
		}
		if p.Faults && rapid.IntRange(0, 3).Draw(rt, "faulty") == 0 {
			a.Fail = rapid.IntRange(1, 4).Draw(rt, "failat")
		}
		p.Acts = append(p.Acts, a)
	}
	// scripted sequences (one per run at most), appended so that earlier draws keep their positions
	pc := rapid.IntRange(0, 7).Draw(rt, "pclient")
	switch rapid.IntRange(0, 5).Draw(rt, "pattern") {
	case 1: // a masked tag is given up while fnd stays loaded
		p.Acts = append(p.Acts, c19Act{Client: pc, Kind: "settags", Target: -1, Tags: []string{"rtg:gold"}, Keep: true},
			c19Act{Client: pc, Kind: "fnd", Query: "flowers"},
			c19Act{Client: pc, Kind: "settags", Target: -1, Keep: true, Drop: []string{"rtg:gold"}},
			c19Act{Client: pc, Kind: "fnd", Query: "rtg:gold"})
	case 2: // the login changes while 'me' stays loaded, then the client edits its tags starting from what it was told
		p.Acts = append(p.Acts, c19Act{Client: pc, Kind: "chlogin"},
			c19Act{Client: pc, Kind: "settags", Target: -1, Tags: []string{"flowers"}, Keep: true, Rep: true})
	case 3: // a credential is confirmed and deleted again, then tags are edited from what the client was told
		p.Acts = append(p.Acts, c19Act{Client: pc, Kind: "addcred"}, c19Act{Client: pc, Kind: "confirm"},
			c19Act{Client: pc, Kind: "settags", Target: -1, Tags: []string{"travel"}, Keep: true, Rep: true},
			c19Act{Client: pc, Kind: "delcred"},
			c19Act{Client: pc, Kind: "settags", Target: -1, Tags: []string{"puppies"}, Keep: true, Rep: true})
	}
	return p
}

// ---- the reference reading of the query grammar (docs/API.md "Query language", "Query rewrite") ----

func c19TagChar(r rune) bool {
	return unicode.IsLetter(r) || unicode.IsNumber(r) || strings.ContainsRune("-_+.!?#@", r)
}

func c19Body(s string) bool {
	n := 0
	for _, r := range s {
		if !c19TagChar(r) {
			return false
		}
		n++
	}
	return n >= 1 && n <= 96
}

// c19Namespace returns the namespace of a prefixed tag ("" when the tag is not of the form ns:body).
func c19Namespace(tag string) string {
	i := strings.IndexByte(tag, ':')
	if i < 2 || i > 16 {
		return ""
	}
	ns := tag[:i]
	for k, r := range ns {
		if k == 0 && (r < 'a' || r > 'z') {
			return ""
		}
		if !(r == '_' || (r >= '0' && r <= '9') || (r >= 'a' && r <= 'z') || (r >= 'A' && r <= 'Z')) {
			return ""
		}
	}
	if !c19Body(tag[i+1:]) {
		return ""
	}
	return ns
}

func c19LoginLike(s string) bool {
	rs := []rune(s)
	if len(rs) < 3 || len(rs) > 32 {
		return false
	}
	ln := func(r rune) bool { return unicode.IsLetter(r) || unicode.IsNumber(r) }
	if !ln(rs[0]) || !ln(rs[len(rs)-1]) {
		return false
	}
	for _, r := range rs {
		if !ln(r) && r != '_' && r != '.' {
			return false
		}
	}
	return true
}

// c19Rewrite: the prefixed form of a term that looks like a credential or (public queries) a login; "" when the
// term is not a legal tag at all; the term itself otherwise.
func c19Rewrite(term string, public bool) string {
	if c19Namespace(term) != "" {
		return term
	}
	if strings.Contains(term, "@") && len(term) <= 64 { // the stub validator's notion of "looks like a credential"
		return simCredName + ":" + term
	}
	if public && c19LoginLike(term) {
		return "basic:" + term
	}
	if c19Body(term) {
		return term
	}
	return ""
}

// c19RefParse returns the required groups and the optional terms, and "ok", "malformed" or "unsure" (a shape the
// documentation does not speak about).
func c19RefParse(q string, public bool) (req [][]string, opt []string, verdict string) {
	rs := []rune(strings.TrimSpace(q))
	type term struct {
		text string
		or   bool
	}
	var terms []*term
	commas := 0
	sep := func(r rune) bool { return r == ' ' || r == '\t' || r == ',' }
	closeRun := func(next *term) bool {
		if commas > 1 {
			return false
		}
		if commas == 1 {
			if next != nil {
				next.or = true
			}
			if len(terms) > 0 {
				terms[len(terms)-1].or = true
			}
		}
		commas = 0
		return true
	}
	for i := 0; i < len(rs); {
		r := rs[i]
		switch {
		case r == ' ' || r == '\t':
			i++
		case r == ',':
			commas++
			i++
		default:
			var tm *term
			if r == '"' {
				j := i + 1
				for j < len(rs) && rs[j] != '"' {
					j++
				}
				if j >= len(rs) {
					return nil, nil, "malformed" // unterminated quote
				}
				if j+1 < len(rs) && !sep(rs[j+1]) {
					return nil, nil, "malformed" // a word or a quote glued to a closing quote
				}
				tm = &term{text: string(rs[i+1 : j])}
				i = j + 1
			} else {
				j := i
				for j < len(rs) && !sep(rs[j]) && rs[j] != '"' {
					j++
				}
				if j < len(rs) && rs[j] == '"' {
					return nil, nil, "malformed" // a quote glued to a word
				}
				tm = &term{text: string(rs[i:j])}
				i = j
			}
			if !closeRun(tm) {
				return nil, nil, "malformed" // doubled commas
			}
			terms = append(terms, tm)
		}
	}
	if !closeRun(nil) {
		return nil, nil, "malformed"
	}
	for _, tm := range terms {
		text := strings.ToLower(tm.text)
		if text == "" {
			continue
		}
		rw := c19Rewrite(text, public)
		if rw == "" {
			continue
		}
		group := []string{text}
		if rw != text {
			group = append(group, rw)
		}
		if tm.or {
			opt = append(opt, group...)
		} else {
			req = append(req, group)
		}
	}
	return req, opt, "ok"
}

func c19Match(tags []string, req [][]string, opt []string) bool {
	has := map[string]bool{}
	for _, t := range tags {
		has[t] = true
	}
	any := false
	for _, g := range req {
		hit := false
		for _, t := range g {
			if has[t] {
				hit = true
			}
		}
		if !hit {
			return false
		}
		any = true
	}
	for _, t := range opt {
		if has[t] {
			any = true
		}
	}
	return any
}

func c19Canon(req [][]string, opt []string) string {
	var gs []string
	for _, g := range req {
		g2 := append([]string{}, g...)
		sort.Strings(g2)
		gs = append(gs, strings.Join(g2, "|"))
	}
	sort.Strings(gs)
	o2 := append([]string{}, opt...)
	sort.Strings(o2)
	return "req[" + strings.Join(gs, " & ") + "] opt[" + strings.Join(o2, " ") + "]"
}

// ---- judging stored tags ----

var c19Reserved = map[string]bool{"basic": true, simCredName: true}

func c19ReservedOf(tags []string) []string {
	var out []string
	for _, t := range tags {
		if c19Reserved[c19Namespace(t)] {
			out = append(out, t)
		}
	}
	sort.Strings(out)
	return out
}

func c19Normal(tags []string, maxCount int) string {
	if len(tags) > maxCount {
		return fmt.Sprintf("%d tags, the limit is %d", len(tags), maxCount)
	}
	seen := map[string]bool{}
	for _, t := range tags {
		rs := []rune(t)
		switch {
		case t != strings.TrimSpace(t):
			return fmt.Sprintf("tag %q is not trimmed", t)
		case t != strings.ToLower(t):
			return fmt.Sprintf("tag %q is not lower case", t)
		case seen[t]:
			return fmt.Sprintf("tag %q is stored twice", t)
		case len(rs) < 2 || len(rs) > 96:
			return fmt.Sprintf("tag %q is %d runes long", t, len(rs))
		case !unicode.IsLetter(rs[0]) && !unicode.IsDigit(rs[0]):
			return fmt.Sprintf("tag %q does not start with a letter or digit", t)
		}
		seen[t] = true
	}
	return ""
}

func sameStrings(a, b []string) bool {
	a2 := append([]string{}, a...)
	b2 := append([]string{}, b...)
	sort.Strings(a2)
	sort.Strings(b2)
	return strings.Join(a2, "\x00") == strings.Join(b2, "\x00")
}

func runC19(t *testing.T, sched simrt.Schedule, prog c19Prog) ([]Violation, RunStats) {
	refusedUpd, mixedQuery, searches := 0, 0, 0
	viol, st := runOne(t, sched, func(w *simWorld) []Violation {
		var out []Violation
		sc := prog.Sc
		w.configure(sc)
		logins := map[types.Uid]string{}
		for _, u := range w.Users {
			logins[u.Uid] = u.Login
		}
		gone := map[int]bool{}              // users deleted by root
		tainted := map[types.Uid]bool{}     // users touched by a request with an injected store failure
		pendingCode := map[types.Uid]string{} // last validation code sent to the user
		nAcc, nRename := 0, 0

		exec := func(c *SimClient, op *Op) *Sent {
			op.Isolated = true
			op.AutoConnect = true
			n := len(c.Sents)
			w.setOps(map[int][]*Op{c.Idx: {op}})
			w.rt.Run(300*time.Millisecond, nil)
			w.Enabled(true)
			if len(c.Sents) > n {
				return c.Sents[len(c.Sents)-1]
			}
			return nil
		}
		code := func(c *SimClient, s *Sent) int {
			if s == nil {
				return -1
			}
			if s.Code != 0 {
				return s.Code
			}
			for i := len(c.Frames) - 1; i >= 0; i-- {
				f := c.Frames[i]
				if f.Ev < s.Ev {
					break
				}
				if f.Msg.Meta != nil && f.Msg.Meta.Id == s.Id {
					return 200
				}
			}
			return 0
		}
		type tagState struct {
			users  map[types.Uid][]string
			topics map[string][]string
		}
		grab := func() tagState {
			ts := tagState{users: map[types.Uid][]string{}, topics: map[string][]string{}}
			for uid, r := range w.Disk.Users {
				ts.users[uid] = append([]string{}, r.Tags...)
			}
			for name, r := range w.Disk.Topics {
				ts.topics[name] = append([]string{}, r.Tags...)
			}
			return ts
		}
		maxCount := simCfg.MaxTagCount
		judgeDisk := func(where string, before tagState, mayChange types.Uid, faulted bool) {
			for uid, r := range w.Disk.Users {
				if why := c19Normal(r.Tags, maxCount); why != "" {
					key := "stored-tags-not-normalised"
					if strings.Contains(why, "the limit is") {
						key = "stored-tags-over-count"
					}
					out = append(out, vio("C19", key, "%s: user %s: %s (tags %q)", where, uid.UserId(), why, r.Tags))
				}
				if !sameStrings(r.Tags, w.Disk.UserTags[uid]) {
					out = append(out, vio("C19", "tag-index-differs", "%s: user %s: tags column %q, tag index %q", where, uid.UserId(), r.Tags, w.Disk.UserTags[uid]))
				}
				if old, ok := before.users[uid]; ok && uid != mayChange {
					if a, b := c19ReservedOf(old), c19ReservedOf(r.Tags); !sameStrings(a, b) {
						out = append(out, vio("C19", "reserved-tags-changed-by-client", "%s: reserved tags of user %s changed from %q to %q", where, uid.UserId(), a, b))
					}
				}
				if !faulted && !tainted[uid] && r.State != types.StateDeleted {
					var want []string
					if l := logins[uid]; l != "" {
						want = append(want, "basic:"+l)
					}
					for _, cr := range w.Disk.Credentials {
						if cr.User == uid && cr.Done && cr.DeletedAt == nil && cr.Method == simCredName {
							want = append(want, simCredName+":"+cr.Value)
						}
					}
					if got := c19ReservedOf(r.Tags); !sameStrings(got, want) {
						out = append(out, vio("C19", "reserved-tags-out-of-sync", "%s: user %s carries reserved tags %q; login and confirmed credentials give %q", where, uid.UserId(), got, want))
					}
				}
			}
			for name, r := range w.Disk.Topics {
				if why := c19Normal(r.Tags, maxCount); why != "" {
					out = append(out, vio("C19", "stored-tags-not-normalised", "%s: topic %s: %s (tags %q)", where, name, why, r.Tags))
				}
				if !sameStrings(r.Tags, w.Disk.TopicTags[name]) {
					out = append(out, vio("C19", "tag-index-differs", "%s: topic %s: tags column %q, tag index %q", where, name, r.Tags, w.Disk.TopicTags[name]))
				}
				if rs := c19ReservedOf(r.Tags); len(rs) > 0 {
					out = append(out, vio("C19", "topic-carries-reserved-tags", "%s: topic %s carries %q", where, name, rs))
				}
			}
		}
		judgeDisk("after configure", grab(), types.ZeroUid, false)

		rootClient := func() *SimClient {
			if sc.Root < 0 {
				return nil
			}
			cs := w.clientsOf(sc.Root)
			if len(cs) == 0 {
				return nil
			}
			return cs[0]
		}

		for ai, a := range prog.Acts {
			c := w.Clients[a.Client%len(w.Clients)]
			u := c.User
			if gone[u.Idx] {
				continue
			}
			where := fmt.Sprintf("act %d (%s by user %d)", ai, a.Kind, u.Idx)
			before := grab()
			arm := func() {
				if a.Fail > 0 && prog.Faults {
					simStore.Fault = &faultPlan{FailAt: a.Fail}
					simrt.Probe("fault.store_armed")
				}
			}
			fired := func() bool {
				f := simStore.Fault != nil && simStore.Fault.Fired
				simStore.Fault = nil
				if f {
					simrt.Probe("fault.store_err")
				}
				return f
			}
			mayChange := types.ZeroUid
			faulted := false
			switch a.Kind {
			case "settags":
				topic := "me"
				var cur []string
				if a.Target >= 0 {
					if a.Target >= len(w.Groups) || w.Groups[a.Target] == "" {
						continue
					}
					topic = w.Groups[a.Target]
					if r := w.Disk.Topics[topic]; r != nil {
						cur = r.Tags
					}
				} else if r := w.Disk.Users[u.Uid]; r != nil {
					cur = r.Tags
				}
				tags := append([]string{}, a.Tags...)
				exec(c, opSub(topic, "", ""))
				if a.Keep && a.Rep && topic == "me" {
					n := len(c.Frames)
					if s := exec(c, opGet("me", "tags")); s != nil {
						cur = nil
						for _, f := range c.Frames[n:] {
							if f.Msg.Meta != nil && f.Msg.Meta.Id == s.Id {
								cur = f.Msg.Meta.Tags
							}
						}
					}
				}
				if a.Keep {
					for _, t := range cur {
						dropped := false
						for _, d := range a.Drop {
							if d == t {
								dropped = true
							}
						}
						if !dropped {
							tags = append(tags, t)
						}
					}
				}
				arm()
				s := exec(c, opMsg(&ClientComMessage{Set: &MsgClientSet{Topic: topic, MsgSetQuery: MsgSetQuery{Tags: tags}}}))
				faulted = fired()
				if rc := code(c, s); rc == 403 {
					refusedUpd++
					simrt.Probe("c19.tag_update_refused")
					if faulted {
						break
					}
					after := grab()
					if topic == "me" && !sameStrings(before.users[u.Uid], after.users[u.Uid]) {
						out = append(out, vio("C19", "refused-tag-update-changed-tags", "%s: answered 403 but the stored tags went from %q to %q", where, before.users[u.Uid], after.users[u.Uid]))
					}
				} else if rc >= 200 && rc < 300 {
					simrt.Probe("c19.tag_update_accepted")
				}
			case "gettags":
				exec(c, opSub("me", "", ""))
				n := len(c.Frames)
				s := exec(c, opGet("me", "tags"))
				if s == nil {
					continue
				}
				for _, f := range c.Frames[n:] {
					if f.Msg.Meta != nil && f.Msg.Meta.Id == s.Id && f.Msg.Meta.Tags != nil {
						if r := w.Disk.Users[u.Uid]; r != nil && !sameStrings(r.Tags, f.Msg.Meta.Tags) && !tainted[u.Uid] {
							out = append(out, vio("C19", "reported-tags-differ-from-stored", "%s: {meta tags} %q, stored %q", where, f.Msg.Meta.Tags, r.Tags))
						}
					}
				}
			case "addcred":
				exec(c, opSub("me", "", ""))
				mayChange = u.Uid
				nreq := len(simCred.Requests)
				arm()
				exec(c, opMsg(&ClientComMessage{Set: &MsgClientSet{Topic: "me", MsgSetQuery: MsgSetQuery{Cred: &MsgCredClient{Method: simCredName, Value: fmt.Sprintf("C%d@x.com", u.Idx)}}}}))
				faulted = fired()
				if len(simCred.Requests) > nreq {
					pendingCode[u.Uid] = simCred.Requests[len(simCred.Requests)-1].Resp
				}
			case "confirm":
				if pendingCode[u.Uid] == "" {
					continue
				}
				exec(c, opSub("me", "", ""))
				mayChange = u.Uid
				arm()
				s := exec(c, opMsg(&ClientComMessage{Set: &MsgClientSet{Topic: "me", MsgSetQuery: MsgSetQuery{Cred: &MsgCredClient{Method: simCredName, Response: pendingCode[u.Uid]}}}}))
				faulted = fired()
				if rc := code(c, s); rc >= 200 && rc < 300 {
					simrt.Probe("c19.cred_confirmed")
				}
			case "delcred":
				exec(c, opSub("me", "", ""))
				mayChange = u.Uid
				arm()
				s := exec(c, opMsg(&ClientComMessage{Del: &MsgClientDel{Topic: "me", What: "cred", Cred: &MsgCredClient{Method: simCredName, Value: fmt.Sprintf("c%d@x.com", u.Idx)}}}))
				faulted = fired()
				if rc := code(c, s); rc >= 200 && rc < 300 {
					simrt.Probe("c19.cred_deleted")
				}
			case "chlogin":
				nRename++
				login := fmt.Sprintf("renamed%d", u.Idx)
				if logins[u.Uid] == login {
					login = fmt.Sprintf("user%d", u.Idx)
				}
				mayChange = u.Uid
				arm()
				s := exec(c, opMsg(&ClientComMessage{Acc: &MsgClientAcc{User: "", Scheme: "basic", Secret: []byte(login + ":" + u.Pass)}}))
				faulted = fired()
				if rc := code(c, s); rc >= 200 && rc < 300 {
					logins[u.Uid] = login
					u.Login = login
					simrt.Probe("c19.login_changed")
				}
			case "newgrp":
				arm()
				op := opSub("new", "", "")
				op.Msg.Sub.Set = &MsgSetQuery{Tags: append([]string{}, a.Tags...)}
				s := exec(c, op)
				faulted = fired()
				if rc := code(c, s); rc == 403 {
					refusedUpd++
					simrt.Probe("c19.tag_update_refused")
				}
			case "newacc":
				nAcc++
				login := fmt.Sprintf("fresh%d", nAcc)
				arm()
				s := exec(c, opMsg(&ClientComMessage{Acc: &MsgClientAcc{User: "new", Scheme: "basic", Secret: []byte(login + ":secret123"),
					Desc: &MsgSetDesc{Public: map[string]any{"fn": login}}, Tags: append([]string{}, a.Tags...)}}))
				faulted = fired()
				rc := code(c, s)
				if rc == 403 {
					refusedUpd++
					simrt.Probe("c19.tag_update_refused")
				}
				for uid := range w.Disk.Users {
					if _, ok := before.users[uid]; !ok {
						logins[uid] = login
						if faulted {
							tainted[uid] = true
						}
					}
				}
			case "susp", "unsusp":
				rc := rootClient()
				tu := w.Users[a.User%len(w.Users)]
				if rc == nil || tu.Idx == sc.Root || gone[tu.Idx] {
					continue
				}
				state := "susp"
				if a.Kind == "unsusp" {
					state = "ok"
				}
				exec(rc, opMsg(&ClientComMessage{Acc: &MsgClientAcc{User: tu.Uid.UserId(), State: state}}))
				simrt.Probe("c19.account_" + a.Kind)
			case "deluser":
				rc := rootClient()
				tu := w.Users[a.User%len(w.Users)]
				if rc == nil || tu.Idx == sc.Root || gone[tu.Idx] {
					continue
				}
				exec(rc, opMsg(&ClientComMessage{Del: &MsgClientDel{What: "user", User: tu.Uid.UserId(), Hard: a.Hard}}))
				gone[tu.Idx] = true
				mayChange = tu.Uid
				simrt.Probe("c19.account_deleted")
			case "deltopic":
				if a.Target < 0 || a.Target >= len(w.Groups) || w.Groups[a.Target] == "" {
					continue
				}
				oc := w.clientsOf(sc.Groups[a.Target].Owner)
				if len(oc) == 0 || gone[sc.Groups[a.Target].Owner] {
					continue
				}
				exec(oc[0], opSub(w.Groups[a.Target], "", ""))
				exec(oc[0], opDelTopic(w.Groups[a.Target], a.Hard))
				simrt.Probe("c19.topic_deleted")
			case "leavefnd":
				exec(c, opLeave("fnd", false))
			case "reme":
				exec(c, opLeave("me", false))
			case "wait":
				w.runPhase(nil)
			case "fnd":
				sr := w.Disk.Users[u.Uid]
				if sr == nil || sr.State != types.StateOK {
					continue
				}
				exec(c, opSub("fnd", "", ""))
				desc := &MsgSetDesc{Public: a.Query}
				if a.Private {
					desc = &MsgSetDesc{Public: "␡", Private: a.Query}
				}
				s0 := exec(c, opMsg(&ClientComMessage{Set: &MsgClientSet{Topic: "fnd", MsgSetQuery: MsgSetQuery{Desc: desc}}}))
				if rc := code(c, s0); rc >= 400 || rc <= 0 {
					continue
				}
				req, opt, verdict := c19RefParse(a.Query, !a.Private)
				mine := append([]string{}, w.Disk.UserTags[u.Uid]...)
				nlog := len(simStore.Log)
				nfr := len(c.Frames)
				arm()
				s := exec(c, opGet("fnd", "sub"))
				faulted = fired()
				if s == nil || faulted {
					break
				}
				searches++
				rc := code(c, s)
				var gotReq [][]string
				var gotOpt []string
				var gotActive, called bool
				for _, sc2 := range simStore.Log[nlog:] {
					if sc2.Method == "FindUsers" && len(sc2.Args) == 4 {
						gotReq, _ = sc2.Args[1].([][]string)
						gotOpt, _ = sc2.Args[2].([]string)
						gotActive, _ = sc2.Args[3].(bool)
						called = true
					}
				}
				switch verdict {
				case "unsure":
					simrt.Probe("c19.query_shape_not_documented")
				case "malformed":
					simrt.Probe("c19.query_malformed")
					if rc != 400 {
						out = append(out, vio("C19", "malformed-query-accepted", "%s: query %q answered %d, store called: %v %s", where, a.Query, rc, called, c19Canon(gotReq, gotOpt)))
					}
				default:
					if len(req) == 0 && len(opt) == 0 {
						if rc != 400 {
							out = append(out, vio("C19", "empty-query-accepted", "%s: query %q has no usable terms but was answered %d", where, a.Query, rc))
						}
						break
					}
					if len(req) > 0 && len(opt) > 0 {
						mixedQuery++
						simrt.Probe("c19.query_and_or")
					}
					var denied []string
					masked := 0
					for _, term := range append(types.FlattenDoubleSlice(req), opt...) {
						if globals.maskedTagNS[c19Namespace(term)] {
							masked++
							carried := false
							for _, m := range mine {
								if m == term {
									carried = true
								}
							}
							if !carried {
								denied = append(denied, term)
							}
						}
					}
					if len(denied) > 0 {
						simrt.Probe("c19.masked_term_denied")
						if rc != 403 {
							out = append(out, vio("C19", "masked-term-searched-by-non-carrier", "%s: query %q uses %q which user %d does not carry (tags %q): answered %d", where, a.Query, denied, u.Idx, mine, rc))
						}
						break
					}
					if rc == 403 && masked > 0 {
						// the property only forbids searching by masked tags one does not carry; refusing a query that names
						// carried ones (the same term twice is refused) is stricter than needed but not a violation
						simrt.Probe("c19.carried_masked_term_refused")
						break
					}
					if rc == 403 {
						out = append(out, vio("C19", "search-wrongly-denied", "%s: query %q (%s) by user %d carrying %q answered 403", where, a.Query, c19Canon(req, opt), u.Idx, mine))
						break
					}
					if rc == 400 {
						out = append(out, vio("C19", "well-formed-query-rejected", "%s: query %q (%s) answered 400", where, a.Query, c19Canon(req, opt)))
						break
					}
					if !called {
						out = append(out, vio("C19", "search-not-executed", "%s: query %q answered %d without a store search", where, a.Query, rc))
						break
					}
					if want, got := c19Canon(req, opt), c19Canon(gotReq, gotOpt); want != got {
						out = append(out, vio("C19", "query-misread", "%s: query %q (public=%v) should read %s, the store was asked %s", where, a.Query, !a.Private, want, got))
						break
					}
					isRoot := u.Level == auth.LevelRoot
					if gotActive == isRoot {
						out = append(out, vio("C19", "active-only-flag-wrong", "%s: searcher level %v, activeOnly=%v", where, u.Level, gotActive))
					}
					want := map[string]bool{}
					for uid, r := range w.Disk.Users {
						if uid == u.Uid || (!isRoot && r.State != types.StateOK) {
							continue
						}
						if c19Match(w.Disk.UserTags[uid], req, opt) {
							want[uid.UserId()] = true
						}
					}
					for name, r := range w.Disk.Topics {
						if !isRoot && r.State != types.StateOK {
							continue
						}
						if c19Match(w.Disk.TopicTags[name], req, opt) {
							want[name] = true
						}
					}
					got := map[string]bool{}
					for _, f := range c.Frames[nfr:] {
						if f.Msg.Meta != nil && f.Msg.Meta.Id == s.Id {
							for _, sub := range f.Msg.Meta.Sub {
								name := sub.Topic
								if name == "" {
									name = sub.User
								}
								if strings.HasPrefix(name, "chn") {
									name = "grp" + name[3:]
								}
								got[name] = true
							}
						}
					}
					for name := range got {
						if !want[name] {
							what := "does not match the query"
							if uid := types.ParseUserId(name); !uid.IsZero() {
								if r := w.Disk.Users[uid]; r != nil && r.State != types.StateOK {
									what = fmt.Sprintf("is in state %v", r.State)
								} else if uid == u.Uid {
									what = "is the searcher"
								}
							} else if r := w.Disk.Topics[name]; r != nil && r.State != types.StateOK {
								what = fmt.Sprintf("is in state %v", r.State)
							}
							key := "search-shows-unmatched"
							if strings.HasPrefix(what, "is in state") {
								key = "search-shows-inactive"
							}
							out = append(out, vio("C19", key, "%s: query %q (%s) by user %d returned %s which %s", where, a.Query, c19Canon(req, opt), u.Idx, name, what))
						}
					}
					for name := range want {
						if !got[name] {
							out = append(out, vio("C19", "search-misses-match", "%s: query %q (%s) by user %d did not return %s", where, a.Query, c19Canon(req, opt), u.Idx, name))
						}
					}
					simrt.Probe("c19.search_judged")
				}
			}
			if faulted {
				if mayChange != types.ZeroUid {
					tainted[mayChange] = true
				}
				tainted[u.Uid] = true
			}
			judgeDisk(where, before, mayChange, faulted)
		}
		return out
	})
	st.Trigger = refusedUpd >= 1 && searches >= 1
	_ = mixedQuery
	st.ProgHash = hashOf(prog)
	return viol, st
}

func TestSim_C19(t *testing.T) {
	rapid.Check(t, func(rt *rapid.T) {
		sched := genSchedule(rt)
		prog := genC19(rt)
		viol, st := runC19(t, sched, prog)
		reportRun(rt, "C19", viol, st, map[string]any{"schedule": sched, "program": prog})
	})
}
