//go:build verif

package main

// Boot of one simulated server process ("world") inside a synctest bubble: the equivalent of main()
// with every subsystem pointed at a simulated counterpart.

import (
	"encoding/base64"
	"encoding/json"
	"fmt"
	"os"
	"sort"
	"strings"
	"time"

	"github.com/tinode/chat/server/auth"
	"github.com/tinode/chat/server/db/simdb"
	"github.com/tinode/chat/server/logs"
	"github.com/tinode/chat/server/push"
	"github.com/tinode/chat/server/simrt"
	"github.com/tinode/chat/server/store"
	"github.com/tinode/chat/server/store/types"
	"golang.org/x/crypto/bcrypt"
)

// SimConfig is the per-process server configuration (swarm knob). The authenticators refuse a
// second Init, so everything that feeds them is fixed for the life of the OS process.
type SimConfig struct {
	MaxSubscriberCount int      `json:"max_subscriber_count"`
	MaxTagCount        int      `json:"max_tag_count"`
	MaskedTags         []string `json:"masked_tags"`
	Calls              bool     `json:"calls"`
	CallTimeout        int      `json:"call_timeout"`
	Media              bool     `json:"media"`
	MaxFileUpload      int64    `json:"max_file_upload"`
	TokenExpire        int      `json:"token_expire"`
	TokenSerial        int      `json:"token_serial"`
	TokenKey           string   `json:"token_key"`
	CodeExpire         int      `json:"code_expire"`
	CodeRetries        int      `json:"code_retries"`
	RequireCred        bool     `json:"require_cred"`
	PermanentAccounts  bool     `json:"permanent_accounts"`
	MaxMessageResults  int      `json:"max_message_results"`
	Push               bool     `json:"push"`
	AccountGC          bool     `json:"account_gc"`
}

var (
	simCfg       SimConfig
	simAdapter   *simdb.Adapter
	zeroGlobals  = globals
	simUploadDir string
	simAPIKey    string
	procInitDone bool
)

const simAPISalt = "T713/rYYgW7g4m3vG6zGRh7+FM1t0T8j13koXScOAj4="
const simUidKey = "la6YsO+bNX/+XIkOqc5Svw=="

func defaultSimConfig() SimConfig {
	return SimConfig{
		MaxSubscriberCount: 5, MaxTagCount: 8, MaskedTags: []string{"rtg"},
		Calls: true, CallTimeout: 6, Media: true, MaxFileUpload: 4096,
		TokenExpire: 3600, TokenSerial: 1, TokenKey: "wfaY2RgF2S1OQI/ZlK+LSrp1KB2jwAdGAIHQ7JZn+Kc=",
		CodeExpire: 900, CodeRetries: 3, MaxMessageResults: 100, Push: true,
	}
}

// procInit does what can be done only once per OS process.
func procInit(cfg SimConfig) {
	if procInitDone {
		return
	}
	procInitDone = true
	simCfg = cfg
	logs.Init(simLog, "stdFlags")
	simAdapter = simdb.New()
	store.RegisterAdapter(simAdapter)
	push.Register("simpush", simPush)
	store.RegisterValidator("simcred", simCred)

	must(store.InitAuthLogicalNames(json.RawMessage(`[]`)))
	authConf := map[string]string{
		"basic":     `{"add_to_tags": true, "min_login_length": 3, "min_password_length": 3}`,
		"token":     fmt.Sprintf(`{"expire_in": %d, "serial_num": %d, "key": %q}`, cfg.TokenExpire, cfg.TokenSerial, cfg.TokenKey),
		"code":      fmt.Sprintf(`{"expire_in": %d, "max_retries": %d, "code_length": 6}`, cfg.CodeExpire, cfg.CodeRetries),
		"anonymous": `{}`,
	}
	names := store.Store.GetAuthNames()
	sort.Strings(names)
	for _, name := range names {
		hdl := store.Store.GetLogicalAuthHandler(name)
		if hdl == nil {
			continue
		}
		if conf, ok := authConf[hdl.GetRealName()]; ok {
			must(hdl.Init(json.RawMessage(conf), name))
		}
	}
	must(simCred.Init(""))
	simOrderKeys()
}

func must(err error) {
	if err != nil {
		panic(err)
	}
}

// simBoot starts one server incarnation on the given Disk. Called from the bubble's root goroutine
// after simrt.NewWorld.
func simBoot(disk *simdb.Disk) {
	cfg := simCfg
	globals = zeroGlobals
	usersCache = nil
	store.SimReset()
	simAdapter.Disk = disk
	if cfg.MaxMessageResults > 0 {
		simAdapter.MaxMessageResults = cfg.MaxMessageResults
	}
	simAdapter.Hooks = simdb.Hooks{Before: simStoreBefore, After: simStoreAfter}
	must(store.Store.Open(1, json.RawMessage(fmt.Sprintf(`{"uid_key": %q, "max_results": 1024, "use_adapter": "simdb"}`, simUidKey))))

	globals.apiKeySalt, _ = base64.StdEncoding.DecodeString(simAPISalt)
	globals.immutableTagNS = map[string]bool{}
	names := store.Store.GetAuthNames()
	sort.Strings(names)
	for _, name := range names {
		if hdl := store.Store.GetLogicalAuthHandler(name); hdl != nil && hdl.IsInitialized() {
			tags, err := hdl.RestrictedTags()
			must(err)
			for _, tag := range tags {
				globals.immutableTagNS[tag] = true
			}
		}
	}
	// Validator "simcred": restrictive (adds tags), required for auth level only when configured.
	globals.immutableTagNS["simcred"] = true
	globals.validators = map[string]credValidator{}
	if cfg.RequireCred {
		globals.authValidators = map[auth.Level][]string{auth.LevelAuth: {"simcred"}}
		globals.validators["simcred"] = credValidator{requiredAuthLvl: []auth.Level{auth.LevelAuth}, addToTags: true}
		globals.validatorClientConfig = map[string][]string{auth.LevelAuth.String(): {"simcred"}}
	} else {
		globals.validators["simcred"] = credValidator{addToTags: true}
	}
	globals.maskedTagNS = map[string]bool{}
	for _, t := range cfg.MaskedTags {
		globals.maskedTagNS[t] = true
	}
	globals.maxMessageSize = defaultMaxMessageSize
	globals.maxSubscriberCount = cfg.MaxSubscriberCount
	if globals.maxSubscriberCount <= 1 {
		globals.maxSubscriberCount = defaultMaxSubscriberCount
	}
	globals.maxTagCount = cfg.MaxTagCount
	if globals.maxTagCount <= 0 {
		globals.maxTagCount = defaultMaxTagCount
	}
	globals.permanentAccounts = cfg.PermanentAccounts
	globals.defaultCountryCode = defaultCountryCode
	globals.xFrameOptions = "SAMEORIGIN"
	globals.wsCompression = false
	globals.servingAt = "http://sim:6060/"

	if cfg.Media {
		globals.maxFileUploadSize = cfg.MaxFileUpload
		must(os.MkdirAll(simUploadDir, 0o755))
		must(store.Store.UseMediaHandler("fs", fmt.Sprintf(`{"upload_dir": %q}`, simUploadDir)))
		globals.mediaGcPeriod = 60 * time.Second
		largeFileRunGarbageCollection(globals.mediaGcPeriod, 100)
	}
	if cfg.AccountGC {
		garbageCollectUsers(3600*time.Second, 10, 30)
	}
	if cfg.Push {
		_, err := push.Init(json.RawMessage(`[{"name":"simpush","config":{}}]`))
		must(err)
	}
	if cfg.Calls {
		must(initVideoCalls(json.RawMessage(fmt.Sprintf(
			`{"enabled": true, "call_establishment_timeout": %d, "ice_servers": [{"urls": ["stun:stun.example.com"]}]}`, cfg.CallTimeout))))
	}
	globals.sessionStore = NewSessionStore(idleSessionTimeout + 15*time.Second)
	globals.hub = newHub()
	usersInit()
}

// simShutdown closes the store (the Disk survives) after the world's tasks were killed.
func simShutdown() {
	store.Store.Close()
	simPush.reset()
}

// ---------------------------------------------------------------------------------------------
// Store hooks: every adapter call is a scheduling point, an entry in the argument log and a fault point.

type storeCall struct {
	Seq    int
	Method string
	Args   []any
	Err    string
	Step   int
	Ev     int // world event number at entry
	Inc    int // server incarnation
}

type faultPlan struct {
	// FailAt: global store-call ordinal (1-based, counted from arming) that fails; 0 = none.
	FailAt int
	// FailMethod: restrict FailAt counting to this method ("" = any).
	FailMethod string
	// CrashAt: global store-call ordinal at whose entry (Before) or exit (After) the process dies.
	CrashAt    int
	CrashAfter bool
	count      int
	Fired      bool
	Crashed    bool
	FiredEv    int // world event number when it fired
}

type storeSim struct {
	Log     []storeCall
	KeepLog bool
	Calls   map[string]int
	Fault   *faultPlan
	Errs    int
	OnCrash func()
	Slow    time.Duration
}

var simStore = &storeSim{Calls: map[string]int{}}

var errInjected = fmt.Errorf("simdb: injected store failure")

func (s *storeSim) reset() {
	*s = storeSim{Calls: map[string]int{}, KeepLog: true}
}

func simStoreBefore(method string, args ...any) error {
	s := simStore
	simrt.Yield("store:" + method)
	s.Calls[method]++
	if s.KeepLog {
		step := 0
		if simrt.W != nil {
			step = simrt.W.Steps
		}
		inc := 0
		if curWorld != nil {
			inc = curWorld.Inc
		}
		s.Log = append(s.Log, storeCall{Seq: len(s.Log) + 1, Method: method, Args: args, Step: step, Ev: curEv(), Inc: inc})
	}
	if f := s.Fault; f != nil && !f.Fired && simrt.W != nil {
		if f.FailMethod == "" || f.FailMethod == method {
			f.count++
			if f.FailAt > 0 && f.count == f.FailAt {
				f.Fired = true
				f.FiredEv = curEv()
				s.Errs++
				return errInjected
			}
			if f.CrashAt > 0 && f.count == f.CrashAt && !f.CrashAfter {
				f.Fired, f.Crashed = true, true
				f.FiredEv = curEv()
				simrt.CrashNow()
			}
		}
	}
	if s.Slow > 0 {
		simrt.Sleep(s.Slow)
	}
	return nil
}

func simStoreAfter(method string, err error) {
	s := simStore
	if s.KeepLog && len(s.Log) > 0 && err != nil {
		s.Log[len(s.Log)-1].Err = err.Error()
	}
	if f := s.Fault; f != nil && !f.Fired && simrt.W != nil && f.CrashAfter {
		if (f.FailMethod == "" || f.FailMethod == method) && f.CrashAt > 0 && f.count == f.CrashAt {
			f.Fired, f.Crashed = true, true
			f.FiredEv = curEv()
			simrt.CrashNow()
		}
	}
	simrt.Yield("store-ret:" + method)
}

// ---------------------------------------------------------------------------------------------
// Users seeded directly on the Disk (through the real store API, before clients connect).

type simUser struct {
	CredDone bool
	Idx      int
	Uid      types.Uid
	Login    string
	Pass     string
	Level    auth.Level
	Token    []byte
}

var bcryptCache = map[string][]byte{}

func cheapHash(pass string) []byte {
	if h, ok := bcryptCache[pass]; ok {
		return h
	}
	h, err := bcrypt.GenerateFromPassword([]byte(pass), bcrypt.MinCost)
	must(err)
	bcryptCache[pass] = h
	return h
}

// seedUser creates an account the way replyCreateUser + basic.AddRecord would, minus bcrypt cost.
func seedUser(idx int, level auth.Level, defAuth, defAnon types.AccessMode) *simUser {
	login := fmt.Sprintf("user%d", idx)
	pass := fmt.Sprintf("pass%d", idx)
	var user types.User
	user.Access.Auth = defAuth
	user.Access.Anon = defAnon
	user.Public = map[string]any{"fn": login}
	user.Tags = []string{"basic:" + login}
	if _, err := store.Users.Create(&user, nil); err != nil {
		panic(err)
	}
	must(store.Users.AddAuthRecord(user.Uid(), level, "basic", login, cheapHash(pass), time.Time{}))
	u := &simUser{Idx: idx, Uid: user.Uid(), Login: login, Pass: pass, Level: level}
	tok, _, err := store.Store.GetLogicalAuthHandler("token").GenSecret(&auth.Rec{
		Uid: u.Uid, AuthLevel: level, Features: auth.FeatureValidated})
	must(err)
	u.Token = tok
	return u
}

var curWorld *simWorld

func curEv() int {
	if curWorld != nil {
		return curWorld.ev
	}
	return 0
}

// logScanner receives the server's log output: counts overload messages per run, optionally echoes to stderr.
type logScanner struct {
	counts map[string]int
	echo   bool
}

var simLog = &logScanner{counts: map[string]int{}, echo: os.Getenv("SIM_LOG") != ""}

var logPhrases = []string{"queue full", "queue2 full", "channel full", "queue is full", "connection stuck", "ERROR", "outbound queue limit exceeded"}

func (l *logScanner) Write(p []byte) (int, error) {
	s := string(p)
	for _, ph := range logPhrases {
		if strings.Contains(s, ph) {
			l.counts[ph]++
		}
	}
	if l.echo {
		os.Stderr.Write(p)
	}
	return len(p), nil
}

func (l *logScanner) count(phrase string) int { return l.counts[phrase] }
func (l *logScanner) reset()                  { l.counts = map[string]int{} }

func storeUsersUpsertCred(uid types.Uid, method, value string) (bool, error) {
	return store.Users.UpsertCred(&types.Credential{User: uid.String(), Method: method, Value: value, Done: true})
}
