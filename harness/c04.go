//go:build verif

package main

// C04 — history shows exactly what was published and not deleted; deletion is exact.

import (
	"fmt"
	"reflect"
	"sort"
	"testing"
	"time"

	"github.com/tinode/chat/server/simrt"
	"github.com/tinode/chat/server/store/types"
	"pgregory.net/rapid"
)

type c04Act struct {
	Client int      `json:"c"`
	Kind   string   `json:"k"` // del, getdata, getdel, pub, unsub, resub, want, reload
	Topic  int      `json:"t"`
	Ranges [][2]int `json:"r,omitempty"`
	Hard   bool     `json:"hard,omitempty"`
	Since  int      `json:"since,omitempty"`
	Before int      `json:"before,omitempty"`
	Limit  int      `json:"limit,omitempty"`
	Mode   string   `json:"m,omitempty"`
	// Fail: inject a store failure into this delete: 1 = MessageDeleteList (first write of the transaction),
	// 2 = TopicUpdate, 3 = SubsUpdate (later writes: what was written before stays, a recorded finding)
	Fail int `json:"fail,omitempty"`
}

type c04Prog struct {
	Sc    Scenario `json:"scenario"`
	NMsgs int      `json:"n_msgs"`
	Acts  []c04Act `json:"acts"`
}

func genRanges(rt *rapid.T, last int) [][2]int {
	n := rapid.IntRange(1, 4).Draw(rt, "nranges")
	var out [][2]int
	for i := 0; i < n; i++ {
		low := rapid.IntRange(1, last).Draw(rt, "low")
		if rapid.IntRange(0, 11).Draw(rt, "oddlow") == 0 {
			low = rapid.SampledFrom([]int{-1, 0, last + 1, last + 2}).Draw(rt, "lowodd")
		}
		var hi int
		switch rapid.IntRange(0, 11).Draw(rt, "hishape") {
		case 0:
			hi = 0
		case 1:
			hi = low
		case 2:
			hi = low + 1
		case 3:
			hi = last + 1 + rapid.IntRange(0, 5).Draw(rt, "beyond")
		case 4:
			hi = low - 1 // inverted (or negative)
		default:
			hi = low + rapid.IntRange(2, 5).Draw(rt, "span")
		}
		out = append(out, [2]int{low, hi})
		if len(out) >= 2 && rapid.IntRange(0, 2).Draw(rt, "relate") == 0 {
			// make this range touch / be adjacent to / duplicate the previous one
			p := out[len(out)-2]
			pend := p[1]
			if pend <= p[0] {
				pend = p[0] + 1
			}
			switch rapid.IntRange(0, 3).Draw(rt, "rel") {
			case 0:
				out[len(out)-1] = [2]int{pend, pend + 2} // adjacent
			case 1:
				out[len(out)-1] = [2]int{pend + 1, pend + 2} // touching with a gap of one id
			case 2:
				out[len(out)-1] = p // duplicate
			case 3:
				out[len(out)-1] = [2]int{pend, 0} // single id right after a range
			}
		}
	}
	if rapid.Bool().Draw(rt, "shuffle") && len(out) > 1 {
		out[0], out[len(out)-1] = out[len(out)-1], out[0]
	}
	return out
}

func genC04(rt *rapid.T) c04Prog {
	p := c04Prog{Sc: genScenario(rt, 4, 2, false)}
	p.NMsgs = rapid.IntRange(4, 14).Draw(rt, "nmsgs")
	n := rapid.IntRange(3, 14).Draw(rt, "nacts")
	for i := 0; i < n; i++ {
		a := c04Act{
			Client: rapid.IntRange(0, 7).Draw(rt, "client"),
			Kind:   rapid.SampledFrom([]string{"del", "del", "del", "getdata", "getdata", "getdel", "getdel", "pub", "unsub", "resub", "want", "reload"}).Draw(rt, "kind"),
			Topic:  rapid.IntRange(0, 2).Draw(rt, "topic"),
		}
		switch a.Kind {
		case "del":
			per := p.NMsgs / (len(p.Sc.Groups) + len(p.Sc.P2P))
			if per < 2 {
				per = 2
			}
			a.Ranges = genRanges(rt, per)
			a.Hard = rapid.Bool().Draw(rt, "hard")
		case "getdata", "getdel":
			if rapid.Bool().Draw(rt, "opts") {
				a.Since = rapid.IntRange(-1, p.NMsgs+2).Draw(rt, "since")
				a.Before = rapid.IntRange(-1, p.NMsgs+3).Draw(rt, "before")
				a.Limit = rapid.SampledFrom([]int{0, 0, 1, 2, 3, 200, -1}).Draw(rt, "limit")
			}
		case "want":
			a.Mode = rapid.SampledFrom([]string{"JRWPS", "JWP", "JRWPSD", "JRP", "JRWPASDO", "JR"}).Draw(rt, "mode")
		}
		p.Acts = append(p.Acts, a)
	}
	// store faults are drawn last so that the draws above keep their positions
	if rapid.IntRange(0, 2).Draw(rt, "faults") == 0 {
		for i := range p.Acts {
			if p.Acts[i].Kind == "del" {
				p.Acts[i].Fail = rapid.SampledFrom([]int{0, 1, 1, 1, 2, 3}).Draw(rt, "fail")
			}
		}
	}
	return p
}

type c04Msg struct {
	Seq  int
	Tag  string
	From string
	Ts   time.Time
}

type c04Tx struct {
	DelID   int
	ForUser types.Uid // zero = hard
	IDs     map[int]bool
}

type c04Topic struct {
	Msgs  map[int]*c04Msg
	Hard  map[int]bool
	Soft  map[types.Uid]map[int]bool
	Txs   []c04Tx
	DelID int
}

type c04Ledger struct {
	T map[string]*c04Topic
}

func (l *c04Ledger) topic(name string) *c04Topic {
	t := l.T[name]
	if t == nil {
		t = &c04Topic{Msgs: map[int]*c04Msg{}, Hard: map[int]bool{}, Soft: map[types.Uid]map[int]bool{}}
		l.T[name] = t
	}
	return t
}

func (t *c04Topic) last() int {
	m := 0
	for s := range t.Msgs {
		if s > m {
			m = s
		}
	}
	return m
}

// visible: ids a user must see in history.
func (t *c04Topic) visible(u types.Uid) []int {
	var out []int
	for s := range t.Msgs {
		if !t.Hard[s] && !t.Soft[u][s] {
			out = append(out, s)
		}
	}
	sort.Ints(out)
	return out
}

func expandRanges(rs []MsgDelRange) map[int]bool {
	out := map[int]bool{}
	for _, r := range rs {
		if r.HiId == 0 {
			out[r.LowId] = true
			continue
		}
		for i := r.LowId; i < r.HiId && i < r.LowId+100000; i++ {
			out[i] = true
		}
	}
	return out
}

func setKeys(m map[int]bool) []int {
	var out []int
	for k, v := range m {
		if v {
			out = append(out, k)
		}
	}
	sort.Ints(out)
	return out
}

// diskVisible computes, from the simulated disk by the store contract, what a user sees.
func diskVisible(w *simWorld, topic string, u types.Uid) []int {
	var out []int
	for _, m := range w.Disk.Messages[topic] {
		if m.DelId != 0 {
			continue
		}
		hidden := false
		for _, d := range w.Disk.Dellog {
			if d.Topic == topic && d.DeletedFor == u && m.SeqId >= d.Low && m.SeqId < d.Hi {
				hidden = true
			}
		}
		if !hidden {
			out = append(out, m.SeqId)
		}
	}
	sort.Ints(out)
	return out
}

type c04Exp struct {
	Kind     string
	Topic    string
	User     types.Uid
	FrameLen int
	DiskDump string
	AsChan   bool
	Attached bool
	Reader   bool
	Deleter  bool
	LastID   int
	Obvious  bool // the delete list contains a negative / inverted / beyond-last-low entry
	Union    map[int]bool
	Hard     bool
	PreDelID int
}

func runC04(t *testing.T, sched simrt.Schedule, prog c04Prog) ([]Violation, RunStats) {
	trigger := false
	viol, st := runOne(t, sched, func(w *simWorld) []Violation {
		var out []Violation
		sc := prog.Sc
		w.configure(sc)
		ntop := len(sc.Groups) + len(sc.P2P)
		if ntop == 0 {
			return nil
		}
		led := &c04Ledger{T: map[string]*c04Topic{}}
		// population phase: everybody who can write publishes in turn
		tagN := 0
		ops := map[int][]*Op{}
		for i := 0; i < prog.NMsgs; i++ {
			c := w.Clients[i%len(w.Clients)]
			ti := i % ntop
			tagN++
			ops[c.Idx] = append(ops[c.Idx], opPub(c01TopicName(sc, c, ti), fmt.Sprintf("m%d@%d", tagN, ti), false))
		}
		w.runPhase(ops)
		// ledger from the publishers' own acknowledgements and echoes
		record := func() {
			for _, c := range w.Clients {
				for _, s := range c.Sents {
					if s.Msg != nil && s.Msg.Pub != nil && s.Code == 202 {
						tname := w.globalName(c, s.Msg.Pub.Topic)
						seq := toInt(s.Ctrl.Params.(map[string]any)["seq"])
						lt := led.topic(tname)
						if lt.Msgs[seq] == nil {
							tag, _ := s.Msg.Pub.Content.(string)
							m := &c04Msg{Seq: seq, Tag: tag, From: c.User.Uid.UserId()}
							for _, f := range c.Frames {
								if f.Msg.Data != nil && f.Msg.Data.SeqId == seq && f.Msg.Data.Content == any(tag) {
									m.Ts = f.Msg.Data.Timestamp
								}
							}
							lt.Msgs[seq] = m
						}
					}
				}
			}
		}
		record()
		twoRange := false
		followUp := false
		w.OnIsoFire = func(p *isoProbe) {
			if p.Sent == nil || p.Sent.Msg == nil {
				return
			}
			m := p.Sent.Msg
			e := &c04Exp{FrameLen: len(p.C.Frames), DiskDump: w.Disk.Dump(), User: p.C.User.Uid}
			var name string
			switch {
			case m.Del != nil && m.Del.What == "msg":
				e.Kind, name = "del", m.Del.Topic
			case m.Get != nil && m.Get.What == "data":
				e.Kind, name = "getdata", m.Get.Topic
			case m.Get != nil && m.Get.What == "del":
				e.Kind, name = "getdel", m.Get.Topic
			default:
				return
			}
			e.Topic = w.globalName(p.C, name)
			e.AsChan = len(name) > 3 && name[:3] == "chn"
			ts := p.Pre.Topics[e.Topic]
			for _, s := range p.Pre.Sessions {
				if s.Client == p.C.Idx {
					for _, sub := range s.Subs {
						if sub == e.Topic {
							e.Attached = true
						}
					}
				}
			}
			if ts != nil {
				pud := ts.PerUser[e.User]
				mode := pud.Want & pud.Given
				e.Reader = mode&types.ModeRead != 0
				e.Deleter = mode&types.ModeDelete != 0
				e.LastID = ts.LastID
				e.PreDelID = ts.DelID
			}
			if e.Kind == "del" {
				e.Hard = m.Del.Hard && e.Deleter
				e.Union = map[int]bool{}
				for _, r := range m.Del.DelSeq {
					if r.LowId < 0 || r.HiId < 0 || (r.HiId > 0 && r.LowId > r.HiId) || r.LowId > e.LastID {
						e.Obvious = true
					}
					hi := r.HiId
					if hi == 0 || hi == r.LowId {
						hi = r.LowId + 1
					}
					for i := r.LowId; i < hi && i <= e.LastID; i++ {
						if i >= 1 {
							e.Union[i] = true
						}
					}
				}
			}
			p.Exp = e
		}
		abandon := false
		w.OnIsoDone = func(p *isoProbe, post *Snapshot) {
			e, _ := p.Exp.(*c04Exp)
			if e == nil {
				return
			}
			s := p.Sent
			lt := led.topic(e.Topic)
			frames := p.C.Frames[e.FrameLen:]
			switch e.Kind {
			case "del":
				accepted := s.Code >= 200 && s.Code < 300
				if !e.Attached {
					if accepted {
						out = append(out, vio("C04", "delete-unattached-accepted", "delete on %s by a session not attached was answered %d", e.Topic, s.Code))
					}
					return
				}
				mustReject := e.AsChan || !e.Reader
				if accepted && mustReject {
					out = append(out, vio("C04", "delete-without-permission", "user without read permission (or channel reader) deleted messages in %s: code %d", e.Topic, s.Code))
				}
				if accepted && e.Obvious {
					out = append(out, vio("C04", "invalid-range-accepted", "delete list %v (last id %d) was accepted", canon(s.Msg.Del.DelSeq), e.LastID))
				}
				failed := simStore.Fault != nil && simStore.Fault.Fired
				failMethod := ""
				if simStore.Fault != nil {
					failMethod = simStore.Fault.FailMethod
				}
				simStore.Fault = nil
				if failed {
					simrt.Probe("fault.store_err")
					if accepted {
						out = append(out, vio("C04", "failed-delete-accepted", "delete on %s answered %d although the store call %s failed", e.Topic, s.Code, failMethod))
					}
					if ts := post.Topics[e.Topic]; ts != nil && ts.DelID != e.PreDelID {
						out = append(out, vio("C04", "failed-delete-consumed-number", "delete on %s failed in the store (%s) but the live delete counter moved %d -> %d", e.Topic, failMethod, e.PreDelID, ts.DelID))
					}
					if failMethod != "MessageDeleteList" {
						// the transaction's first write went through: messages are hidden and logged although the
						// request was answered with an error. Recorded finding; the ledger cannot follow, stop here.
						if d := w.Disk.Dump(); d != e.DiskDump {
							out = append(out, vio("C04", "store-fault-partial-effect del-msg", "delete on %s answered %d after %s failed; the store keeps:\n%s", e.Topic, s.Code, failMethod, diffLines(e.DiskDump, d)))
						}
						abandon = true
						return
					}
				}
				if !accepted {
					if s.Code < 400 {
						out = append(out, vio("C04", "delete-rejected-without-error", "delete %v answered %d", canon(s.Msg.Del.DelSeq), s.Code))
					}
					if d := w.Disk.Dump(); d != e.DiskDump {
						out = append(out, vio("C04", "rejected-delete-changed-store", "delete answered %d changed the store:\n%s", s.Code, diffLines(e.DiskDump, d)))
					}
					return
				}
				if len(s.Msg.Del.DelSeq) >= 2 {
					twoRange = true
				}
				// apply to the ledger
				lt.DelID++
				tx := c04Tx{DelID: lt.DelID, IDs: map[int]bool{}}
				for id := range e.Union {
					tx.IDs[id] = true
					if e.Hard {
						lt.Hard[id] = true
					} else {
						if lt.Soft[e.User] == nil {
							lt.Soft[e.User] = map[int]bool{}
						}
						lt.Soft[e.User][id] = true
					}
				}
				if !e.Hard {
					tx.ForUser = e.User
				}
				lt.Txs = append(lt.Txs, tx)
				// {ctrl params.del}: the gRPC codec drops params of type map[string]int (C20 territory), so the
				// transaction number is read from the live topic and the store instead.
				if ts := post.Topics[e.Topic]; ts != nil && ts.DelID != lt.DelID {
					out = append(out, vio("C04", "delete-transaction-number", "delete on %s: live delete counter %d, expected %d", e.Topic, ts.DelID, lt.DelID))
				}
				if p.C.Transport == TransportLP {
					if pm, ok := s.Ctrl.Params.(map[string]any); !ok || toInt(pm["del"]) != lt.DelID {
						out = append(out, vio("C04", "delete-transaction-number-reply", "delete on %s answered params %v, expected del=%d", e.Topic, canon(s.Ctrl.Params), lt.DelID))
					}
				}
				if tr := w.Disk.Topics[e.Topic]; tr != nil && tr.DelId != lt.DelID {
					out = append(out, vio("C04", "delete-transaction-number-store", "delete on %s: stored delete counter %d, expected %d", e.Topic, tr.DelId, lt.DelID))
				}
				// exactness on the store, for every subscriber
				for _, u := range w.Users {
					got := diskVisible(w, e.Topic, u.Uid)
					want := lt.visible(u.Uid)
					if !reflect.DeepEqual(got, want) && !(len(got) == 0 && len(want) == 0) {
						kind := "delete-hides-outside-union"
						if len(got) > len(want) {
							kind = "delete-misses-listed-id"
						}
						out = append(out, vio("C04", kind, "after delete %v (hard=%v) by user %d on %s (last id %d): user %d sees %v in the store, ledger says %v",
							canon(s.Msg.Del.DelSeq), e.Hard, p.C.User.Idx, e.Topic, e.LastID, u.Idx, got, want))
						break
					}
				}
				if e.Hard {
					for _, m := range w.Disk.Messages[e.Topic] {
						if lt.Hard[m.SeqId] && (m.Content != nil && string(m.Content) != "null") {
							out = append(out, vio("C04", "hard-delete-content-kept", "hard-deleted message %d of %s still has content %s", m.SeqId, e.Topic, m.Content))
						}
					}
				}
			case "getdata":
				if !e.Attached {
					return
				}
				var got []*MsgServerData
				for _, f := range frames {
					if f.Msg.Data != nil {
						got = append(got, f.Msg.Data)
					}
				}
				var want []int
				if e.Reader {
					opts := s.Msg.Get.Data
					since, before, limit := 0, 0, 0
					if opts != nil {
						since, before, limit = opts.SinceId, opts.BeforeId, opts.Limit
					}
					for _, id := range lt.visible(e.User) {
						if since > 0 && id < since {
							continue
						}
						if before > 0 && id >= before {
							continue
						}
						want = append(want, id)
					}
					max := simAdapter.MaxMessageResults
					if limit > 0 && limit < max {
						max = limit
					}
					sort.Sort(sort.Reverse(sort.IntSlice(want)))
					if len(want) > max {
						want = want[:max]
					}
				}
				var gotIDs []int
				for _, d := range got {
					gotIDs = append(gotIDs, d.SeqId)
				}
				sort.Sort(sort.Reverse(sort.IntSlice(gotIDs)))
				if !reflect.DeepEqual(gotIDs, want) && !(len(gotIDs) == 0 && len(want) == 0) {
					out = append(out, vio("C04", "history-wrong-set", "get data %v by user %d on %s (reader=%v): got ids %v, expected %v", canon(s.Msg.Get.Data), p.C.User.Idx, e.Topic, e.Reader, gotIDs, want))
					return
				}
				followUp = true
				for _, d := range got {
					m := lt.Msgs[d.SeqId]
					if m == nil {
						continue
					}
					wantFrom := m.From
					if e.AsChan {
						wantFrom = ""
					}
					if d.Content != any(m.Tag) || d.From != wantFrom || (!m.Ts.IsZero() && !d.Timestamp.Equal(m.Ts)) {
						out = append(out, vio("C04", "history-wrong-fields", "history of %s seq %d: got content=%v from=%q ts=%v, published %q by %q at %v", e.Topic, d.SeqId, d.Content, d.From, d.Timestamp, m.Tag, wantFrom, m.Ts))
					}
					if w.globalName(p.C, d.Topic) != e.Topic {
						out = append(out, vio("C04", "history-wrong-topic", "history answer for %s carries topic %q", e.Topic, d.Topic))
					}
				}
				// closing ctrl
				if s.Ctrl != nil {
					if len(got) > 0 {
						pm, _ := s.Ctrl.Params.(map[string]any)
						if toInt(pm["count"]) != len(got) {
							out = append(out, vio("C04", "history-count", "closing ctrl reports %v for %d data frames", canon(s.Ctrl.Params), len(got)))
						}
					}
				}
			case "getdel":
				if !e.Attached || !e.Reader {
					return
				}
				opts := s.Msg.Get.Del
				if p.C.Transport == TransportGRPC {
					opts = nil // the gRPC codec does not carry get.del options (pbGetQuerySerialize)
				}
				since, before := 0, 0
				if opts != nil {
					since, before = opts.SinceId, opts.BeforeId
					if opts.Limit != 0 {
						return // row limits of the deletion log are not modelled
					}
				}
				want := map[int]bool{}
				for _, tx := range lt.Txs {
					if !tx.ForUser.IsZero() && tx.ForUser != e.User {
						continue
					}
					if since > 0 && tx.DelID < since {
						continue
					}
					if before > 1 && tx.DelID >= before {
						continue
					}
					for id := range tx.IDs {
						want[id] = true
					}
				}
				got := map[int]bool{}
				for _, f := range frames {
					if f.Msg.Meta != nil && f.Msg.Meta.Del != nil {
						for id := range expandRanges(f.Msg.Meta.Del.DelSeq) {
							if id >= 1 {
								got[id] = true
							}
						}
					}
				}
				if !reflect.DeepEqual(setKeys(got), setKeys(want)) {
					kind := "deletion-log-reports-extra"
					if len(setKeys(got)) < len(setKeys(want)) {
						kind = "deletion-log-misses"
					}
					out = append(out, vio("C04", kind, "get del %v by user %d on %s: reported ids %v, deleted for that user %v", canon(opts), p.C.User.Idx, e.Topic, setKeys(got), setKeys(want)))
				}
			}
		}
		// act phase: everything isolated and sequential
		acts := map[int][]*Op{}
		var order []*SimClient
		for _, a := range prog.Acts {
			c := w.Clients[a.Client%len(w.Clients)]
			name := c01TopicName(sc, c, a.Topic)
			var op *Op
			switch a.Kind {
			case "del":
				var rs []MsgDelRange
				for _, r := range a.Ranges {
					rs = append(rs, MsgDelRange{LowId: r[0], HiId: r[1]})
				}
				op = opDelMsg(name, a.Hard, rs...)
			case "getdata":
				op = opGet(name, "data")
				if a.Since != 0 || a.Before != 0 || a.Limit != 0 {
					op.Msg.Get.Data = &MsgGetOpts{SinceId: a.Since, BeforeId: a.Before, Limit: a.Limit}
				}
			case "getdel":
				op = opGet(name, "del")
				if a.Since != 0 || a.Before != 0 {
					op.Msg.Get.Del = &MsgGetOpts{SinceId: a.Since, BeforeId: a.Before}
				}
			case "pub":
				tagN++
				op = opPub(name, fmt.Sprintf("m%d@%d", tagN, a.Topic%ntop), false)
			case "unsub":
				op = opLeave(name, true)
			case "resub":
				op = opSub(name, "", "")
			case "want":
				op = opSetSub(name, "", a.Mode)
			case "reload":
				op = opLeave(name, false)
			}
			op.Isolated = true
			_ = order
			if a.Kind == "del" && a.Fail > 0 {
				simStore.Fault = &faultPlan{FailAt: 1, FailMethod: []string{"MessageDeleteList", "TopicUpdate", "SubsUpdate"}[a.Fail-1]}
				simrt.Probe("fault.store_armed")
			}
			// run strictly one after another: each act is its own mini phase
			acts = map[int][]*Op{c.Idx: {op}}
			w.setOps(acts)
			if r := w.rt.Run(500*time.Millisecond, nil); r != simrt.RunQuiescent {
				out = append(out, vio("C14", "livelock", "run result %d", r))
				return out
			}
			w.Enabled(true)
			simStore.Fault = nil
			if abandon {
				break
			}
			// a p2p topic whose two subscriptions are gone is deleted with its messages; subscribing again makes a
			// new topic of the same name that starts empty
			for tn := range led.T {
				if len(tn) > 3 && tn[:3] == "p2p" && w.Disk.Topics[tn] == nil {
					delete(led.T, tn)
					simrt.Probe("c04.p2p_topic_deleted")
				}
			}
			if a.Kind == "pub" {
				record()
			}
			if a.Kind == "unsub" {
				// the store drops the user's soft-deletion log together with the subscription
				if s := c.Sents[len(c.Sents)-1]; s.Code >= 200 && s.Code < 300 && s.Code != 204 {
					lt := led.topic(w.globalName(c, s.Msg.Leave.Topic))
					delete(lt.Soft, c.User.Uid)
					var keep []c04Tx
					for _, tx := range lt.Txs {
						if tx.ForUser != c.User.Uid {
							keep = append(keep, tx)
						}
					}
					lt.Txs = keep
				}
			}
			if a.Kind == "reload" {
				// everybody leaves, the topic idles out (4 s), one client comes back
				lv := map[int][]*Op{}
				for _, oc := range w.Clients {
					if oc != c {
						lv[oc.Idx] = []*Op{opLeave(c01TopicName(sc, oc, a.Topic), false)}
					}
				}
				w.runPhase(lv)
				simrt.Probe("c04.reload")
				back := map[int][]*Op{}
				for _, oc := range w.Clients {
					back[oc.Idx] = []*Op{opSub(c01TopicName(sc, oc, a.Topic), "", "")}
				}
				w.setOps(back)
				w.rt.Run(500*time.Millisecond, nil)
			}
		}
		w.settle()
		trigger = twoRange && followUp
		return out
	})
	st.Trigger = trigger
	st.ProgHash = hashOf(prog)
	return viol, st
}

func TestSim_C04(t *testing.T) {
	rapid.Check(t, func(rt *rapid.T) {
		sched := genSchedule(rt)
		prog := genC04(rt)
		viol, st := runC04(t, sched, prog)
		reportRun(rt, "C04", viol, st, map[string]any{"schedule": sched, "program": prog})
	})
}
