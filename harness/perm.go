//go:build verif

package main

// C06 — a group topic has exactly one owner at all times.
// C07 — permissions change only through authorised requests; bans and limits stick.
// C08 — the live topic state and the stored state never diverge (direct cache/store comparison and
//       failed-request-has-no-effect under injected store failures; see c08.go for the reload twin runs).
// One workload ("perm"): isolated permission-affecting requests from every kind of actor.

import (
	"fmt"
	"regexp"
	"sort"
	"strings"
	"testing"
	"time"

	"github.com/tinode/chat/server/auth"
	"github.com/tinode/chat/server/simrt"
	"github.com/tinode/chat/server/store/types"
	"pgregory.net/rapid"
)

type permAct struct {
	Client int    `json:"c"`
	Kind   string `json:"k"`
	Topic  int    `json:"t"`
	Target int    `json:"u"`
	Mode   string `json:"m"`
	Fail   int    `json:"fail,omitempty"` // k-th store call of this request fails (0 = none)
	// As overrides the acting client: "owner" = a session of the topic's owner (first participant of a
	// p2p topic), "target" = a session of user Target. Used by the multi-step patterns.
	As string `json:"as,omitempty"`
}

type permProg struct {
	Sc       Scenario  `json:"scenario"`
	Stranger bool      `json:"stranger"` // an extra user who is subscribed to nothing
	Acts     []permAct `json:"acts"`
	Faults   bool      `json:"faults"`
	Track    bool      `json:"track,omitempty"` // C05: fold the recorded notifications into per-session permission trackers
}

var permModes = []string{"", "N", "JRWPS", "JRWPASDO", "JRWPA", "JRWPAS", "JRWPSO", "RWP", "JP", "O", "JRWPASD", "J", "XYZ", "jrwps", "JRWPSD", "JRWPASO"}

func genPerm(rt *rapid.T, faults bool, lateFaults ...bool) permProg {
	lateFaults0 := len(lateFaults) > 0 && lateFaults[0]
	p := permProg{Sc: genScenario(rt, 4, 2, true), Faults: faults}
	p.Stranger = rapid.Bool().Draw(rt, "stranger")
	n := rapid.IntRange(4, 18).Draw(rt, "nacts")
	kinds := []string{"sub", "sub", "setself", "setself", "setother", "setother", "setother", "unsub", "delsub", "deltopic", "setdesc", "settags", "leave",
		"subfnd", "subsys", "subp2pname", "detachedset", "reload", "getsub", "setprivate", "pub", "delmsg", "setdesc"}
	for i := 0; i < n; i++ {
		a := permAct{
			Client: rapid.IntRange(0, 9).Draw(rt, "client"),
			Kind:   rapid.SampledFrom(kinds).Draw(rt, "kind"),
			Topic:  rapid.IntRange(0, 2).Draw(rt, "topic"),
			Target: rapid.IntRange(0, 4).Draw(rt, "target"),
			Mode:   rapid.SampledFrom(permModes).Draw(rt, "mode"),
		}
		if faults && rapid.IntRange(0, 2).Draw(rt, "faulty") == 0 {
			a.Fail = rapid.IntRange(1, 4).Draw(rt, "failat")
		}
		p.Acts = append(p.Acts, a)
	}
	// Multi-step patterns (drawn last, run first, on the freshly configured topics): rare sequences that
	// uniformly random acts almost never line up.
	npat := rapid.SampledFrom([]int{0, 0, 1, 1, 2}).Draw(rt, "npatterns")
	var pre []permAct
	for i := 0; i < npat; i++ {
		t := rapid.IntRange(0, 2).Draw(rt, "ptopic")
		u := rapid.IntRange(0, 4).Draw(rt, "ptarget")
		switch rapid.SampledFrom([]string{"ban_resub", "admin_selfgrant", "offer_reload_accept", "unsub_reload_resub", "offer_partial_accept", "ban_unsub_reload_resub"}).Draw(rt, "pattern") {
		case "ban_unsub_reload_resub":
			ban := rapid.SampledFrom([]string{"N", "RWP", "JRP"}).Draw(rt, "pban2")
			pre = append(pre, permAct{Kind: "setother", Topic: t, Target: u, Mode: ban, As: "owner"},
				permAct{Kind: "deltopic", Topic: t, Target: u, As: "target"},
				permAct{Kind: "reload", Topic: t, Target: u},
				permAct{Kind: "sub", Topic: t, Target: u, As: "target"})
		case "ban_resub":
			ban := rapid.SampledFrom([]string{"N", "N", "RWP", "JP"}).Draw(rt, "pban")
			pre = append(pre, permAct{Kind: "setother", Topic: t, Target: u, Mode: ban, As: "owner"},
				permAct{Kind: "deltopic", Topic: t, Target: u, As: "target"},
				permAct{Kind: "sub", Topic: t, Target: u, Mode: rapid.SampledFrom([]string{"", "JRWPS"}).Draw(rt, "pmode"), As: "target"})
		case "admin_selfgrant":
			pre = append(pre, permAct{Kind: "setother", Topic: t, Target: u, Mode: rapid.SampledFrom([]string{"JRWPA", "JRWPAS"}).Draw(rt, "padmin"), As: "owner"},
				permAct{Kind: "setself", Topic: t, Target: u, Mode: rapid.SampledFrom([]string{"JRWPASD", "JRWPAD", "JRWPASDO", "JRWPASO"}).Draw(rt, "pself"), As: "target"})
		case "offer_reload_accept":
			pre = append(pre, permAct{Kind: "setother", Topic: t, Target: u, Mode: "JRWPASDO", As: "owner"},
				permAct{Kind: "reload", Topic: t, Target: u},
				permAct{Kind: "setdesc", Topic: t, Target: u, Mode: "JRWPS", As: "target"},
				permAct{Kind: "setself", Topic: t, Target: u, Mode: "JRWPASDO", As: "target"})
		case "unsub_reload_resub":
			pre = append(pre, permAct{Kind: "unsub", Topic: t, Target: u, As: "target"},
				permAct{Kind: "reload", Topic: t, Target: u},
				permAct{Kind: "sub", Topic: t, Target: u, As: "target"})
		case "offer_partial_accept":
			pre = append(pre, permAct{Kind: "setother", Topic: t, Target: u, Mode: rapid.SampledFrom([]string{"O", "JRWPSO", "JRWPASDO"}).Draw(rt, "poffer"), As: "owner"},
				permAct{Kind: "sub", Topic: t, Target: u, Mode: rapid.SampledFrom([]string{"O", "JRWPSO", "JRWPASDO", "JO"}).Draw(rt, "paccept"), As: "target"})
		}
	}
	if faults {
		for i := range pre {
			if rapid.IntRange(0, 3).Draw(rt, "pfaulty") == 0 {
				pre[i].Fail = rapid.IntRange(1, 4).Draw(rt, "pfailat")
			}
		}
	}
	p.Acts = append(pre, p.Acts...)
	if !faults && lateFaults0 && rapid.IntRange(0, 3).Draw(rt, "latefaults") == 0 {
		// the ownership and authorisation rules must also survive a failing store call
		p.Faults = true
		for i := range p.Acts {
			if rapid.IntRange(0, 3).Draw(rt, "lfaulty") == 0 {
				p.Acts[i].Fail = rapid.IntRange(1, 4).Draw(rt, "lfailat")
			}
		}
	}
	return p
}

type permStats struct {
	transfers, refusedOwnerAttacks, requests, refused int
	actors                                            map[string]bool
	faultLate                                         int
	tracked                                           int
}

func effective(s SubSnap) types.AccessMode { return s.Want & s.Given }

// ownersOf lists the users whose effective mode has O.
func ownersOf(ts *TopicSnap) []types.Uid {
	var out []types.Uid
	for uid, pud := range ts.PerUser {
		if !pud.Deleted && !pud.IsChan && effective(pud)&types.ModeOwner != 0 {
			out = append(out, uid)
		}
	}
	sort.Slice(out, func(i, j int) bool { return out[i] < out[j] })
	return out
}

// cacheVsStore compares every loaded group / p2p topic with what a fresh load from the store would see.
func cacheVsStore(w *simWorld, sn *Snapshot, where string) (out []Violation) {
	for name, ts := range sn.Topics {
		if ts.Cat != types.TopicCatGrp && ts.Cat != types.TopicCatP2P {
			continue
		}
		if ts.Status&(topicStatusPaused|topicStatusMarkedDeleted) != 0 {
			continue
		}
		tr := w.Disk.Topics[name]
		if tr == nil {
			out = append(out, vio("C08", "live-topic-not-stored", "%s: topic %s is loaded but has no stored row", where, name))
			continue
		}
		if tr.SeqId != ts.LastID {
			out = append(out, vio("C08", "cache-store lastID", "%s: topic %s: live lastID %d, stored seqid %d", where, name, ts.LastID, tr.SeqId))
		}
		if tr.DelId != ts.DelID {
			out = append(out, vio("C08", "cache-store delID", "%s: topic %s: live delID %d, stored delid %d", where, name, ts.DelID, tr.DelId))
		}
		if ts.Cat == types.TopicCatGrp {
			if tr.Owner != ts.Owner {
				out = append(out, vio("C08", "cache-store owner", "%s: topic %s: live owner %s, stored owner %s", where, name, ts.Owner.UserId(), tr.Owner.UserId()))
			}
			if tr.Access.Auth != ts.AccessAuth || tr.Access.Anon != ts.AccessAnon {
				out = append(out, vio("C08", "cache-store defacs", "%s: topic %s: live default access %v/%v, stored %v/%v", where, name, ts.AccessAuth, ts.AccessAnon, tr.Access.Auth, tr.Access.Anon))
			}
			if canonJSONBytes(tr.Public) != ts.Public {
				out = append(out, vio("C08", "cache-store public", "%s: topic %s: live public %s, stored %s", where, name, ts.Public, canonJSONBytes(tr.Public)))
			}
			lt := append([]string{}, ts.Tags...)
			st := append([]string{}, tr.Tags...)
			sort.Strings(lt)
			sort.Strings(st)
			if strings.Join(lt, ",") != strings.Join(st, ",") {
				out = append(out, vio("C08", "cache-store tags", "%s: topic %s: live tags %v, stored %v", where, name, lt, st))
			}
		}
		stored := map[types.Uid]bool{}
		for _, sr := range w.Disk.Subs {
			if sr.Topic != name || sr.DeletedAt != nil {
				continue
			}
			stored[sr.User] = true
			pud, ok := ts.PerUser[sr.User]
			if !ok || pud.Deleted {
				out = append(out, vio("C08", "cache-store sub-missing-live", "%s: topic %s: stored subscription of %s is not in the live topic", where, name, sr.User.UserId()))
				continue
			}
			if pud.Want != sr.ModeWant || pud.Given != sr.ModeGiven {
				out = append(out, vio("C08", "cache-store acs", "%s: topic %s user %s: live want/given %v/%v, stored %v/%v", where, name, sr.User.UserId(), pud.Want, pud.Given, sr.ModeWant, sr.ModeGiven))
			}
			if pud.ReadID != sr.ReadSeqId || pud.RecvID != sr.RecvSeqId {
				if !(sr.ReadSeqId > sr.RecvSeqId && pud.ReadID == sr.ReadSeqId) { // C09's known shape is reported there
					out = append(out, vio("C08", "cache-store marks", "%s: topic %s user %s: live read/recv %d/%d, stored %d/%d", where, name, sr.User.UserId(), pud.ReadID, pud.RecvID, sr.ReadSeqId, sr.RecvSeqId))
				}
			}
			if pud.DelID != sr.DelId {
				out = append(out, vio("C08", "cache-store sub-delid", "%s: topic %s user %s: live delID %d, stored %d", where, name, sr.User.UserId(), pud.DelID, sr.DelId))
			}
			if canonJSONBytes(sr.Private) != pud.Private {
				out = append(out, vio("C08", "cache-store private", "%s: topic %s user %s: live private %s, stored %s", where, name, sr.User.UserId(), pud.Private, canonJSONBytes(sr.Private)))
			}
		}
		for uid, pud := range ts.PerUser {
			if pud.Deleted || pud.IsChan {
				continue
			}
			if !stored[uid] {
				out = append(out, vio("C08", "cache-store sub-missing-stored", "%s: topic %s: live subscriber %s has no stored subscription", where, name, uid.UserId()))
			}
		}
	}
	return
}

// divFilter de-duplicates cache/store divergences: a divergence is reported once, when first seen, with the
// request after which it appeared (and whether a store fault was injected into that request) in its key.
type divFilter struct {
	seen map[string]bool
}

var divTopicUser = regexp.MustCompile(`topic (\S+?)(?: user (\S+?))?:`)

func (d *divFilter) filter(vs []Violation, cause string, skipKeys map[string]bool) (out []Violation) {
	for _, v := range vs {
		if v.Property != "C08" || !strings.HasPrefix(v.Key, "cache-store") {
			out = append(out, v)
			continue
		}
		m := divTopicUser.FindStringSubmatch(v.Text)
		id := v.Key
		if m != nil {
			id = v.Key + "|" + m[1] + "|" + m[2]
			if skipKeys[m[1]+"/"+m[2]] && (v.Key == "cache-store acs" || v.Key == "cache-store private") {
				continue
			}
		}
		if d.seen[id] {
			continue
		}
		d.seen[id] = true
		v.Key = v.Key + " after " + cause
		out = append(out, v)
	}
	return
}

// forget drops what is known about a topic (it was reloaded from the store).
func (d *divFilter) forget(topic string) {
	for k := range d.seen {
		if strings.Contains(k, "|"+topic+"|") {
			delete(d.seen, k)
		}
	}
}

func canonJSONBytes(b []byte) string {
	if b == nil || string(b) == "null" {
		return "nil"
	}
	var v any
	if err := jsonUnmarshalBytes(b, &v); err != nil {
		return string(b)
	}
	return canon(v)
}

// permInvariants: C06/C07 state invariants on one snapshot + the simulated disk.
func permInvariants(w *simWorld, sn *Snapshot, where string) (out []Violation) {
	for name, ts := range sn.Topics {
		if ts.Status&(topicStatusPaused|topicStatusMarkedDeleted) != 0 {
			continue
		}
		switch ts.Cat {
		case types.TopicCatGrp:
			ow := ownersOf(ts)
			if len(ow) != 1 {
				var names []string
				for _, o := range ow {
					names = append(names, o.UserId())
				}
				out = append(out, vio("C06", fmt.Sprintf("owners-%d", len(ow)), "%s: group %s has %d effective owners %v (recorded owner %s)", where, name, len(ow), names, ts.Owner.UserId()))
			} else if ow[0] != ts.Owner {
				out = append(out, vio("C06", "owner-field-mismatch", "%s: group %s: effective owner %s, recorded owner %s", where, name, ow[0].UserId(), ts.Owner.UserId()))
			}
			n := 0
			for _, pud := range ts.PerUser {
				if !pud.IsChan {
					n++
				}
			}
			if n > globals.maxSubscriberCount {
				out = append(out, vio("C07", "subscriber-limit", "%s: group %s has %d subscribers, limit %d", where, name, n, globals.maxSubscriberCount))
			}
		case types.TopicCatP2P:
			n := 0
			for uid, pud := range ts.PerUser {
				n++
				if pud.Deleted {
					continue
				}
				if pud.Want&^types.ModeCP2P != 0 || pud.Given&^types.ModeCP2P != 0 {
					out = append(out, vio("C07", "p2p-mode-exceeds", "%s: p2p %s user %s: want %v given %v exceed JRWPA", where, name, uid.UserId(), pud.Want, pud.Given))
				}
				if pud.Want&types.ModeApprove == 0 || pud.Given&types.ModeApprove == 0 {
					out = append(out, vio("C07", "p2p-lost-approve", "%s: p2p %s user %s: want %v given %v lack A", where, name, uid.UserId(), pud.Want, pud.Given))
				}
			}
			if n > 2 {
				out = append(out, vio("C07", "p2p-third-participant", "%s: p2p %s has %d participants", where, name, n))
			}
		}
		for sid, uid := range ts.Sessions {
			pud := ts.PerUser[uid]
			if ts.Cat == types.TopicCatGrp || ts.Cat == types.TopicCatP2P {
				if !ts.ChanSess[sid] && pud.Given&types.ModeJoin == 0 {
					out = append(out, vio("C07", "banned-user-attached", "%s: topic %s: session %s of user %s is attached although the grant %v lacks J", where, name, sid, uid.UserId(), pud.Given))
				}
			}
			ss := sn.Sessions[sid]
			if ss == nil {
				continue
			}
			switch ts.Cat {
			case types.TopicCatMe:
				if name != ss.Uid.UserId() && ss.AuthLvl != auth.LevelRoot {
					out = append(out, vio("C07", "foreign-me-attached", "%s: session of %s is attached to 'me' topic %s", where, ss.Uid.UserId(), name))
				}
			case types.TopicCatFnd:
				if name != ss.Uid.FndName() && ss.AuthLvl != auth.LevelRoot {
					out = append(out, vio("C07", "foreign-fnd-attached", "%s: session of %s is attached to search topic %s", where, ss.Uid.UserId(), name))
				}
			case types.TopicCatSys:
				if ss.AuthLvl != auth.LevelRoot {
					out = append(out, vio("C07", "non-root-on-sys", "%s: session of %s (level %v) is attached to sys", where, ss.Uid.UserId(), ss.AuthLvl))
				}
			}
		}
	}
	// the store: every group has exactly one subscription with O in want&given and it is topics.owner
	for name, tr := range w.Disk.Topics {
		if !strings.HasPrefix(name, "grp") || tr.State == types.StateDeleted {
			continue
		}
		var ow []types.Uid
		cnt := 0
		for _, sr := range w.Disk.Subs {
			if sr.Topic == name && sr.DeletedAt == nil {
				cnt++
				if sr.ModeWant&sr.ModeGiven&types.ModeOwner != 0 {
					ow = append(ow, sr.User)
				}
			}
		}
		if len(ow) != 1 {
			out = append(out, vio("C06", fmt.Sprintf("stored-owners-%d", len(ow)), "%s: stored group %s has %d subscriptions with effective O (topics.owner=%s)", where, name, len(ow), tr.Owner.UserId()))
		} else if ow[0] != tr.Owner {
			out = append(out, vio("C06", "stored-owner-mismatch", "%s: stored group %s: owner column %s, owning subscription %s", where, name, tr.Owner.UserId(), ow[0].UserId()))
		}
		if cnt > globals.maxSubscriberCount {
			out = append(out, vio("C07", "subscriber-limit-store", "%s: stored group %s has %d subscriptions, limit %d", where, name, cnt, globals.maxSubscriberCount))
		}
	}
	return
}

type permExp struct {
	Actor    types.Uid
	ActorLvl auth.Level
	Topic    string
	Kind     string
	DiskDump string
	Pre      *Snapshot
	PreDisk  map[string][2]types.AccessMode // "topic\x00uid" -> stored want, given (live rows)
	PreSoft  map[string][2]types.AccessMode // soft-deleted rows
	Fail     int
	StoreLen int
}

func diskModes(w *simWorld) (live, soft map[string][2]types.AccessMode) {
	live, soft = map[string][2]types.AccessMode{}, map[string][2]types.AccessMode{}
	for k, sr := range w.Disk.Subs {
		if sr.DeletedAt == nil {
			live[k] = [2]types.AccessMode{sr.ModeWant, sr.ModeGiven}
		} else {
			soft[k] = [2]types.AccessMode{sr.ModeWant, sr.ModeGiven}
		}
	}
	return
}

func runPerm(t *testing.T, sched simrt.Schedule, prog permProg) ([]Violation, RunStats, *permStats) {
	ps := &permStats{actors: map[string]bool{}}
	viol, st := runOne(t, sched, func(w *simWorld) []Violation {
		var out []Violation
		sc := prog.Sc
		w.configure(sc)
		if prog.Stranger {
			u := seedUser(len(w.Users), auth.LevelAuth, types.ModeCAuth, types.ModeNone)
			w.Users = append(w.Users, u)
			c := w.addClient(u)
			w.runPhase(map[int][]*Op{c.Idx: {opHi(), opLogin(u.Idx, "basic"), opSub("me", "", "")}})
		}
		ntop := len(sc.Groups) + len(sc.P2P)
		if ntop == 0 {
			return nil
		}
		sn := w.snapshot()
		out = append(out, permInvariants(w, sn, "after configure")...)
		out = append(out, cacheVsStore(w, sn, "after configure")...)

		detachedDiverged := map[string]bool{} // "topic/user": stored subscription changed behind the live topic's back
		everDetached := map[string]bool{}     // same, never forgotten: nobody was notified of that change either
		div := &divFilter{seen: map[string]bool{}}
		// topics on which an injected store failure interrupted a multi-write handler: what the topic looks
		// like after its next load from the store is still a consequence of that failure
		faultTaint := map[string][]string{}
		addTaint := func(topic, cause string) {
			for _, c := range faultTaint[topic] {
				if c == cause {
					return
				}
			}
			faultTaint[topic] = append(faultTaint[topic], cause)
		}
		// several handlers may have been interrupted on one topic before the divergence becomes visible: the
		// divergence is attributed to the first of them whose partial effect is a recorded finding, else to the first
		taintKey := func(topic string) string {
			cs := faultTaint[topic]
			if len(cs) == 0 {
				return ""
			}
			for _, c := range cs {
				if loadKnownFindings()["C08 store-fault-partial-effect "+c] {
					return "store-fault-partial-effect " + c
				}
			}
			return "store-fault-partial-effect " + cs[0]
		}
		// owner-count invariants on such a topic: the three uncompensated writes of an ownership transfer
		relabel := func(vs []Violation) []Violation {
			for i := range vs {
				if vs[i].Property != "C06" {
					continue
				}
				for topic := range faultTaint {
					if strings.Contains(vs[i].Text, topic) && (strings.Contains(vs[i].Key, "owners-") || strings.Contains(vs[i].Key, "owner-field-mismatch") || strings.Contains(vs[i].Key, "stored-owner-mismatch")) {
						vs[i].Key = "store-fault-partial-effect owners"
					}
				}
			}
			return vs
		}
		w.OnIsoFire = func(p *isoProbe) {
			if p.Sent == nil || p.Sent.Msg == nil {
				return
			}
			e := &permExp{Actor: p.C.User.Uid, ActorLvl: p.C.User.Level, DiskDump: w.Disk.Dump(), Pre: p.Pre, StoreLen: len(simStore.Log)}
			e.PreDisk, e.PreSoft = diskModes(w)
			m := p.Sent.Msg
			switch {
			case m.Sub != nil:
				e.Kind, e.Topic = "sub", w.globalName(p.C, m.Sub.Topic)
			case m.Set != nil:
				e.Kind, e.Topic = "set", w.globalName(p.C, m.Set.Topic)
			case m.Leave != nil:
				e.Kind, e.Topic = "leave", w.globalName(p.C, m.Leave.Topic)
			case m.Del != nil:
				e.Kind, e.Topic = "del", w.globalName(p.C, m.Del.Topic)
			case m.Pub != nil:
				e.Kind, e.Topic = "pub", w.globalName(p.C, m.Pub.Topic)
			default:
				return
			}
			p.Exp = e
		}
		w.OnIsoDone = func(p *isoProbe, post *Snapshot) {
			e, _ := p.Exp.(*permExp)
			if e == nil {
				return
			}
			ps.requests++
			s := p.Sent
			m := s.Msg
			where := fmt.Sprintf("after %s by user %d", canon(m), p.C.User.Idx)
			failed := simStore.Fault != nil && simStore.Fault.Fired
			if failed {
				simrt.Probe("fault.store_err")
			}
			cause := faultedHandler(m, e.Actor.UserId())
			if strings.HasPrefix(e.Topic, "p2p") && e.Kind != "pub" && !(m.Del != nil && m.Del.What == "msg") {
				cause += "-p2p"
			}
			if failed && w.Disk.Dump() != e.DiskDump {
				addTaint(e.Topic, cause)
			}
			out = append(out, relabel(permInvariants(w, post, where))...)
			// a {set} from a session that is not attached is served by replyOfflineTopicSetSub straight from the
			// store, also when the topic is loaded: the live topic does not learn about the change
			if m.Set != nil && s.Code >= 200 && s.Code < 300 {
				attached := false
				for _, ss := range e.Pre.Sessions {
					if ss.Client == p.C.Idx {
						for _, sub := range ss.Subs {
							if sub == e.Topic {
								attached = true
							}
						}
					}
				}
				if ts := post.Topics[e.Topic]; !attached && ts != nil {
					if sr := w.Disk.Subs[simdbSubKey(e.Topic, e.Actor)]; sr != nil {
						if pud, ok := ts.PerUser[e.Actor]; ok && (pud.Want != sr.ModeWant || canonJSONBytes(sr.Private) != pud.Private) {
							detachedDiverged[e.Topic+"/"+e.Actor.UserId()] = true
							everDetached[e.Topic+"/"+e.Actor.UserId()] = true
							out = append(out, vio("C08", "detached-set-bypasses-live-topic", "{set} by user %d from a session not attached to %s changed the stored subscription (want %v private %s) while the loaded topic keeps want %v private %s", p.C.User.Idx, e.Topic, sr.ModeWant, canonJSONBytes(sr.Private), pud.Want, pud.Private))
						}
					}
				}
			}
			dv := div.filter(cacheVsStore(w, post, where), cause, detachedDiverged)
			if failed {
				for i := range dv {
					// (a divergence that is a recorded finding under its own key needs no attribution to the failure:
					// the failed call may have been a harmless read inside a request that succeeded)
					if dv[i].Property == "C08" && !loadKnownFindings()["C08 "+dv[i].Key] {
						dv[i].Key = "store-fault-partial-effect " + cause
					}
				}
			} else {
				// a divergence that shows on a topic on which a handler was interrupted earlier (e.g. the owner field
				// after a half-done transfer that a later request completes in the cache only)
				for i := range dv {
					if m2 := divTopicUser.FindStringSubmatch(dv[i].Text); m2 != nil && len(faultTaint[m2[1]]) > 0 && dv[i].Property == "C08" && !loadKnownFindings()["C08 "+dv[i].Key] {
						dv[i].Key = taintKey(m2[1])
					}
				}
			}
			out = append(out, dv...)
			simStore.Fault = nil
			refused := s.Code >= 400
			if refused {
				ps.refused++
			}
			// failed or refused request: no effect on the store (C08 clause 4) and on the cached permissions
			if refused || !s.Answered {
				if d := w.Disk.Dump(); d != e.DiskDump {
					cat := ""
					if strings.HasPrefix(e.Topic, "p2p") && e.Kind != "pub" && !(m.Del != nil && m.Del.What == "msg") {
						cat = "-p2p"
					}
					sig := diffSignature(e.DiskDump, d)
					stage := ""
					if e.Pre.Topics[e.Topic] == nil {
						stage = " unloaded" // the request had to load (or create) the topic first
					}
					key := "refused-request-changed-store " + faultedHandler(m, e.Actor.UserId()) + cat + stage + " [" + sig + "]"
					if failed {
						// a store call other than the first one of a multi-call handler failed: what the earlier calls wrote stays
						key = "store-fault-partial-effect " + faultedHandler(m, e.Actor.UserId()) + cat
						ps.faultLate++
					}
					// UpdateLastSeen / device records are not part of the topic state
					if sig != "" {
						out = append(out, vio("C08", key, "request %s answered %d (answered=%v) changed the store:\n%s", canon(m), s.Code, s.Answered, diffLines(e.DiskDump, d)))
					}
				}
			}
			if failed && !s.Answered && p.C.Connected {
				out = append(out, vio("C14", "unanswered-after-store-failure "+faultedHandler(m, e.Actor.UserId()), "request %s got no reply after an injected store failure", canon(m)))
			}
			// transition analysis per (topic, user) on group and p2p topics
			actor := e.Actor
			ps.actors[actorKind(e, p)] = true
			for name, po := range post.Topics {
				if po.Cat != types.TopicCatGrp && po.Cat != types.TopicCatP2P {
					continue
				}
				pr := e.Pre.Topics[name]
				if pr == nil {
					continue // just loaded: compared against the store by cacheVsStore
				}
				actorPre, actorIsSub := pr.PerUser[actor]
				actorEff := types.ModeNone
				if actorIsSub && !actorPre.Deleted {
					actorEff = effective(actorPre)
				}
				for uid, a := range po.PerUser {
					b, existed := pr.PerUser[uid]
					if a.IsChan || b.IsChan {
						continue
					}
					if existed && !b.Deleted && !a.Deleted && a.Want == b.Want && a.Given == b.Given {
						continue
					}
					newSub := !existed || b.Deleted
					if a.Deleted {
						continue
					}
					// --- granted permissions changed
					if newSub || a.Given != b.Given {
						switch {
						case uid == actor && newSub:
							// first subscribe: topic default for the level, or the previous grant of a soft-deleted row
							want := accessForLevel(pr, e.ActorLvl)
							if prev, ok := e.PreSoft[simdbSubKey(name, uid)]; ok {
								want = prev[1]
							}
							if po.Cat == types.TopicCatP2P {
								// a first p2p grant derives from the partner's default access (checked by the p2p mask invariant);
								// a subscription that was deleted and is made again must come back with the grant it had
								if prev, ok := e.PreSoft[simdbSubKey(name, uid)]; ok && a.Given != prev[1] {
									out = append(out, vio("C07", "p2p-resubscribe-grant", "user %d subscribed again to %s and was granted %v, the deleted subscription had %v", p.C.User.Idx, name, a.Given, prev[1]))
								}
								break
							}
							if a.Given != want {
								out = append(out, vio("C07", "first-subscribe-grant", "user %d subscribed to %s and was granted %v, expected %v (default for level or previous grant)", p.C.User.Idx, name, a.Given, want))
							}
						case uid == actor:
							// own grant changed: owner may grant himself anything; admin may raise by anything except O and D
							added := a.Given &^ b.Given
							removed := b.Given &^ a.Given
							okSelf := removed == 0 && (b.Given&types.ModeOwner != 0 || (po.Cat == types.TopicCatGrp && b.Given&types.ModeApprove != 0 && added&(types.ModeOwner|types.ModeDelete) == 0))
							if !okSelf {
								out = append(out, vio("C07", "self-granted", "user %d changed own grant on %s from %v to %v by %s", p.C.User.Idx, name, b.Given, a.Given, canon(m)))
							}
						default:
							if !actorIsSub || actorEff&(types.ModeApprove|types.ModeOwner) == 0 {
								if newSub && actorEff&types.ModeShare != 0 {
									// a sharer may invite with default access only
									want := accessForLevel(pr, auth.LevelAuth) | types.ModeJoin
									if prev, ok := e.PreSoft[simdbSubKey(name, uid)]; ok {
										_ = prev
									}
									if a.Given != want {
										out = append(out, vio("C07", "sharer-set-explicit-grant", "sharer %d invited %s to %s with grant %v, default is %v", p.C.User.Idx, uid.UserId(), name, a.Given, want))
									}
								} else if !(uid == pr.Owner && a.Given == b.Given&^types.ModeOwner && m.Sub != nil || ownerTransferStrip(pr, po, uid, actor)) {
									out = append(out, vio("C07", "unauthorised-grant-change", "user %d (effective %v on %s) changed the grant of %s from %v to %v by %s", p.C.User.Idx, actorEff, name, uid.UserId(), b.Given, a.Given, canon(m)))
								}
							}
							if a.Given&types.ModeOwner != 0 && (!existed || b.Given&types.ModeOwner == 0) && actor != pr.Owner {
								out = append(out, vio("C06", "ownership-granted-by-non-owner", "user %d, not the owner of %s, granted O to %s", p.C.User.Idx, name, uid.UserId()))
							}
						}
					}
					// --- requested permissions changed
					if !newSub && a.Want != b.Want && uid != actor {
						if !ownerTransferStrip(pr, po, uid, actor) {
							out = append(out, vio("C07", "want-changed-by-other", "user %d changed the requested mode of %s on %s from %v to %v by %s", p.C.User.Idx, uid.UserId(), name, b.Want, a.Want, canon(m)))
						}
					}
				}
				// users removed from the topic by somebody else
				for uid, b := range pr.PerUser {
					a, still := po.PerUser[uid]
					if b.IsChan || b.Deleted || (still && !a.Deleted) {
						continue
					}
					if uid == pr.Owner && po.Cat == types.TopicCatGrp {
						out = append(out, vio("C06", "owner-removed", "the owner %s of %s was removed by %s of user %d", uid.UserId(), name, canon(m), p.C.User.Idx))
					}
					if uid != actor && actorEff&(types.ModeApprove|types.ModeOwner) == 0 {
						out = append(out, vio("C07", "removed-by-unauthorised", "user %d (effective %v) removed %s from %s by %s", p.C.User.Idx, actorEff, uid.UserId(), name, canon(m)))
					}
				}
				// ownership moves only by grant + acceptance
				if po.Cat == types.TopicCatGrp && pr.Owner != po.Owner {
					ps.transfers++
					newOwnerPre := pr.PerUser[po.Owner]
					accepted := actor == po.Owner && newOwnerPre.Given&types.ModeOwner != 0 && (m.Sub != nil || (m.Set != nil && m.Set.Sub != nil))
					// the offer must be a grant the owner's request really made: it is in the store
					if st, ok := e.PreDisk[simdbSubKey(name, po.Owner)]; accepted && (!ok || st[1]&types.ModeOwner == 0) {
						out = append(out, vio("C06", "ownership-accepted-without-stored-offer", "owner of %s changed to %s by %s although the stored grant of that user was %v (cached %v)", name, po.Owner.UserId(), canon(m), st[1], newOwnerPre.Given))
					}
					if !accepted {
						out = append(out, vio("C06", "ownership-moved-without-protocol", "owner of %s changed from %s to %s by %s of user %d (new owner's previous grant %v)", name, pr.Owner.UserId(), po.Owner.UserId(), canon(m), p.C.User.Idx, newOwnerPre.Given))
					}
					old := po.PerUser[pr.Owner]
					if old.Want&types.ModeOwner != 0 || old.Given&types.ModeOwner != 0 {
						out = append(out, vio("C06", "previous-owner-keeps-O", "after the transfer of %s the previous owner %s has want %v given %v", name, pr.Owner.UserId(), old.Want, old.Given))
					}
				}
				// non-owner changes to public / default access / tags
				if po.Cat == types.TopicCatGrp && actor != pr.Owner {
					if po.Public != pr.Public || po.Trusted != pr.Trusted && e.ActorLvl != auth.LevelRoot || po.AccessAuth != pr.AccessAuth || po.AccessAnon != pr.AccessAnon ||
						strings.Join(po.Tags, ",") != strings.Join(pr.Tags, ",") {
						out = append(out, vio("C06", "non-owner-changed-topic", "user %d, not the owner of %s, changed public/defacs/tags by %s", p.C.User.Idx, name, canon(m)))
					}
				}
			}
			// a group deleted by somebody who was not its owner
			for name, pr := range e.Pre.Topics {
				if pr.Cat != types.TopicCatGrp {
					continue
				}
				if tr := w.Disk.Topics[name]; tr == nil || tr.State == types.StateDeleted {
					if actor != pr.Owner && e.ActorLvl != auth.LevelRoot {
						out = append(out, vio("C06", "group-deleted-by-non-owner", "group %s was deleted by %s of user %d who is not its owner", name, canon(m), p.C.User.Idx))
					}
				}
			}
			// attacks on the owner that were refused
			if refused && e.Topic != "" {
				if pr := e.Pre.Topics[e.Topic]; pr != nil && pr.Cat == types.TopicCatGrp {
					tgt := ""
					if m.Set != nil && m.Set.Sub != nil {
						tgt = m.Set.Sub.User
					}
					if m.Del != nil {
						tgt = m.Del.User
					}
					if tgt == pr.Owner.UserId() || (actor == pr.Owner && (m.Leave != nil || m.Set != nil || m.Sub != nil)) {
						ps.refusedOwnerAttacks++
					}
				}
			}
		}

		pubN := 0
		for _, a := range prog.Acts {
			c := w.Clients[a.Client%len(w.Clients)]
			if ntop := len(sc.Groups) + len(sc.P2P); ntop > 0 {
				switch a.As {
				case "owner":
					if ti := a.Topic % ntop; ti < len(sc.Groups) {
						c = w.clientsOf(sc.Groups[ti].Owner)[0]
					} else {
						c = w.clientsOf(sc.P2P[ti-len(sc.Groups)][0])[0]
					}
					simrt.Probe("perm.pattern_step")
				case "target":
					c = w.clientsOf(a.Target % len(w.Users))[0]
				}
			}
			name := c01TopicName(sc, c, a.Topic)
			tgt := fmt.Sprintf("@usr%d", a.Target%len(w.Users))
			var op *Op
			switch a.Kind {
			case "sub":
				op = opSub(name, a.Mode, "")
			case "setself":
				op = opSetSub(name, "", a.Mode)
			case "setother":
				op = opSetSub(name, tgt, a.Mode)
			case "unsub":
				op = opLeave(name, true)
			case "leave":
				op = opLeave(name, false)
			case "delsub":
				op = opDelSub(name, tgt)
			case "deltopic":
				op = opDelTopic(name, a.Target%2 == 0)
			case "setdesc":
				// a nested value: the second and later updates change a key inside the cached nested map
				op = opMsg(&ClientComMessage{Set: &MsgClientSet{Topic: name, MsgSetQuery: MsgSetQuery{Desc: &MsgSetDesc{
					Public: map[string]any{"fn": "renamed by " + fmt.Sprint(c.Idx), "photo": map[string]any{"ref": fmt.Sprintf("img%d.png", a.Target), "type": "png"}},
					DefaultAcs: &MsgDefaultAcsMode{Auth: a.Mode}}}}})
			case "pub":
				pubN++
				op = opPub(name, fmt.Sprintf("perm%d", pubN), false)
			case "delmsg":
				op = opDelMsg(name, a.Target%2 == 0, MsgDelRange{LowId: 1, HiId: 1 + a.Target%3})
			case "setprivate":
				op = opMsg(&ClientComMessage{Set: &MsgClientSet{Topic: name, MsgSetQuery: MsgSetQuery{Desc: &MsgSetDesc{Private: map[string]any{"note": fmt.Sprint(a.Target)}}}}})
			case "settags":
				op = opMsg(&ClientComMessage{Set: &MsgClientSet{Topic: name, MsgSetQuery: MsgSetQuery{Tags: []string{"tag" + fmt.Sprint(a.Target), "perm"}}}})
			case "subfnd":
				op = opSub("fnd"+strings.TrimPrefix(w.Users[a.Target%len(w.Users)].Uid.UserId(), "usr"), "", "")
			case "subsys":
				op = opSub("sys", a.Mode, "")
			case "subp2pname":
				if len(sc.P2P) == 0 {
					continue
				}
				op = opSub(fmt.Sprintf("@p2p%d_%d", sc.P2P[0][0], sc.P2P[0][1]), a.Mode, "")
			case "detachedset":
				// leave first, then change own mode without being attached (handled outside the topic actor)
				w.setOps(map[int][]*Op{c.Idx: {opLeave(name, false).iso()}})
				w.rt.Run(300*time.Millisecond, nil)
				w.Enabled(true)
				op = opSetSub(name, "", a.Mode)
			case "getsub":
				op = opGet(name, "sub desc")
			case "reload":
				lv := map[int][]*Op{}
				for _, oc := range w.Clients {
					lv[oc.Idx] = []*Op{opLeave(c01TopicName(sc, oc, a.Topic), false)}
				}
				logBefore := len(simStore.Log)
				w.runPhase(lv)
				// grants on record before everybody comes back, deleted subscriptions included
				gnPre := w.globalName(c, mustResolve(w, name))
				grantBefore := map[types.Uid]types.AccessMode{}
				for _, sr := range w.Disk.Subs {
					if sr.Topic == gnPre {
						grantBefore[sr.User] = sr.ModeGiven
					}
				}
				back := map[int][]*Op{}
				for _, oc := range w.Clients {
					back[oc.Idx] = []*Op{opSub(c01TopicName(sc, oc, a.Topic), "", "")}
				}
				w.setOps(back)
				w.rt.Run(500*time.Millisecond, nil)
				sn := w.snapshot()
				gn := w.globalName(c, mustResolve(w, name))
				reloaded := false
				for _, sc := range simStore.Log[logBefore:] {
					if sc.Method == "TopicGet" && len(sc.Args) > 0 && sc.Args[0] == gn {
						reloaded = true
					}
				}
				if reloaded {
					simrt.Probe("perm.reload")
					for k := range detachedDiverged {
						if strings.HasPrefix(k, gn+"/") {
							delete(detachedDiverged, k) // a fresh load picked the stored value up
						}
					}
					div.forget(gn)
				}
				out = append(out, relabel(permInvariants(w, sn, "after reload"))...)
				// coming back with a plain {sub} changes nobody's grant: a subscription that had been deleted comes
				// back with the grant it had (C07: unsubscribing and subscribing again restores the previous grant)
				if !prog.Faults {
					for _, sr := range w.Disk.Subs {
						if sr.Topic != gn || sr.DeletedAt != nil {
							continue
						}
						if before, ok := grantBefore[sr.User]; ok && before != sr.ModeGiven {
							kind := "group"
							if strings.HasPrefix(gn, "p2p") {
								kind = "p2p"
							}
							out = append(out, vio("C07", "grant-changed-by-coming-back "+kind, "topic %s: the grant of user %s was %v before everybody left and is %v after everybody came back with a plain {sub}", gn, sr.User.UserId(), before, sr.ModeGiven))
						}
					}
				}
				// the come-back phase consists of plain {sub} requests
				rc := "sub"
				if strings.HasPrefix(gn, "p2p") {
					rc = "sub-p2p"
				}
				rv := div.filter(cacheVsStore(w, sn, "after reload"), rc, detachedDiverged)
				for i := range rv {
					if m := divTopicUser.FindStringSubmatch(rv[i].Text); m != nil && len(faultTaint[m[1]]) > 0 && rv[i].Property == "C08" && !loadKnownFindings()["C08 "+rv[i].Key] {
						rv[i].Key = taintKey(m[1])
					}
				}
				out = append(out, rv...)
				continue
			}
			op.Isolated = true
			if a.Fail > 0 && prog.Faults {
				simStore.Fault = &faultPlan{FailAt: a.Fail}
				simrt.Probe("fault.store_armed")
			}
			w.setOps(map[int][]*Op{c.Idx: {op}})
			if r := w.rt.Run(500*time.Millisecond, nil); r != simrt.RunQuiescent {
				if r == simrt.RunPanic {
					return out
				}
				return append(out, vio("C14", "livelock", "run result %d", r))
			}
			w.Enabled(true)
			simStore.Fault = nil
		}
		w.settle()
		sn = w.snapshot()
		out = append(out, relabel(permInvariants(w, sn, "at the end"))...)
		out = append(out, div.filter(cacheVsStore(w, sn, "at the end"), "settle", detachedDiverged)...)
		if prog.Track {
			tv, n := c05Track(w, sn, everDetached)
			ps.tracked = n
			out = append(out, tv...)
		}
		return out
	})
	st.ProgHash = hashOf(prog)
	return viol, st, ps
}

// diffSignature summarises which kinds of rows a store change touched: "+topic +sub ~sub -msg ...".
func diffSignature(before, after string) string {
	kind := func(l string) string {
		f := strings.Fields(l)
		if len(f) == 0 {
			return ""
		}
		return f[0]
	}
	ident := func(l string) string {
		f := strings.Fields(l)
		if len(f) >= 3 && f[0] == "sub" {
			return f[0] + " " + f[1] + " " + f[2]
		}
		if len(f) >= 2 {
			return f[0] + " " + f[1]
		}
		return l
	}
	am, bm := map[string]string{}, map[string]string{}
	for _, l := range strings.Split(before, "\n") {
		am[ident(l)] = l
	}
	for _, l := range strings.Split(after, "\n") {
		bm[ident(l)] = l
	}
	sig := map[string]bool{}
	for id, l := range bm {
		k := kind(l)
		if k == "autoinc" || k == "user" || k == "kv" || k == "==" || k == "" {
			continue
		}
		if old, ok := am[id]; !ok {
			sig["+"+k] = true
		} else if old != l {
			sig["~"+k] = true
		}
	}
	for id, l := range am {
		k := kind(l)
		if k == "autoinc" || k == "user" || k == "kv" || k == "==" || k == "" {
			continue
		}
		if _, ok := bm[id]; !ok {
			sig["-"+k] = true
		}
	}
	var parts []string
	for k := range sig {
		parts = append(parts, k)
	}
	sort.Strings(parts)
	return strings.Join(parts, " ")
}

func onlyLines(diff string, prefixes ...string) bool {
	for _, l := range strings.Split(diff, "\n") {
		l = strings.TrimLeft(l, "+- ")
		if l == "" {
			continue
		}
		ok := false
		for _, p := range prefixes {
			if strings.HasPrefix(l, p) {
				ok = true
			}
		}
		if !ok {
			return false
		}
	}
	return true
}

// ownerTransferStrip: is the change on uid the O bit being cleared from the previous owner at a transfer accepted by actor?
func ownerTransferStrip(pr, po *TopicSnap, uid, actor types.Uid) bool {
	if pr.Owner != uid || po.Owner != actor || pr.Owner == po.Owner {
		return false
	}
	a, b := po.PerUser[uid], pr.PerUser[uid]
	return a.Want == b.Want&^types.ModeOwner && a.Given == b.Given&^types.ModeOwner
}

func accessForLevel(ts *TopicSnap, lvl auth.Level) types.AccessMode {
	switch lvl {
	case auth.LevelAnon:
		return ts.AccessAnon
	case auth.LevelAuth:
		return ts.AccessAuth
	case auth.LevelRoot:
		// root-level users get the category default instead of the topic's own default (selectAccessMode)
		if ts.Cat == types.TopicCatGrp {
			return types.ModeCPublic
		}
		return ts.AccessAuth
	}
	return types.ModeNone
}

func actorKind(e *permExp, p *isoProbe) string {
	pr := e.Pre.Topics[e.Topic]
	if pr == nil {
		return "no-topic"
	}
	pud, ok := pr.PerUser[e.Actor]
	switch {
	case e.ActorLvl == auth.LevelRoot:
		return "root"
	case !ok:
		return "stranger"
	case pud.Deleted:
		return "removed"
	case e.Actor == pr.Owner:
		return "owner"
	case pud.Given&types.ModeJoin == 0:
		return "banned"
	case effective(pud)&types.ModeApprove != 0:
		return "approver"
	case effective(pud)&types.ModeShare != 0:
		return "sharer"
	}
	return "member"
}

// faultedHandler names the request kind for known-finding keys.
func faultedHandler(m *ClientComMessage, self ...string) string {
	switch {
	case m.Sub != nil:
		if strings.HasPrefix(m.Sub.Topic, "new") || strings.HasPrefix(m.Sub.Topic, "nch") {
			return "sub-new"
		}
		return "sub"
	case m.Set != nil:
		var parts []string
		if m.Set.Desc != nil {
			parts = append(parts, "desc")
		}
		if m.Set.Sub != nil {
			if m.Set.Sub.User != "" && !(len(self) > 0 && m.Set.Sub.User == self[0]) {
				parts = append(parts, "sub-other")
			} else {
				parts = append(parts, "sub-self")
			}
		}
		if m.Set.Tags != nil {
			parts = append(parts, "tags")
		}
		return "set-" + strings.Join(parts, "+")
	case m.Leave != nil:
		if m.Leave.Unsub {
			return "leave-unsub"
		}
		return "leave"
	case m.Del != nil:
		return "del-" + m.Del.What
	case m.Pub != nil:
		return "pub"
	case m.Get != nil:
		return "get"
	}
	return "other"
}

func TestSim_C06(t *testing.T) {
	rapid.Check(t, func(rt *rapid.T) {
		sched := genSchedule(rt)
		prog := genPerm(rt, false, true)
		viol, st, ps := runPerm(t, sched, prog)
		st.Trigger = ps.transfers >= 1 || ps.refusedOwnerAttacks >= 2
		proc.Extra["c06.transfers"] += float64(ps.transfers)
		proc.Extra["c06.refused_owner_attacks"] += float64(ps.refusedOwnerAttacks)
		reportRun(rt, "C06", viol, st, map[string]any{"schedule": sched, "program": prog})
	})
}

func TestSim_C07(t *testing.T) {
	rapid.Check(t, func(rt *rapid.T) {
		sched := genSchedule(rt)
		prog := genPerm(rt, false)
		viol, st, ps := runPerm(t, sched, prog)
		st.Trigger = ps.requests >= 4 && len(ps.actors) >= 3 && ps.refused >= 1
		for k := range ps.actors {
			proc.Extra["c07.actor."+k]++
		}
		reportRun(rt, "C07", viol, st, map[string]any{"schedule": sched, "program": prog})
	})
}

func TestSim_C08(t *testing.T) {
	rapid.Check(t, func(rt *rapid.T) {
		sched := genSchedule(rt)
		prog := genPerm(rt, true)
		viol, st, ps := runPerm(t, sched, prog)
		st.Trigger = ps.faultLate >= 1 || simStore.Errs > 0 || w08Reloads(st) > 0
		reportRun(rt, "C08", viol, st, map[string]any{"schedule": sched, "program": prog})
	})
}

func w08Reloads(st RunStats) int { return st.Probes["perm.reload"] }
