//go:build verif

package main

// C11 — sessions can only act within their handshake and authentication state.
// C12 — secrets cannot be forged, outlive their validity, or be guessed by brute force (stateful clauses:
//       tokens issued by this server / mutated / foreign key / expired via clock jumps / across restart;
//       reset codes: at most once, retry cap, expiry; wrong passwords; case-insensitive login uniqueness).

import (
	"sort"
	"bytes"
	"crypto/hmac"
	"crypto/sha256"
	"encoding/base64"
	"encoding/binary"
	"fmt"
	"strings"
	"testing"
	"time"

	"github.com/tinode/chat/server/auth"
	"github.com/tinode/chat/server/simrt"
	"github.com/tinode/chat/server/store/types"
	"pgregory.net/rapid"
)

type auAct struct {
	Conn int    `json:"conn"` // which probe connection
	Kind string `json:"k"`
	User int    `json:"u"`
	A    int    `json:"a"`
	Jump int    `json:"jump,omitempty"` // seconds of clock jump before the action
}

type auProg struct {
	Sc   Scenario `json:"scenario"`
	Acts []auAct  `json:"acts"`
}

var auKinds = []string{"hi", "hi", "hibad", "hiold", "hi2same", "hi2diff", "loginok", "loginok", "logintoken", "loginwrongpass", "loginnouser", "loginbadscheme",
	"logintokenmut", "logintokenforeign", "logintokenserial", "logintokentrunc", "logintokenext", "getme", "getme", "subme", "pubgrp", "pubforged", "obo", "note",
	"leave", "setme", "delmsg", "accnew", "accnewcase", "reset", "codeok", "codewrong", "codewrong", "jump", "susp", "unsusp", "reconnect", "restart", "loginanon", "accrename"}

func genAuth(rt *rapid.T) auProg {
	p := auProg{Sc: genScenario(rt, 3, 1, true)}
	n := rapid.IntRange(4, 22).Draw(rt, "nacts")
	if rapid.IntRange(0, 3).Draw(rt, "starthi") != 0 {
		p.Acts = append(p.Acts, auAct{Conn: 0, Kind: "hi"}, auAct{Conn: 1, Kind: "hi"})
	}
	for i := 0; i < n; i++ {
		a := auAct{
			Conn: rapid.IntRange(0, 1).Draw(rt, "conn"),
			Kind: rapid.SampledFrom(auKinds).Draw(rt, "kind"),
			User: rapid.IntRange(0, 2).Draw(rt, "user"),
			A:    rapid.IntRange(0, 200).Draw(rt, "a"),
		}
		if a.Kind == "jump" {
			a.Jump = rapid.SampledFrom([]int{30, 600, 901, 3590, 3601, 4000, 86400}).Draw(rt, "jump")
		}
		p.Acts = append(p.Acts, a)
	}
	return p
}

// per-connection model
type auModel struct {
	Ver   bool
	VerS  string // version of the first successful handshake
	Uid   types.Uid
	Level auth.Level
}

type issuedToken struct {
	Raw     []byte
	Uid     types.Uid
	Level   auth.Level
	Expires time.Time
	NoLogin bool
}

func forgeToken(uid types.Uid, expires time.Time, lvl auth.Level, serial int, features uint16, key []byte) []byte {
	type tokenLayout struct {
		Uid          uint64
		Expires      uint32
		AuthLevel    uint16
		SerialNumber uint16
		Features     uint16
	}
	tl := tokenLayout{Uid: uint64(uid), Expires: uint32(expires.Unix()), AuthLevel: uint16(lvl), SerialNumber: uint16(serial), Features: features}
	buf := new(bytes.Buffer)
	binary.Write(buf, binary.LittleEndian, &tl)
	h := hmac.New(sha256.New, key)
	h.Write(buf.Bytes())
	return append(buf.Bytes(), h.Sum(nil)...)
}

type auStats struct {
	wrongState, privileged int
	accepted               int
	invalidKinds           map[string]bool
}

func runAuth(t *testing.T, sched simrt.Schedule, prog auProg) ([]Violation, RunStats, *auStats) {
	stt := &auStats{invalidKinds: map[string]bool{}}
	viol, st := runOne(t, sched, func(w *simWorld) []Violation {
		var out []Violation
		sc := prog.Sc
		w.configure(sc)
		key, _ := base64.StdEncoding.DecodeString(simCfg.TokenKey)
		// two probe connections, not yet connected; transport alternates
		probes := []*SimClient{w.addClient(w.Users[0]), w.addClient(w.Users[0])}
		probes[0].Transport = TransportLP
		models := []*auModel{{}, {}}
		suspended := map[int]bool{}
		var issued []issuedToken
		for _, u := range w.Users {
			issued = append(issued, issuedToken{Raw: u.Token, Uid: u.Uid, Level: u.Level, Expires: simBaseTime.Add(time.Duration(simCfg.TokenExpire) * time.Second)})
		}
		if simCfg.RequireCred {
			// half of the seeded accounts have their required credential validated
			for _, u := range w.Users {
				if u.Idx%2 == 0 {
					ensureCred(u, fmt.Sprintf("user%d@example.com", u.Idx))
				}
			}
		}
		newAccounts := map[string]types.Uid{} // lower-cased login -> uid
		type codeState struct {
			cred   string
			code   string
			wrong  int
			used   bool
			issued time.Time
			uid    types.Uid
		}
		var resetCode *codeState
		nAcc := 0

		// exec runs one isolated request on a probe connection and returns the Sent record.
		exec := func(c *SimClient, op *Op) *Sent {
			op.Isolated = true
			op.AutoConnect = true
			n := len(c.Sents)
			w.setOps(map[int][]*Op{c.Idx: {op}})
			w.rt.Run(300*time.Millisecond, nil)
			w.Enabled(true)
			if len(c.Sents) > n {
				return c.Sents[len(c.Sents)-1]
			}
			return nil
		}
		reply := func(c *SimClient, s *Sent) int {
			if s == nil {
				return -1
			}
			if s.Code != 0 {
				return s.Code
			}
			for i := len(c.Frames) - 1; i >= 0; i-- {
				f := c.Frames[i]
				if f.Ev < s.Ev {
					break
				}
				if f.Msg.Ctrl != nil && f.Msg.Ctrl.Id == "" {
					return f.Msg.Ctrl.Code
				}
				if f.Msg.Meta != nil && f.Msg.Meta.Id == s.Id {
					return 200
				}
			}
			return 0
		}
		// whoAmI asks the server who the session is: {get me desc} answers only for an authenticated session.
		checkIdentity := func(ci int, where string) {
			c, m := probes[ci], models[ci]
			if !c.Connected {
				return
			}
			sess := w.sessionOf(c)
			if c.Transport == TransportLP {
				for _, s := range globals.sessionStore.sessCache {
					if s.sid == c.lpSid {
						sess = s
					}
				}
			}
			if sess == nil {
				return
			}
			if sess.uid != m.Uid {
				out = append(out, vio("C11", "session-identity", "%s: probe connection %d is authenticated as %s, the model says %s", where, ci, sess.uid.UserId(), m.Uid.UserId()))
				m.Uid, m.Level = sess.uid, sess.authLvl
			}
			if !m.Uid.IsZero() && sess.authLvl != m.Level {
				out = append(out, vio("C11", "session-level", "%s: probe connection %d has level %v, the model says %v", where, ci, sess.authLvl, m.Level))
			}
			if (sess.ver != 0) != m.Ver {
				out = append(out, vio("C11", "session-version", "%s: probe connection %d has version %d, the model says handshake done=%v", where, ci, sess.ver, m.Ver))
				m.Ver = sess.ver != 0
			}
		}

		for ai, a := range prog.Acts {
			ci := a.Conn % 2
			c, m := probes[ci], models[ci]
			u := w.Users[a.User%len(w.Users)]
			where := fmt.Sprintf("act %d (%s)", ai, a.Kind)
			tokenLogin := func(tok []byte) *Sent {
				return exec(c, opMsg(&ClientComMessage{Login: &MsgClientLogin{Scheme: "token", Secret: tok}}))
			}
			// expected outcome of a login attempt in the current state
			judgeLogin := func(s *Sent, valid bool, uid types.Uid, lvl auth.Level, label string) {
				code := reply(c, s)
				switch {
				case !m.Ver:
					if code < 400 {
						out = append(out, vio("C11", "login-before-hi", "%s: login answered %d before handshake", where, code))
					}
				case !m.Uid.IsZero():
					if code < 400 {
						out = append(out, vio("C11", "second-login-accepted", "%s: second login (%s) answered %d on an authenticated session", where, label, code))
					}
				case valid:
					if code >= 200 && code < 300 {
						m.Uid, m.Level = uid, lvl
						stt.accepted++
					} else if code != 300 || !simCfg.RequireCred {
						out = append(out, vio("C12", "valid-secret-refused "+label, "%s: valid %s for %s answered %d", where, label, uid.UserId(), code))
					}
				default:
					stt.invalidKinds[label] = true
					if code >= 200 && code < 300 {
						out = append(out, vio("C12", "invalid-secret-accepted "+label, "%s: %s answered %d", where, label, code))
					}
				}
				checkIdentity(ci, where)
			}
			privileged := func(s *Sent, kind string) {
				code := reply(c, s)
				stt.privileged++
				if !m.Ver || m.Uid.IsZero() {
					stt.wrongState++
					if code > 0 && code < 400 {
						out = append(out, vio("C11", "served-in-wrong-state "+kind, "%s: %s answered %d with handshake=%v user=%s", where, kind, code, m.Ver, m.Uid.UserId()))
					}
				}
			}
			switch a.Kind {
			case "hi":
				s := exec(c, opHi())
				code := reply(c, s)
				switch {
				case !m.Ver && code >= 200 && code < 300:
					m.Ver, m.VerS = true, "0.23"
				case !m.Ver:
					out = append(out, vio("C11", "valid-hi-refused", "%s: {hi ver=0.23} answered %d", where, code))
				case m.VerS != "0.23" && code < 400:
					out = append(out, vio("C11", "version-changed", "%s: {hi ver=0.23} after handshake with %s answered %d", where, m.VerS, code))
				}
			case "hibad", "hiold":
				ver := "garbage"
				if a.Kind == "hiold" {
					ver = "0.1"
				}
				s := exec(c, opMsg(&ClientComMessage{Hi: &MsgClientHi{Version: ver}}))
				code := reply(c, s)
				if !m.Ver && code < 400 {
					out = append(out, vio("C11", "bad-version-accepted", "%s: {hi ver=%q} answered %d", where, ver, code))
				}
				if m.Ver && code < 400 {
					out = append(out, vio("C11", "version-changed", "%s: second {hi ver=%q} answered %d", where, ver, code))
				}
			case "hi2same":
				s := exec(c, opMsg(&ClientComMessage{Hi: &MsgClientHi{Version: "0.23", DeviceID: "dev" + fmt.Sprint(ci)}}))
				code := reply(c, s)
				if !m.Ver && code >= 200 && code < 300 {
					m.Ver, m.VerS = true, "0.23"
				} else if m.Ver && m.VerS != "0.23" && code < 400 {
					out = append(out, vio("C11", "version-changed", "%s: {hi ver=0.23} after handshake with %s answered %d", where, m.VerS, code))
				}
			case "hi2diff":
				s := exec(c, opMsg(&ClientComMessage{Hi: &MsgClientHi{Version: "0.22"}}))
				code := reply(c, s)
				if m.Ver && m.VerS != "0.22" && code < 400 {
					out = append(out, vio("C11", "version-changed", "%s: {hi ver=0.22} after handshake with %s answered %d", where, m.VerS, code))
				}
				if !m.Ver && code >= 200 && code < 300 {
					m.Ver, m.VerS = true, "0.22"
				}
			case "loginok":
				// with required credential validation: the login succeeds only when the account's credential is
				// validated (else 300 and no identity), and a store failure while looking that up must not log in
				faulty := simCfg.RequireCred && a.A%4 == 0
				if faulty {
					simStore.Fault = &faultPlan{FailAt: 1, FailMethod: "CredGetAll"}
					simrt.Probe("fault.store_armed")
				}
				s := exec(c, opLogin(u.Idx, "basic"))
				fired := simStore.Fault != nil && simStore.Fault.Fired
				simStore.Fault = nil
				valid := !suspended[u.Idx] && w.Disk.Users[u.Uid] != nil
				need := simCfg.RequireCred && u.Level == auth.LevelAuth && !hasValidatedCred(w, u.Uid)
				if valid && m.Ver && m.Uid.IsZero() && (fired || need) {
					code := reply(c, s)
					switch {
					case code >= 200 && code < 300 && fired:
						simrt.Probe("fault.store_err")
						out = append(out, vio("C11", "login-despite-store-failure", "%s: password login of %s answered %d although the credential lookup failed", where, u.Uid.UserId(), code))
						m.Uid, m.Level = u.Uid, u.Level
					case code >= 200 && code < 300:
						out = append(out, vio("C11", "login-with-unvalidated-credential", "%s: password login of %s answered %d although its required credential is not validated", where, u.Uid.UserId(), code))
						m.Uid, m.Level = u.Uid, u.Level
					case fired:
						simrt.Probe("fault.store_err")
					case code != 300:
						out = append(out, vio("C12", "valid-secret-refused password", "%s: valid password for %s (credential not validated) answered %d, expected 300", where, u.Uid.UserId(), code))
					default:
						simrt.Probe("c11.login_needs_validation")
					}
					checkIdentity(ci, where)
				} else {
					judgeLogin(s, valid, u.Uid, u.Level, "password")
				}
			case "logintoken":
				var tk *issuedToken
				for i := range issued {
					if issued[(i+a.A)%len(issued)].Uid == u.Uid {
						tk = &issued[(i+a.A)%len(issued)]
					}
				}
				if tk == nil {
					continue
				}
				s := tokenLogin(tk.Raw)
				valid := time.Now().Add(time.Second).Before(tk.Expires) && !suspended[u.Idx] && w.Disk.Users[u.Uid] != nil
				label := "token"
				if !time.Now().Add(time.Second).Before(tk.Expires) {
					label = "expired-token"
				}
				if suspended[u.Idx] {
					label = "token-of-suspended-account"
				}
				if tk.NoLogin {
					// a restricted token validates but must not authenticate the session
					code := reply(c, s)
					if m.Ver && m.Uid.IsZero() && code >= 200 && code < 300 {
						stt.invalidKinds["no-login-token"] = true
					}
					checkIdentity(ci, where)
					continue
				}
				judgeLogin(s, valid, tk.Uid, tk.Level, label)
			case "loginwrongpass":
				s := exec(c, opMsg(&ClientComMessage{Login: &MsgClientLogin{Scheme: "basic", Secret: []byte(u.Login + ":wrong" + fmt.Sprint(a.A))}}))
				judgeLogin(s, false, u.Uid, u.Level, "wrong-password")
			case "loginnouser":
				s := exec(c, opMsg(&ClientComMessage{Login: &MsgClientLogin{Scheme: "basic", Secret: []byte(fmt.Sprintf("nobody%d:pass", a.A))}}))
				judgeLogin(s, false, u.Uid, u.Level, "unknown-login")
			case "loginbadscheme":
				s := exec(c, opMsg(&ClientComMessage{Login: &MsgClientLogin{Scheme: "nosuch", Secret: []byte("x")}}))
				judgeLogin(s, false, u.Uid, u.Level, "unknown-scheme")
			case "loginanon":
				s := exec(c, opMsg(&ClientComMessage{Login: &MsgClientLogin{Scheme: "anonymous", Secret: []byte("")}}))
				judgeLogin(s, false, u.Uid, u.Level, "anonymous-login")
			case "logintokenmut":
				tok := append([]byte{}, u.Token...)
				pos := a.A % len(tok)
				tok[pos] ^= 1 << uint(a.A%8)
				judgeLogin(tokenLogin(tok), false, u.Uid, u.Level, "bit-flipped-token")
			case "logintokentrunc":
				tok := append([]byte{}, u.Token...)
				judgeLogin(tokenLogin(tok[:len(tok)-1-a.A%8]), false, u.Uid, u.Level, "truncated-token")
			case "logintokenext":
				tok := append(append([]byte{}, u.Token...), byte(a.A), 0, 1)
				valid := time.Now().Add(time.Second).Before(issued[u.Idx].Expires) && !suspended[u.Idx] && w.Disk.Users[u.Uid] != nil
				judgeLogin(tokenLogin(tok), valid, u.Uid, u.Level, "extended-token") // trailing bytes: signed part intact (DESIGN 5.0)
			case "logintokenforeign":
				other := sha256.Sum256([]byte("another key"))
				tok := forgeToken(u.Uid, time.Now().Add(time.Hour), auth.LevelRoot, simCfg.TokenSerial, uint16(auth.FeatureValidated), other[:])
				judgeLogin(tokenLogin(tok), false, u.Uid, auth.LevelRoot, "foreign-key-token")
			case "logintokenserial":
				tok := forgeToken(u.Uid, time.Now().Add(time.Hour), u.Level, simCfg.TokenSerial+1, uint16(auth.FeatureValidated), key)
				judgeLogin(tokenLogin(tok), false, u.Uid, u.Level, "wrong-serial-token")
			case "getme":
				privileged(exec(c, opGet("me", "desc")), "get")
			case "subme":
				s := exec(c, opSub("me", "", ""))
				privileged(s, "sub")
			case "leave":
				privileged(exec(c, opLeave("me", false)), "leave")
			case "setme":
				privileged(exec(c, opMsg(&ClientComMessage{Set: &MsgClientSet{Topic: "me", MsgSetQuery: MsgSetQuery{Desc: &MsgSetDesc{Public: map[string]any{"fn": "x"}}}}})), "set")
			case "delmsg":
				if len(w.Groups) == 0 || w.Groups[0] == "" {
					continue
				}
				privileged(exec(c, opDelMsg("@grp0", false, MsgDelRange{LowId: 1})), "del")
			case "note":
				if len(w.Groups) == 0 {
					continue
				}
				n := len(c.Frames)
				exec(c, opNote("@grp0", "read", 1))
				if (!m.Ver || m.Uid.IsZero()) && len(c.Frames) > n {
					out = append(out, vio("C11", "note-answered-in-wrong-state", "%s: a note before handshake/login produced %s", where, frameSummary(c.Frames[n].Msg)))
				}
			case "pubgrp", "pubforged":
				if len(w.Groups) == 0 || w.Groups[0] == "" {
					continue
				}
				// attach first (ignored when not allowed), then publish and look at what the owner's session receives
				exec(c, opSub("@grp0", "", ""))
				tag := fmt.Sprintf("au%d", ai)
				op := opPub("@grp0", tag, false)
				if a.Kind == "pubforged" {
					op.Msg.Pub.Head = map[string]any{"sender": w.Users[(a.User+1)%len(w.Users)].Uid.UserId()}
				}
				s := exec(c, op)
				privileged(s, "pub")
				if reply(c, s) == 202 {
					for _, cl := range w.Clients {
						for _, f := range cl.Frames {
							if f.Msg.Data != nil && f.Msg.Data.Content == any(tag) {
								if cl.Attached[f.Msg.Data.Topic] || true {
									if !strings.HasPrefix(f.Msg.Data.Topic, "chn") && f.Msg.Data.From != m.Uid.UserId() {
										out = append(out, vio("C11", "wrong-author", "%s: message %q published by the session of %s is delivered with from=%q", where, tag, m.Uid.UserId(), f.Msg.Data.From))
									}
									if sdr, ok := f.Msg.Data.Head["sender"]; ok {
										out = append(out, vio("C11", "sender-header-kept", "%s: message %q delivered with head.sender=%v", where, tag, sdr))
									}
								}
							}
						}
					}
				}
			case "obo":
				target := w.Users[(a.User+1)%len(w.Users)]
				s := exec(c, opGet("me", "desc").obo(target.Uid.UserId()))
				code := reply(c, s)
				if m.Ver && !m.Uid.IsZero() && m.Level != auth.LevelRoot && code < 400 {
					out = append(out, vio("C11", "obo-by-non-root", "%s: {get extra.obo=%s} by a session of level %v answered %d", where, target.Uid.UserId(), m.Level, code))
				}
				if !m.Ver || m.Uid.IsZero() {
					if code > 0 && code < 400 {
						out = append(out, vio("C11", "obo-in-wrong-state", "%s: obo request answered %d with handshake=%v user=%s", where, code, m.Ver, m.Uid.UserId()))
					}
				}
			case "accnew", "accnewcase":
				login := fmt.Sprintf("Newbie%d", nAcc)
				if a.Kind == "accnewcase" && nAcc > 0 {
					login = strings.ToUpper(fmt.Sprintf("newbie%d", nAcc-1)) // same login, different case
				} else {
					nAcc++
				}
				doLogin := a.A%2 == 0
				s := exec(c, opMsg(&ClientComMessage{Acc: &MsgClientAcc{User: "new", Scheme: "basic", Secret: []byte(login + ":secret123"), Login: doLogin,
					Desc: &MsgSetDesc{Public: map[string]any{"fn": login}}, Cred: []MsgCredClient{{Method: "simcred", Value: strings.ToLower(login) + "@example.com"}}}}))
				code := reply(c, s)
				lower := strings.ToLower(login)
				_, exists := newAccounts[lower]
				switch {
				case !m.Ver:
					if code < 400 {
						out = append(out, vio("C11", "acc-before-hi", "%s: {acc new} answered %d before handshake", where, code))
					}
				case exists:
					if code >= 200 && code < 300 {
						out = append(out, vio("C12", "duplicate-login-accepted", "%s: a second account with login %q (differs only in case) was created", where, login))
					}
				case code >= 200 && code < 300:
					var uid types.Uid
					if s.Ctrl != nil {
						if pm, ok := s.Ctrl.Params.(map[string]any); ok {
							if us, ok := pm["user"].(string); ok {
								uid = types.ParseUserId(us)
							}
						}
					}
					newAccounts[lower] = uid
					if doLogin && m.Uid.IsZero() && !simCfg.RequireCred {
						m.Uid, m.Level = uid, auth.LevelAuth
					}
				}
				checkIdentity(ci, where)
			case "accrename":
				// change own login to another account's login spelled in upper case: logins are unique regardless of case
				v := w.Users[(a.User+1+a.A%2)%len(w.Users)]
				if v.Uid == m.Uid || w.Disk.Users[v.Uid] == nil {
					continue
				}
				s := exec(c, opMsg(&ClientComMessage{Acc: &MsgClientAcc{User: "", Scheme: "basic", Secret: []byte(strings.ToUpper(v.Login) + ":stolen" + fmt.Sprint(a.A))}}))
				code := reply(c, s)
				if code >= 200 && code < 300 {
					out = append(out, vio("C12", "login-renamed-to-existing", "%s: session of %s changed its login to %q which differs from the login of %s only in case: answered %d", where, m.Uid.UserId(), strings.ToUpper(v.Login), v.Uid.UserId(), code))
				} else {
					simrt.Probe("c12.rename_conflict_refused")
				}
				checkIdentity(ci, where)
			case "reset":
				// reset flow for a seeded user: needs a validated credential
				cred := fmt.Sprintf("user%d@example.com", u.Idx)
				if w.Disk.Users[u.Uid] == nil {
					continue
				}
				ensureCred(u, cred)
				nreq := len(simCred.Requests)
				s := exec(c, opMsg(&ClientComMessage{Login: &MsgClientLogin{Scheme: "reset", Secret: []byte("basic:simcred:" + cred)}}))
				code := reply(c, s)
				if m.Ver && code >= 200 && code < 300 && len(simCred.Requests) > nreq {
					r := simCred.Requests[len(simCred.Requests)-1]
					resetCode = &codeState{cred: "simcred:" + cred, code: r.Code, issued: time.Now(), uid: u.Uid}
				}
				checkIdentity(ci, where)
			case "codeok", "codewrong":
				if resetCode == nil {
					continue
				}
				code := resetCode.code
				if a.Kind == "codewrong" {
					code = fmt.Sprintf("%06d", (a.A*7919+13)%1000000)
					if code == resetCode.code {
						code = "000001"
					}
				}
				s := exec(c, opMsg(&ClientComMessage{Acc: &MsgClientAcc{User: resetCode.uid.UserId(), TmpScheme: "code", TmpSecret: []byte(code + ":" + resetCode.cred),
					Scheme: "basic", Secret: []byte(fmt.Sprintf("user%d:pass%d", userIdxOf(w, resetCode.uid), userIdxOf(w, resetCode.uid)))}}))
				rc := reply(c, s)
				expired := time.Since(resetCode.issued) > time.Duration(simCfg.CodeExpire)*time.Second
				ok := rc >= 200 && rc < 300
				if m.Ver && m.Uid.IsZero() {
					switch {
					case a.Kind == "codewrong":
						simrt.Probe("c12.reset_code_wrong_guess")
						resetCode.wrong++
						if ok {
							out = append(out, vio("C12", "wrong-code-accepted", "%s: wrong reset code answered %d", where, rc))
						}
					case ok:
						simrt.Probe("c12.reset_code_accepted")
						if resetCode.used {
							out = append(out, vio("C12", "code-accepted-twice", "%s: reset code accepted a second time", where))
						}
						if resetCode.wrong >= simCfg.CodeRetries {
							out = append(out, vio("C12", "code-accepted-after-retry-cap", "%s: reset code accepted after %d wrong guesses (cap %d)", where, resetCode.wrong, simCfg.CodeRetries))
						}
						if expired {
							out = append(out, vio("C12", "expired-code-accepted", "%s: reset code accepted %v after it was issued (lifetime %ds)", where, time.Since(resetCode.issued), simCfg.CodeExpire))
						}
						resetCode.used = true
						stt.accepted++
					default:
						if !resetCode.used && resetCode.wrong < simCfg.CodeRetries && !expired && w.Disk.Users[resetCode.uid] != nil {
							out = append(out, vio("C12", "valid-code-refused", "%s: correct reset code answered %d (wrong guesses so far %d)", where, rc, resetCode.wrong))
						}
						resetCode.wrong++ // a refused correct guess counts as an attempt
					}
				}
				checkIdentity(ci, where) // the reset flow never logs the session in
			case "jump":
				w.rt.Advance(time.Duration(a.Jump) * time.Second)
				simrt.Probe("fault.clock_jump")
			case "susp", "unsusp":
				if sc.Root < 0 || u.Idx == sc.Root {
					continue
				}
				rc := w.clientsOf(sc.Root)[0]
				if !rc.Connected {
					continue
				}
				state := "susp"
				if a.Kind == "unsusp" {
					state = "ok"
				}
				s := exec(rc, opMsg(&ClientComMessage{Acc: &MsgClientAcc{User: u.Uid.UserId(), State: state}}))
				if s != nil && s.Code >= 200 && s.Code < 300 {
					suspended[u.Idx] = a.Kind == "susp"
					if a.Kind == "susp" {
						for i, pm := range models {
							if pm.Uid == u.Uid {
								*models[i] = auModel{} // evicted
							}
						}
					}
				}
			case "reconnect":
				exec(c, &Op{Kind: OpDisconnect, CreatesGroup: -1})
				*m = auModel{}
			case "restart":
				w.crashRestart()
				w.settle()
				for i := range models {
					*models[i] = auModel{}
				}
			}
			// collect tokens the server issues (login replies) for later replay
			for _, pc := range probes {
				for _, s := range pc.Sents {
					if s.Ctrl != nil && s.Code >= 200 && s.Code < 300 && (s.Msg.Login != nil || s.Msg.Acc != nil) {
						if pm, ok := s.Ctrl.Params.(map[string]any); ok && pm["token"] != nil && s.Op != nil && s.Op.Note == "" {
							s.Op.Note = "token-collected"
							var raw []byte
							switch tv := pm["token"].(type) {
							case string:
								raw, _ = base64.StdEncoding.DecodeString(tv)
							case []byte:
								raw = tv
							}
							if len(raw) >= 50 {
								uid := types.Uid(binary.LittleEndian.Uint64(raw[0:8]))
								exp := time.Unix(int64(binary.LittleEndian.Uint32(raw[8:12])), 0)
								lvl := auth.Level(binary.LittleEndian.Uint16(raw[12:14]))
								feat := binary.LittleEndian.Uint16(raw[16:18])
								issued = append(issued, issuedToken{Raw: raw, Uid: uid, Level: lvl, Expires: exp, NoLogin: auth.Feature(feat)&auth.FeatureNoLogin != 0})
							}
						}
					}
				}
			}
			if r := len(w.rt.Panics); r > 0 {
				return out
			}
		}
		// logins are unique regardless of letter case
		seenLogin := map[string]string{}
		var unames []string
		for un := range w.Disk.Auth {
			unames = append(unames, un)
		}
		sort.Strings(unames)
		for _, un := range unames {
			if ar := w.Disk.Auth[un]; ar.Scheme == "basic" {
				if prev, dup := seenLogin[strings.ToLower(un)]; dup {
					out = append(out, vio("C12", "logins-differ-only-in-case", "the store holds the logins %q and %q", prev, un))
				}
				seenLogin[strings.ToLower(un)] = un
			}
		}
		return out
	})
	st.ProgHash = hashOf(prog)
	return viol, st, stt
}

func userIdxOf(w *simWorld, uid types.Uid) int {
	for _, u := range w.Users {
		if u.Uid == uid {
			return u.Idx
		}
	}
	return 0
}

// hasValidatedCred reports whether the account has a validated, live credential of the required method.
func hasValidatedCred(w *simWorld, uid types.Uid) bool {
	for _, cr := range w.Disk.Credentials {
		if cr.User == uid && cr.Done && cr.DeletedAt == nil && cr.Method == simCredName {
			return true
		}
	}
	return false
}

// ensureCred gives a seeded user a validated credential (what replyCreateUser + validation would leave behind).
func ensureCred(u *simUser, value string) {
	if u.CredDone {
		return
	}
	u.CredDone = true
	if _, err := storeUsersUpsertCred(u.Uid, simCredName, value); err != nil {
		panic(err)
	}
}

func TestSim_C11(t *testing.T) {
	rapid.Check(t, func(rt *rapid.T) {
		sched := genSchedule(rt)
		prog := genAuth(rt)
		viol, st, ps := runAuth(t, sched, prog)
		st.Trigger = ps.wrongState >= 1 && ps.privileged > ps.wrongState
		reportRun(rt, "C11", viol, st, map[string]any{"schedule": sched, "program": prog})
	})
}

func TestSim_C12(t *testing.T) {
	rapid.Check(t, func(rt *rapid.T) {
		sched := genSchedule(rt)
		prog := genAuth(rt)
		viol, st, ps := runAuth(t, sched, prog)
		st.Trigger = ps.accepted >= 1 && len(ps.invalidKinds) >= 3
		for k := range ps.invalidKinds {
			proc.Extra["c12.invalid_secret."+k]++
		}
		reportRun(rt, "C12", viol, st, map[string]any{"schedule": sched, "program": prog})
	})
}
