//go:build verif

package main

// Symbolic client operations and their resolution to wire messages.
//
// Topic and user references inside a message template are placeholders resolved when the
// operation fires, from what the world knows at that moment:
//   @grpN  name of workload group topic N        @chnN  its channel spelling
//   @usrN  user id (usrXXX) of workload user N    @p2pA_B the p2p topic name of users A and B
//   @uidN  same as @usrN (for user fields)

import (
	"encoding/json"
	"fmt"
	"regexp"
	"strconv"
	"time"

	"github.com/tinode/chat/server/store/types"
)

type OpKind string

const (
	OpConnect    OpKind = "connect"
	OpDisconnect OpKind = "disconnect"
	OpStall      OpKind = "stall"
	OpUnstall    OpKind = "unstall"
	OpSleep      OpKind = "sleep"
	OpHi         OpKind = "hi"
	OpLogin      OpKind = "login"
	OpMsg        OpKind = "msg" // any templated client message
)

type Op struct {
	Kind         OpKind
	Delay        time.Duration // wait this long (simulated) after the previous op of this client
	NoWait       bool          // do not wait for the reply to the previous request
	Isolated     bool          // fire only when the world is idle and nothing is in flight (exact-oracle probe)
	Dup          bool          // send the request twice (client retry)
	AutoConnect  bool
	Msg          *ClientComMessage
	LoginUser    int    // OpLogin: workload user index
	LoginScheme  string // "basic" | "token"
	BadSecret    bool
	CreatesGroup int // OpMsg {sub new}: registers the created name as group N (-1 = no)
	KeepID       bool
	Tag          string // unique content tag for publishes
	Note         string // free-form label for oracles
	Raw          []byte // exact bytes to put on the wire (JSON transports only)
	Mut, MutArg  int    // mutation applied to the marshalled JSON (JSON transports only)
}

func (o *Op) String() string {
	if o.Msg != nil {
		return string(o.Kind) + ":" + canon(o.Msg)
	}
	if o.Kind == OpLogin {
		return fmt.Sprintf("login:u%d/%s", o.LoginUser, o.LoginScheme)
	}
	return string(o.Kind)
}

var placeholderRe = regexp.MustCompile(`@(grp|chn|usr|uid)(\d+)|@p2p(\d+)_(\d+)`)

// resolve turns an op into a concrete message; nil means "cannot be resolved now" (skipped).
func (w *simWorld) resolve(c *SimClient, op *Op) *ClientComMessage {
	var msg *ClientComMessage
	switch op.Kind {
	case OpHi:
		if op.Msg != nil {
			msg = cloneMsg(op.Msg)
		} else {
			msg = &ClientComMessage{Hi: &MsgClientHi{Version: "0.23", UserAgent: fmt.Sprintf("simclient/%d", c.Idx)}}
		}
	case OpLogin:
		u := w.Users[op.LoginUser%len(w.Users)]
		lg := &MsgClientLogin{Scheme: op.LoginScheme}
		switch op.LoginScheme {
		case "token":
			lg.Secret = append([]byte{}, u.Token...)
		default:
			lg.Scheme = "basic"
			lg.Secret = []byte(u.Login + ":" + u.Pass)
		}
		if op.BadSecret {
			lg.Secret = append(lg.Secret, 'x')
		}
		msg = &ClientComMessage{Login: lg}
	case OpMsg:
		b, err := json.Marshal(op.Msg)
		must(err)
		missing := false
		s := placeholderRe.ReplaceAllStringFunc(string(b), func(m string) string {
			sm := placeholderRe.FindStringSubmatch(m)
			if sm[3] != "" {
				a, _ := strconv.Atoi(sm[3])
				b, _ := strconv.Atoi(sm[4])
				return w.Users[a%len(w.Users)].Uid.P2PName(w.Users[b%len(w.Users)].Uid)
			}
			n, _ := strconv.Atoi(sm[2])
			switch sm[1] {
			case "grp", "chn":
				if n >= len(w.Groups) || w.Groups[n] == "" {
					missing = true
					return m
				}
				if sm[1] == "chn" {
					return types.GrpToChn(w.Groups[n])
				}
				return w.Groups[n]
			default:
				return w.Users[n%len(w.Users)].Uid.UserId()
			}
		})
		if missing {
			return nil
		}
		msg = &ClientComMessage{}
		must(json.Unmarshal([]byte(s), msg))
	default:
		return nil
	}
	if !op.KeepID {
		setMsgID(msg, c.newID())
	}
	return msg
}

func cloneMsg(m *ClientComMessage) *ClientComMessage {
	b, err := json.Marshal(m)
	must(err)
	out := &ClientComMessage{}
	must(json.Unmarshal(b, out))
	return out
}

func setMsgID(m *ClientComMessage, id string) {
	// a message carrying several parts gets the same id on each (the server decides which part it honours)
	if m.Hi != nil {
		m.Hi.Id = id
	}
	if m.Acc != nil {
		m.Acc.Id = id
	}
	if m.Login != nil {
		m.Login.Id = id
	}
	if m.Sub != nil {
		m.Sub.Id = id
	}
	if m.Leave != nil {
		m.Leave.Id = id
	}
	if m.Pub != nil {
		m.Pub.Id = id
	}
	if m.Get != nil {
		m.Get.Id = id
	}
	if m.Set != nil {
		m.Set.Id = id
	}
	if m.Del != nil {
		m.Del.Id = id
	}
}

// ---- constructors ------------------------------------------------------------------------------

func opHi() *Op { return &Op{Kind: OpHi, AutoConnect: true, CreatesGroup: -1} }

func opHiBkg() *Op {
	return &Op{Kind: OpHi, AutoConnect: true, CreatesGroup: -1,
		Msg: &ClientComMessage{Hi: &MsgClientHi{Version: "0.23", UserAgent: "simclient/bkg", Background: true}}}
}

func opLogin(user int, scheme string) *Op {
	return &Op{Kind: OpLogin, LoginUser: user, LoginScheme: scheme, CreatesGroup: -1}
}

func opMsg(m *ClientComMessage) *Op { return &Op{Kind: OpMsg, Msg: m, CreatesGroup: -1} }

func opSub(topic string, mode string, get string) *Op {
	sub := &MsgClientSub{Topic: topic}
	if mode != "" {
		sub.Set = &MsgSetQuery{Sub: &MsgSetSub{Mode: mode}}
	}
	if get != "" {
		sub.Get = &MsgGetQuery{What: get}
	}
	return opMsg(&ClientComMessage{Sub: sub})
}

func opLeave(topic string, unsub bool) *Op {
	return opMsg(&ClientComMessage{Leave: &MsgClientLeave{Topic: topic, Unsub: unsub}})
}

func opPub(topic, tag string, noecho bool) *Op {
	o := opMsg(&ClientComMessage{Pub: &MsgClientPub{Topic: topic, NoEcho: noecho, Content: tag}})
	o.Tag = tag
	return o
}

func opGet(topic, what string) *Op {
	return opMsg(&ClientComMessage{Get: &MsgClientGet{Topic: topic, MsgGetQuery: MsgGetQuery{What: what}}})
}

func opNote(topic, what string, seq int) *Op {
	return opMsg(&ClientComMessage{Note: &MsgClientNote{Topic: topic, What: what, SeqId: seq}})
}

func opSetSub(topic, user, mode string) *Op {
	return opMsg(&ClientComMessage{Set: &MsgClientSet{Topic: topic, MsgSetQuery: MsgSetQuery{Sub: &MsgSetSub{User: user, Mode: mode}}}})
}

func opDelMsg(topic string, hard bool, ranges ...MsgDelRange) *Op {
	return opMsg(&ClientComMessage{Del: &MsgClientDel{Topic: topic, What: "msg", Hard: hard, DelSeq: ranges}})
}

func opDelTopic(topic string, hard bool) *Op {
	return opMsg(&ClientComMessage{Del: &MsgClientDel{Topic: topic, What: "topic", Hard: hard}})
}

func opDelSub(topic, user string) *Op {
	return opMsg(&ClientComMessage{Del: &MsgClientDel{Topic: topic, What: "sub", User: user}})
}

func (o *Op) after(d time.Duration) *Op { o.Delay = d; return o }
func (o *Op) nowait() *Op               { o.NoWait = true; return o }
func (o *Op) iso() *Op                  { o.Isolated = true; return o }
func (o *Op) obo(user string) *Op {
	if o.Msg.Extra == nil {
		o.Msg.Extra = &MsgClientExtra{}
	}
	o.Msg.Extra.AsUser = user
	return o
}
