//go:build verif

package main

import (
	"fmt"
	"os"
	"testing"

	"github.com/tinode/chat/server/auth"
	"github.com/tinode/chat/server/simrt"
	"github.com/tinode/chat/server/store/types"
)

func TestSim_Smoke(t *testing.T) {
	for pol := 0; pol < simrt.NumPolicies; pol++ {
		var hashes []string
		for rep := 0; rep < 2; rep++ {
			viol, st := runOne(t, simrt.Schedule{Policy: pol, Seed: 7, Knob: 2}, func(w *simWorld) []Violation {
				for i := 0; i < 3; i++ {
					w.Users = append(w.Users, seedUser(i, auth.LevelAuth, types.ModeCAuth, types.ModeNone))
				}
				for i := 0; i < 3; i++ {
					c := w.addClient(w.Users[i])
					if i == 1 {
						c.Transport = TransportLP
					}
				}
				w.setOps(map[int][]*Op{
					0: {opHi(), opLogin(0, "basic"), opSub("me", "", "desc sub"), func() *Op { o := opSub("new", "", "desc"); o.CreatesGroup = 0; return o }(), opPub("@grp0", "m0.1", false)},
					1: {opHi(), opLogin(1, "token"), opSub("me", "", ""), opSub("@usr0", "", "desc"), opPub("@usr0", "m1.1", false)},
					2: {opHi(), opLogin(2, "basic"), opSub("@grp0", "", "desc sub data").after(2e9), opPub("@grp0", "m2.1", false), opGet("@grp0", "data")},
				})
				r := w.settle()
				if os.Getenv("SIM_SHOW") != "" && rep == 0 {
					for _, c := range w.Clients {
						for _, f := range c.Frames {
							fmt.Printf("c%d ev%d %s\n", c.Idx, f.Ev, frameSummary(f.Msg))
						}
					}
					fmt.Println("run result", r, "tasks", w.liveTasks())
					fmt.Println(w.Disk.Dump())
				}
				return nil
			})
			if len(viol) > 0 {
				t.Fatalf("violations: %v", viol)
			}
			hashes = append(hashes, st.LogHash+" "+st.StateHash)
			t.Logf("policy %d: steps=%d sim=%.1fs log=%s state=%s probes=%v", pol, st.Steps, st.SimSeconds, st.LogHash, st.StateHash, st.Probes)
		}
		if hashes[0] != hashes[1] {
			t.Fatalf("policy %d: nondeterministic %v", pol, hashes)
		}
	}
}
