//go:build verif

package main

import (
	"encoding/json"
	"fmt"

	"github.com/tinode/chat/server/simrt"
)

// simOrderKeys gives pointer-typed map keys a stable, replayable order.
func simOrderKeys() {
	simrt.OrderKeyDefault = func(k any) string {
		switch v := k.(type) {
		case *Session:
			return v.sid
		case *Topic:
			return v.name
		case *ClusterNode:
			return v.name
		}
		panic(fmt.Sprintf("simrt: no stable order for map key of type %T", k))
	}
}

func jsonUnmarshalBytes(b []byte, v any) error { return json.Unmarshal(b, v) }
