//go:build verif

package main

// Test entry points of the simulator: process setup, one-run wrapper, result collection.

import (
	"crypto/sha256"
	"encoding/hex"
	"encoding/json"
	"fmt"
	"os"
	"sort"
	"strconv"
	"strings"
	"testing"
	"testing/synctest"
	"time"

	"github.com/tinode/chat/server/db/simdb"
	"github.com/tinode/chat/server/simrt"
	"pgregory.net/rapid"
)

// Violation is one failed oracle predicate.
type Violation struct {
	Property string `json:"property"`
	Key      string `json:"key"`  // stable class key (predicate + witness class) used for known-findings matching
	Text     string `json:"text"` // human readable detail
}

func (v Violation) String() string { return v.Property + " " + v.Key + ": " + v.Text }

// RunStats is what one simulated run reports into the evidence.
type RunStats struct {
	Steps      int            `json:"steps"`
	Decisions  int            `json:"decisions"`
	Switches   int            `json:"switches"`
	SimSeconds float64        `json:"sim_seconds"`
	Probes     map[string]int `json:"probes"`
	Trigger    bool           `json:"trigger"`
	ProgHash   string         `json:"prog_hash"`
	SchedHash  string         `json:"sched_hash"`
	StateHash  string         `json:"state_hash"`
	LogHash    string         `json:"log_hash"`
	Policy     int            `json:"policy"`
	Crashes    int            `json:"crashes"`
	StoreErrs  int            `json:"store_errs"`
	Ops        int            `json:"ops"`
	Tasks      int            `json:"tasks"`
}

// procResult accumulates over all runs of this OS process and is written to $SIM_OUT.
type procResult struct {
	Property    string             `json:"property"`
	Seed        uint64             `json:"seed"`
	Runs        int                `json:"runs"`
	Triggered   int                `json:"triggered"`
	Steps       int                `json:"steps"`
	SimSeconds  float64            `json:"sim_seconds"`
	Probes      map[string]int     `json:"probes"`
	Distinct    map[string]bool    `json:"-"`
	DistinctN   []string           `json:"distinct_nontrivial_keys"`
	Scheds      map[string]bool    `json:"-"`
	SchedKeys   []string           `json:"sched_keys"`
	States      map[string]bool    `json:"-"`
	StateKeys   []string           `json:"state_keys"`
	Policies    map[string]int     `json:"policies"`
	Samples     []json.RawMessage  `json:"samples"`
	Violations  []Violation        `json:"violations"`
	Known       []Violation        `json:"known"`
	Determinism map[string]string  `json:"determinism"` // run key -> log hash (for the self-test)
	Extra       map[string]float64 `json:"extra"`
	Incidental  map[string]int     `json:"incidental"`
	WallS       float64            `json:"wall_s"`
	Config      SimConfig          `json:"config"`
}

var proc = &procResult{Probes: map[string]int{}, Distinct: map[string]bool{}, Scheds: map[string]bool{},
	States: map[string]bool{}, Policies: map[string]int{}, Determinism: map[string]string{}, Extra: map[string]float64{}, Incidental: map[string]int{}}

var procStart = time.Now()

func (p *procResult) add(st RunStats) {
	p.Runs++
	p.Steps += st.Steps
	p.SimSeconds += st.SimSeconds
	for k, v := range st.Probes {
		p.Probes[k] += v
	}
	p.Policies[strconv.Itoa(st.Policy)]++
	p.Scheds[st.LogHash] = true
	p.States[st.StateHash] = true
	if st.Trigger {
		p.Triggered++
		p.Distinct[st.ProgHash+"/"+st.SchedHash] = true
	}
	if p.Determinism != nil && len(p.Determinism) < 100000 {
		p.Determinism[st.ProgHash+"/"+st.SchedHash] = st.LogHash
	}
}

func (p *procResult) write() {
	out := os.Getenv("SIM_OUT")
	if out == "" {
		return
	}
	p.DistinctN = keys(p.Distinct)
	p.SchedKeys = keys(p.Scheds)
	p.StateKeys = keys(p.States)
	p.WallS = time.Since(procStart).Seconds()
	p.Config = simCfg
	if os.Getenv("SIM_DETERMINISM") == "" {
		p.Determinism = nil
	}
	b, _ := json.Marshal(p)
	os.WriteFile(out, b, 0o644)
}

func keys(m map[string]bool) []string {
	out := make([]string, 0, len(m))
	for k := range m {
		out = append(out, k)
	}
	sort.Strings(out)
	return out
}

func hashOf(v any) string {
	b, _ := json.Marshal(v)
	h := sha256.Sum256(b)
	return hex.EncodeToString(h[:8])
}

func TestMain(m *testing.M) {
	cfg := defaultSimConfig()
	if s := os.Getenv("SIM_CONFIG"); s != "" {
		if err := json.Unmarshal([]byte(s), &cfg); err != nil {
			fmt.Fprintln(os.Stderr, "bad SIM_CONFIG:", err)
			os.Exit(2)
		}
	}
	dir, err := os.MkdirTemp("", "simupload")
	if err != nil {
		fmt.Fprintln(os.Stderr, err)
		os.Exit(2)
	}
	simUploadDir = dir
	procInit(cfg)
	code := m.Run()
	proc.write()
	os.RemoveAll(dir)
	os.Exit(code)
}

// simBaseTime is where every bubble's clock starts (after one jump from synctest's 2000-01-01).
var simBaseTime = time.Date(2025, 1, 1, 0, 0, 0, 0, time.UTC)

// runOne executes one simulated run inside a fresh bubble. body drives the world and returns violations.
func runOne(t *testing.T, sched simrt.Schedule, body func(w *simWorld) []Violation) (viol []Violation, st RunStats) {
	synctest.Test(t, func(t *testing.T) {
		time.Sleep(time.Until(simBaseTime))
		disk := simdb.NewDisk()
		w := newSimWorld(sched, disk)
		dumpSched := os.Getenv("SIM_DUMP_SCHED") // debugging aid: write the event trace of the run with this schedule hash to $SIM_DUMP_SCHED_OUT
		w.rt.KeepTrace = os.Getenv("SIM_TRACE") != "" || (dumpSched != "" && dumpSched == hashOf(sched))
		func() {
			defer func() {
				if r := recover(); r != nil {
					viol = append(viol, Violation{Property: "HARNESS", Key: "harness-panic", Text: fmt.Sprint(r)})
					if os.Getenv("SIM_TRACE") != "" {
						panic(r)
					}
				}
			}()
			viol = body(w)
		}()
		for _, p := range w.rt.Panics {
			site, harness := panicSite(p.Stack)
			if harness {
				viol = append(viol, Violation{Property: "HARNESS", Key: "harness-task-panic", Text: fmt.Sprintf("task %s panicked: %s\n%s", p.Site, p.Value, trimStack(p.Stack))})
				continue
			}
			viol = append(viol, Violation{Property: "C13", Key: "server-panic " + site,
				Text: fmt.Sprintf("task %s panicked: %s\n%s", p.Site, p.Value, trimStack(p.Stack))})
		}
		st.Steps = w.rt.Steps
		st.Decisions = w.rt.Ch.Decisions()
		st.Switches = w.rt.Ch.Switches
		st.SimSeconds = w.rt.Now().Seconds()
		st.LogHash = w.rt.LogHash()
		st.Policy = sched.Policy
		st.Crashes = w.Crashes
		st.StoreErrs = simStore.Errs
		st.Tasks = len(w.rt.Tasks())
		st.StateHash = hashOf(stableDump(disk.Dump()))
		st.SchedHash = hashOf(sched)
		if w.rt.KeepTrace && dumpSched != "" {
			os.WriteFile(os.Getenv("SIM_DUMP_SCHED_OUT"), []byte(strings.Join(w.rt.Trace, "\n")+"\n"), 0o644)
		} else if w.rt.KeepTrace {
			fmt.Fprintln(os.Stderr, "  TASKS", w.liveTasks())
			for _, l := range w.rt.Trace {
				fmt.Fprintln(os.Stderr, "  |", l)
			}
		}
		w.shutdown()
		st.Probes = w.rt.Probes
	})
	return
}

// panicSite returns the innermost frame of the code under test on a panic stack ("file.go:func") and
// whether the panic originated in harness code (the innermost non-runtime frame is a zz_sim file).
func panicSite(stack string) (string, bool) {
	lines := strings.Split(stack, "\n")
	first := true
	for i := 0; i+1 < len(lines); i++ {
		fn := strings.TrimSpace(lines[i])
		file := strings.TrimSpace(lines[i+1])
		if !strings.HasPrefix(lines[i+1], "\t") || strings.HasPrefix(fn, "goroutine ") {
			continue
		}
		if strings.Contains(file, "/runtime/") || strings.Contains(file, "runtime/debug") || strings.Contains(file, "/simrt/") || strings.HasPrefix(fn, "panic(") {
			continue
		}
		if strings.Contains(file, "zz_sim_") {
			if first {
				return "harness", true
			}
			continue
		}
		first = false
		if strings.Contains(file, "/server/") {
			f := file
			if j := strings.LastIndex(f, "/"); j >= 0 {
				f = f[j+1:]
			}
			if j := strings.Index(f, ":"); j >= 0 {
				f = f[:j]
			}
			if j := strings.LastIndex(fn, "("); j > 0 {
				fn = fn[:j]
			}
			if j := strings.LastIndex(fn, "/"); j >= 0 {
				fn = fn[j+1:]
			}
			fn = strings.TrimPrefix(fn, "server.")
			return f + ":" + fn, false
		}
	}
	return "unknown", false
}

func trimStack(s string) string {
	lines := strings.Split(s, "\n")
	if len(lines) > 24 {
		lines = lines[:24]
	}
	return strings.Join(lines, "\n")
}

// ---- rapid generators shared by all properties -------------------------------------------------

func genSchedule(rt *rapid.T) simrt.Schedule {
	s := simrt.Schedule{
		Policy: rapid.IntRange(0, simrt.NumPolicies-1).Draw(rt, "policy"),
		Seed:   rapid.Uint64Range(0, 1<<32).Draw(rt, "schedseed"),
		Knob:   rapid.IntRange(0, 7).Draw(rt, "knob"),
	}
	n := rapid.IntRange(0, 6).Draw(rt, "npreempt")
	for i := 0; i < n; i++ {
		s.Preempts = append(s.Preempts, simrt.Preempt{
			Delta:  rapid.IntRange(0, 400).Draw(rt, "pdelta"),
			Choice: rapid.IntRange(0, 7).Draw(rt, "pchoice"),
		})
	}
	return s
}

// reportRun folds a run into the process result and fails the rapid test on violations.
func reportRun(rt *rapid.T, prop string, viol []Violation, st RunStats, sample any) {
	proc.Property = prop
	proc.add(st)
	if len(proc.Samples) < 3 && st.Trigger {
		b, _ := json.Marshal(sample)
		if len(b) < 20000 {
			proc.Samples = append(proc.Samples, b)
		}
	}
	if len(viol) == 0 {
		return
	}
	kf := loadKnownFindings()
	var fresh []Violation
	for _, v := range viol {
		if v.Property == "HARNESS" {
			proc.write()
			rt.Fatalf("HARNESS-FAILURE %s", v.Text)
		}
		if v.Property != prop && !alsoReports(prop, v.Property) {
			// found while checking another property: counted, reported by that property's own check
			proc.Incidental[v.Property+" "+v.Key]++
			continue
		}
		if kf[v.Property+" "+v.Key] {
			proc.Known = append(proc.Known, v)
		} else {
			fresh = append(fresh, v)
		}
	}
	if len(fresh) == 0 {
		return
	}
	proc.Violations = append(proc.Violations, fresh[0])
	proc.write()
	var sb strings.Builder
	for _, v := range fresh {
		sb.WriteString("VIOLATION-DETAIL " + v.String() + "\n")
	}
	rt.Fatalf("%d violation(s):\n%s", len(fresh), sb.String())
}

var knownFindings map[string]bool

// loadKnownFindings reads the committed known-findings file (path in $SIM_KNOWN): lines
// "finding: property=<id> key=<key...>" suppress exactly that violation class.
func loadKnownFindings() map[string]bool {
	if knownFindings != nil {
		return knownFindings
	}
	knownFindings = map[string]bool{}
	path := os.Getenv("SIM_KNOWN")
	if path == "" {
		return knownFindings
	}
	b, err := os.ReadFile(path)
	if err != nil {
		return knownFindings
	}
	for _, l := range strings.Split(string(b), "\n") {
		l = strings.TrimSpace(l)
		if !strings.HasPrefix(l, "finding:") {
			continue
		}
		l = strings.TrimSpace(strings.TrimPrefix(l, "finding:"))
		var prop, key string
		if i := strings.Index(l, "property="); i >= 0 {
			rest := l[i+len("property="):]
			if j := strings.Index(rest, " "); j > 0 {
				prop = rest[:j]
				rest = strings.TrimSpace(rest[j:])
				if strings.HasPrefix(rest, "key=") {
					key = strings.TrimPrefix(rest, "key=")
					if k := strings.Index(key, " :: "); k >= 0 {
						key = key[:k]
					}
				}
			}
		}
		if prop != "" && key != "" {
			knownFindings[prop+" "+strings.TrimSpace(key)] = true
		}
	}
	return knownFindings
}

// stableDump drops per-process random material (bcrypt salts) from a Disk dump.
func stableDump(d string) string {
	var out []string
	for _, l := range strings.Split(d, "\n") {
		if strings.HasPrefix(l, "auth ") {
			if i := strings.Index(l, " secret="); i > 0 {
				l = l[:i]
			}
		}
		out = append(out, l)
	}
	return strings.Join(out, "\n")
}

// alsoReports: properties whose checks share one oracle family.
func alsoReports(check, found string) bool {
	return false
}
