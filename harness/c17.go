//go:build verif

package main

// C17 — cluster nodes agree on topic placement and on at most one leader per term ("engine B").
//
// N in {3,4,5} real Cluster objects (failoverInit, run loop, electLeader, sendHealthChecks, Health, Vote,
// rehash, isPartitioned, reconnect) live in one simulated world. Only the wire is replaced: bin/vseams.py
// redirects the six places where cluster.go touches *rpc.Client / net.Dial to simRPC below, which decides
// from the run's PRNG whether a request is refused (partition), lost, executed with the reply lost, or
// delivered, and after which delay. Requests and replies are gob-copied as net/rpc would. Nodes never
// lose state (the property quantifies over nodes that have kept it).

import (
	"fmt"
	"sort"
	"testing"
	"time"

	"github.com/tinode/chat/server/simrt"
	"pgregory.net/rapid"
)

type c17Step struct {
	Ms       int     `json:"ms"`             // duration of the step in simulated milliseconds
	Groups   [][]int `json:"groups"`         // partition: nodes in different groups cannot talk; empty = fully connected
	OneWay   [][2]int `json:"one_way,omitempty"` // additional directed links that are cut
	DropReq  int     `json:"drop_req"`       // percent of requests lost
	DropResp int     `json:"drop_resp"`      // percent of replies lost (request was executed)
	MaxDelay int     `json:"max_delay_ms"`   // each message is delayed 0..MaxDelay ms
}

type c17Prog struct {
	N         int       `json:"n"`
	Heartbeat int       `json:"heartbeat_ms"`
	VoteAfter int       `json:"vote_after"`
	FailAfter int       `json:"node_fail_after"`
	Steps     []c17Step `json:"steps"`
}

func genC17(rt *rapid.T) c17Prog {
	p := c17Prog{
		N:         rapid.IntRange(3, 5).Draw(rt, "n"),
		Heartbeat: rapid.SampledFrom([]int{50, 100, 200}).Draw(rt, "heartbeat"),
		VoteAfter: rapid.IntRange(2, 8).Draw(rt, "vote_after"),
		FailAfter: rapid.IntRange(2, 6).Draw(rt, "fail_after"),
	}
	ns := rapid.IntRange(1, 8).Draw(rt, "nsteps")
	for i := 0; i < ns; i++ {
		st := c17Step{
			Ms:       rapid.SampledFrom([]int{100, 300, 700, 1500, 3000, 6000}).Draw(rt, "ms"),
			DropReq:  rapid.SampledFrom([]int{0, 0, 0, 5, 20, 50}).Draw(rt, "drop_req"),
			DropResp: rapid.SampledFrom([]int{0, 0, 0, 5, 20, 50}).Draw(rt, "drop_resp"),
			MaxDelay: rapid.SampledFrom([]int{0, 1, 10, 60, 250, 900}).Draw(rt, "max_delay"),
		}
		switch rapid.IntRange(0, 4).Draw(rt, "partition") {
		case 1: // isolate one node
			x := rapid.IntRange(0, p.N-1).Draw(rt, "isolated")
			var rest []int
			for k := 0; k < p.N; k++ {
				if k != x {
					rest = append(rest, k)
				}
			}
			st.Groups = [][]int{{x}, rest}
		case 2: // split in two
			cut := rapid.IntRange(1, p.N-1).Draw(rt, "cut")
			perm := rapid.Permutation([]int{0, 1, 2, 3, 4}[:p.N]).Draw(rt, "perm")
			st.Groups = [][]int{perm[:cut], perm[cut:]}
		case 3: // everybody alone
			for k := 0; k < p.N; k++ {
				st.Groups = append(st.Groups, []int{k})
			}
		case 4: // asymmetric: some directed links cut
			nl := rapid.IntRange(1, 4).Draw(rt, "nlinks")
			for k := 0; k < nl; k++ {
				a := rapid.IntRange(0, p.N-1).Draw(rt, "la")
				b := rapid.IntRange(0, p.N-1).Draw(rt, "lb")
				if a != b {
					st.OneWay = append(st.OneWay, [2]int{a, b})
				}
			}
		}
		p.Steps = append(p.Steps, st)
	}
	return p
}

// ---- the check ----------------------------------------------------------------------------------

func runC17(t *testing.T, sched simrt.Schedule, prog c17Prog) ([]Violation, RunStats) {
	elections, leaderChanges := 0, 0
	viol, st := runOne(t, sched, func(w *simWorld) []Violation {
		var out []Violation
		simRPC.reset()
		simRPCDebug = simLog.echo
		names := []string{"alpha", "bravo", "charlie", "delta", "echo"}[:prog.N]
		var nodes []*Cluster
		for i, name := range names {
			c := &Cluster{thisNodeName: name, fingerprint: int64(1000 + i), nodes: map[string]*ClusterNode{}}
			// every node lists its peers in a different order
			for k := 0; k < prog.N; k++ {
				peer := names[(i+1+k*(i+1))%prog.N]
				if peer == name || c.nodes[peer] != nil {
					continue
				}
				c.nodes[peer] = &ClusterNode{address: peer + ":12000", name: peer, done: make(chan bool, 1), msess: map[string]struct{}{}, connected: true}
			}
			for _, peer := range names {
				if peer != name && c.nodes[peer] == nil {
					c.nodes[peer] = &ClusterNode{address: peer + ":12000", name: peer, done: make(chan bool, 1), msess: map[string]struct{}{}, connected: true}
				}
			}
			for _, n := range c.nodes {
				simRPC.owner[n] = c
			}
			if !c.failoverInit(&clusterFailoverConfig{Enabled: true, Heartbeat: prog.Heartbeat, VoteAfter: prog.VoteAfter, NodeFailAfter: prog.FailAfter}) {
				return append(out, vio("HARNESS", "c17-failover-init", "failoverInit refused the configuration"))
			}
			simRPC.clusters[name] = c
			nodes = append(nodes, c)
		}
		majority := prog.N/2 + 1
		primed := map[[2]string]bool{}

		// ---- invariants, evaluated at every network event and step boundary
		lastTerm := map[string]int{}
		leaderIn := map[int]map[string]bool{} // term -> nodes seen as self-declared leader in it
		reported := map[string]bool{}
		report := func(key, format string, a ...any) {
			if !reported[key] {
				reported[key] = true
				out = append(out, vio("C17", key, format, a...))
			}
		}
		check := func(where string) {
			for _, c := range nodes {
				term := c.fo.term
				if term < lastTerm[c.thisNodeName] {
					report("term-decreased", "%s: term of %s went from %d to %d", where, c.thisNodeName, lastTerm[c.thisNodeName], term)
				}
				lastTerm[c.thisNodeName] = term
				if c.fo.leader == c.thisNodeName {
					if leaderIn[term] == nil {
						leaderIn[term] = map[string]bool{}
					}
					if !leaderIn[term][c.thisNodeName] {
						leaderIn[term][c.thisNodeName] = true
						leaderChanges++
						// (d) elected only with a strict majority of all configured nodes: delivered YES votes + own
						yes := 1
						for _, v := range simRPC.votes {
							if v.Candidate == c.thisNodeName && v.Term == term && v.Yes && v.Delivered {
								yes++
							}
						}
						if yes < majority {
							report("leader-without-majority", "%s: %s is leader of term %d with %d votes delivered (itself included), majority of %d is %d", where, c.thisNodeName, term, yes, prog.N, majority)
						}
					}
					if len(leaderIn[term]) > 1 {
						var ls []string
						for l := range leaderIn[term] {
							ls = append(ls, l)
						}
						sort.Strings(ls)
						report("two-leaders-in-term", "%s: term %d has the self-declared leaders %v", where, term, ls)
					}
				}
			}
			// (b) at most one YES per voter and term, the voter's own candidacy included
			yesBy := map[string]map[int]string{}
			cand := map[string]map[int]bool{}
			for _, v := range simRPC.votes {
				if cand[v.Candidate] == nil {
					cand[v.Candidate] = map[int]bool{}
				}
				cand[v.Candidate][v.Term] = true
			}
			for _, v := range simRPC.votes {
				if !v.Yes {
					continue
				}
				if yesBy[v.Voter] == nil {
					yesBy[v.Voter] = map[int]string{}
				}
				if prev, ok := yesBy[v.Voter][v.Term]; ok && prev != v.Candidate {
					report("two-votes-in-term", "%s: %s voted YES for %s and for %s in term %d", where, v.Voter, prev, v.Candidate, v.Term)
				}
				yesBy[v.Voter][v.Term] = v.Candidate
				if cand[v.Voter][v.Term] {
					report("candidate-voted-for-other", "%s: %s was a candidate in term %d and also voted YES for %s", where, v.Voter, v.Term, v.Candidate)
				}
			}
		}
		simRPC.onEvent = check
		// a node whose goroutine panics is a crashed server process
		nodeCrashed := func() bool {
			for _, pn := range w.rt.Panics {
				site, harness := panicSite(pn.Stack)
				if !harness {
					report("node-crashed "+site, "task %s panicked (the node's process would die): %v\n%s", pn.Site, pn.Value, trimStack(pn.Stack))
				}
			}
			return len(w.rt.Panics) > 0
		}

		for _, c := range nodes {
			c := c
			simrt.Go("cluster."+c.thisNodeName+".run", c.run)
		}
		hbMax := time.Duration(prog.Heartbeat) * time.Millisecond * 5 / 4

		setNet := func(stp c17Step) {
			simRPC.blocked = map[[2]string]bool{}
			if len(stp.Groups) > 0 {
				grp := map[int]int{}
				for gi, g := range stp.Groups {
					for _, x := range g {
						grp[x] = gi
					}
				}
				for a := 0; a < prog.N; a++ {
					for b := 0; b < prog.N; b++ {
						if a != b && grp[a] != grp[b] {
							simRPC.blocked[[2]string{names[a], names[b]}] = true
						}
					}
				}
				simrt.Probe("fault.partition")
			}
			for _, l := range stp.OneWay {
				if l[0] < prog.N && l[1] < prog.N {
					simRPC.blocked[[2]string{names[l[0]], names[l[1]]}] = true
					simrt.Probe("fault.partition_one_way")
				}
			}
			simRPC.dropReq, simRPC.dropResp = stp.DropReq, stp.DropResp
			simRPC.maxDelay = time.Duration(stp.MaxDelay) * time.Millisecond
			if stp.MaxDelay > 0 {
				simrt.Probe("fault.msg_delay")
			}
		}

		for si, stp := range prog.Steps {
			setNet(stp)
			// who is leader when the step begins, and how many peers it can reach
			var leader *Cluster
			for _, c := range nodes {
				if c.fo.leader == c.thisNodeName {
					leader = c
				}
			}
			if r := w.rt.Advance(time.Duration(stp.Ms) * time.Millisecond); r == simrt.RunLivelock {
				return append(out, vio("C14", "livelock", "step budget exhausted in step %d", si))
			}
			if nodeCrashed() {
				return out
			}
			check(fmt.Sprintf("end of step %d", si))
			if simLog.echo {
				for _, c := range nodes {
					fmt.Printf("  [c17] t=%v step %d: %s term=%d leader=%q ring=%s active=%v\n", w.rt.Now(), si, c.thisNodeName, c.fo.term, c.fo.leader, c.ring.Signature(), c.fo.activeNodes)
				}
			}
			// (f) a leader cut off from more than half of the configured nodes for long enough reports it
			if leader != nil && leader.fo.leader == leader.thisNodeName && stp.DropReq == 0 && stp.DropResp == 0 {
				reach := 1
				for _, n := range leader.nodes {
					if !simRPC.blocked[[2]string{leader.thisNodeName, n.name}] && !simRPC.blocked[[2]string{n.name, leader.thisNodeName}] {
						reach++
					}
				}
				// calls started in the previous step still carry that step's delays (up to three per call): the leader's
				// health-check round may be stuck in one of them when this step begins
				var carried time.Duration
				if si > 0 {
					carried = 3 * time.Duration(prog.Steps[si-1].MaxDelay) * time.Millisecond
				}
				long := time.Duration(stp.Ms)*time.Millisecond >= carried+time.Duration(prog.FailAfter+3)*(hbMax+2*simRPC.maxDelay)
				if reach*2 <= prog.N && long {
					simrt.Probe("c17.minority_leader_judged")
					if !leader.isPartitioned() {
						report("minority-leader-keeps-serving", "step %d: leader %s reached only %d of %d nodes for %d ms (fail limit %d heartbeats of at most %v) and does not consider itself partitioned; active nodes %v", si, leader.thisNodeName, reach, prog.N, stp.Ms, prog.FailAfter, hbMax, leader.fo.activeNodes)
					}
				}
			}
			// (g) nodes whose rings differ refuse each other's topic traffic - also on a multiplexing session
			// that was established while the rings agreed
			for _, a := range nodes {
				for _, b := range nodes {
					if a != b && a.ring.Signature() == b.ring.Signature() && !primed[[2]string{a.thisNodeName, b.thisNodeName}] {
						rejected := false
						b.TopicMaster(&ClusterReq{Node: a.thisNodeName, Signature: a.ring.Signature(), Fingerprint: a.fingerprint, RcptTo: "grpC17est" + b.thisNodeName, ReqType: ProxyReqLeave}, &rejected)
						if !rejected {
							primed[[2]string{a.thisNodeName, b.thisNodeName}] = true
						}
					}
					if a != b && a.ring.Signature() != b.ring.Signature() && primed[[2]string{a.thisNodeName, b.thisNodeName}] {
						simrt.Probe("c17.signature_gate_established_judged")
						rejected := false
						b.TopicMaster(&ClusterReq{Node: a.thisNodeName, Signature: a.ring.Signature(), Fingerprint: a.fingerprint, RcptTo: "grpC17est" + b.thisNodeName, ReqType: ProxyReqLeave}, &rejected)
						if !rejected {
							report("topic-request-accepted-across-rings", "step %d: %s accepted a TopicMaster request from %s on an established multiplexing session although their ring signatures differ", si, b.thisNodeName, a.thisNodeName)
						}
					}
					if a != b && a.ring.Signature() != b.ring.Signature() {
						simrt.Probe("c17.signature_gate_judged")
						rejected := false
						b.Route(&ClusterRoute{Node: a.thisNodeName, Signature: a.ring.Signature(), Fingerprint: a.fingerprint}, &rejected)
						if !rejected {
							report("route-accepted-across-rings", "step %d: %s accepted a Route request from %s although their ring signatures differ", si, b.thisNodeName, a.thisNodeName)
						}
						rejected = false
						b.TopicMaster(&ClusterReq{Node: a.thisNodeName, Signature: a.ring.Signature(), Fingerprint: a.fingerprint, RcptTo: "grpC17probe"}, &rejected)
						if !rejected {
							report("topic-request-accepted-across-rings", "step %d: %s accepted a TopicMaster request from %s although their ring signatures differ", si, b.thisNodeName, a.thisNodeName)
						}
					}
				}
			}
			// nodes with the same ring agree on every owner
			for _, a := range nodes {
				for _, b := range nodes {
					if a != b && a.ring.Signature() == b.ring.Signature() {
						for k := 0; k < 40; k++ {
							key := fmt.Sprintf("grpKey%d%s", k*7919, names[k%prog.N])
							if a.ring.Get(key) != b.ring.Get(key) {
								report("same-ring-different-owner", "step %d: %s and %s have the same ring signature but place %q on %s and %s", si, a.thisNodeName, b.thisNodeName, key, a.ring.Get(key), b.ring.Get(key))
							}
						}
					}
				}
			}
		}
		if nodeCrashed() {
			return out
		}
		elections = len(simRPC.votes)
		// ---- faults stop. The property states no liveness bound, so none is demanded: the run goes on until a
		// stable leader is observed (the same single self-declared leader in the same term at two consecutive
		// observations 20 heartbeats apart - it has then sent some 20 health checks to everybody over a
		// perfect network), and then every node that accepted those health checks must have adopted it.
		setNet(c17Step{})
		settleFor := time.Duration(3*prog.VoteAfter+2*prog.FailAfter+12) * hbMax
		w.rt.Advance(settleFor)
		check("after healing")
		if nodeCrashed() {
			return out
		}
		stable := ""
		prevLeader, prevTerm := "", -1
		for round := 0; round < 12 && stable == ""; round++ {
			w.rt.Advance(20 * hbMax)
			check("after healing")
			if nodeCrashed() {
				return out
			}
			var leaders []string
			for _, c := range nodes {
				if c.fo.leader == c.thisNodeName {
					leaders = append(leaders, c.thisNodeName)
				}
			}
			if len(leaders) == 1 {
				lt := simRPC.clusters[leaders[0]].fo.term
				if leaders[0] == prevLeader && lt == prevTerm {
					stable = leaders[0]
				}
				prevLeader, prevTerm = leaders[0], lt
			} else {
				prevLeader, prevTerm = "", -1
			}
		}
		if simLog.echo {
			for _, c := range nodes {
				fmt.Printf("  [c17] t=%v healed: %s term=%d leader=%q ring=%s active=%v\n", w.rt.Now(), c.thisNodeName, c.fo.term, c.fo.leader, c.ring.Signature(), c.fo.activeNodes)
			}
		}
		if stable == "" {
			simrt.Probe("c17.no_stable_leader_within_budget")
		} else {
			simrt.Probe("c17.stable_leader_judged")
			lc := simRPC.clusters[stable]
			for _, c := range nodes {
				if c.fo.leader != stable || c.fo.term != lc.fo.term {
					report("follower-did-not-adopt-leader", "%s has been the only leader (term %d) for 20 heartbeats of a perfect network, but %s names leader %q in term %d", stable, lc.fo.term, c.thisNodeName, c.fo.leader, c.fo.term)
				}
				if c.ring.Signature() != lc.ring.Signature() {
					report("follower-did-not-adopt-ring", "%s has been the only leader (term %d) for 20 heartbeats of a perfect network, but %s has ring %s and the leader %s (the leader's active nodes: %v)", stable, lc.fo.term, c.thisNodeName, c.ring.Signature(), lc.ring.Signature(), lc.fo.activeNodes)
				}
			}
			if len(lc.fo.activeNodes) != prog.N {
				simrt.Probe("c17.leader_did_not_readmit_all_nodes")
			}
		}
		for _, c := range nodes {
			simrt.Send("c17.stop", c.fo.done, true)
			for _, n := range c.nodes {
				select {
				case n.done <- true:
				default:
				}
			}
		}
		w.rt.Advance(time.Duration(clusterDefaultReconnectTime) * 2)
		for k, v := range simRPC.faults {
			for i := 0; i < v && i < 1; i++ {
				simrt.Probe("c17.fault_kind_" + k)
			}
		}
		return out
	})
	st.Trigger = elections >= 1 && leaderChanges >= 1
	st.ProgHash = hashOf(prog)
	return viol, st
}

func TestSim_C17(t *testing.T) {
	rapid.Check(t, func(rt *rapid.T) {
		sched := genSchedule(rt)
		prog := genC17(rt)
		viol, st := runC17(t, sched, prog)
		reportRun(rt, "C17", viol, st, map[string]any{"schedule": sched, "program": prog})
	})
}
