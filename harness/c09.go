//go:build verif

package main

// C09 — read and received marks only move forward and stay within bounds.

import (
	"fmt"
	"testing"
	"time"

	"github.com/tinode/chat/server/simrt"
	"github.com/tinode/chat/server/store/types"
	"pgregory.net/rapid"
)

type c09Act struct {
	Client int    `json:"c"`
	Kind   string `json:"k"` // note, pub, leave, sub, unsub, want, given, reload, bkg
	Topic  int    `json:"t"`
	What   string `json:"w,omitempty"`
	SeqRef string `json:"s,omitempty"` // zero, neg, one, stale, cur, last, lastp1, huge
	Mode   string `json:"m,omitempty"`
	Target int    `json:"u,omitempty"`
	Fail   bool   `json:"fail,omitempty"` // pub: the store call that marks the message read by its sender fails
}

type c09Prog struct {
	Sc    Scenario `json:"scenario"`
	NMsgs int      `json:"n_msgs"`
	Acts  []c09Act `json:"acts"`
}

func genC09(rt *rapid.T) c09Prog {
	p := c09Prog{Sc: genScenario(rt, 4, 2, false)}
	p.NMsgs = rapid.IntRange(2, 8).Draw(rt, "nmsgs")
	n := rapid.IntRange(4, 16).Draw(rt, "nacts")
	for i := 0; i < n; i++ {
		a := c09Act{
			Client: rapid.IntRange(0, 7).Draw(rt, "client"),
			Kind: rapid.SampledFrom([]string{"note", "note", "note", "note", "note", "pub", "leave", "sub", "unsub", "want", "given", "reload"}).Draw(rt, "kind"),
			Topic: rapid.IntRange(0, 2).Draw(rt, "topic"),
			What:  rapid.SampledFrom([]string{"read", "read", "recv", "recv", "kp", "kpa", "bogus", "data"}).Draw(rt, "what"),
			SeqRef: rapid.SampledFrom([]string{"zero", "neg", "one", "stale", "cur", "curp1", "last", "last", "lastp1", "huge", "mid"}).Draw(rt, "seqref"),
			Mode:   rapid.SampledFrom([]string{"JRWPS", "JWP", "JRP", "JP", "JRWP", "JRWPASD"}).Draw(rt, "mode"),
			Target: rapid.IntRange(0, 3).Draw(rt, "target"),
		}
		p.Acts = append(p.Acts, a)
	}
	if rapid.IntRange(0, 2).Draw(rt, "faults") == 0 {
		for i := range p.Acts {
			if p.Acts[i].Kind == "pub" {
				p.Acts[i].Fail = rapid.Bool().Draw(rt, "fail")
			}
		}
	}
	// Scripted tail (drawn last so that older replay files keep their meaning): a read note that runs ahead of
	// the received mark, an unload/reload of the topic, then a received note that lags behind the read mark.
	// Uniform actions line this up only at the thorough tier (seeded change C09-m3).
	if rapid.IntRange(0, 3).Draw(rt, "tail") == 0 {
		cl := rapid.IntRange(0, 7).Draw(rt, "tailclient")
		tp := rapid.IntRange(0, 2).Draw(rt, "tailtopic")
		lag := rapid.SampledFrom([]string{"curp1", "curp1", "one", "mid"}).Draw(rt, "taillag")
		p.Acts = append(p.Acts,
			c09Act{Client: cl, Kind: "sub", Topic: tp},
			c09Act{Client: cl, Kind: "note", Topic: tp, What: "read", SeqRef: "last"},
			c09Act{Client: cl, Kind: "reload", Topic: tp},
			c09Act{Client: cl, Kind: "note", Topic: tp, What: "recv", SeqRef: lag},
		)
	}
	return p
}

type c09Marks struct{ Read, Recv int }

type c09Exp struct {
	Topic    string
	User     types.Uid
	What     string
	Seq      int
	Valid    bool // the note must take effect / be relayed
	MarkMove bool
	Want     c09Marks
	FrameLen map[int]int
	StoreLen int
	PushLen  int
	Relay    map[int]string // client -> "topic" or "me": who must get the {info}
	Reason   string
}

func runC09(t *testing.T, sched simrt.Schedule, prog c09Prog) ([]Violation, RunStats) {
	kinds := map[string]bool{}
	invalid := 0
	viol, st := runOne(t, sched, func(w *simWorld) []Violation {
		var out []Violation
		sc := prog.Sc
		w.configure(sc)
		ntop := len(sc.Groups) + len(sc.P2P)
		if ntop == 0 {
			return nil
		}
		tagN := 0
		ops := map[int][]*Op{}
		for i := 0; i < prog.NMsgs; i++ {
			c := w.Clients[i%len(w.Clients)]
			tagN++
			ops[c.Idx] = append(ops[c.Idx], opPub(c01TopicName(sc, c, i%ntop), fmt.Sprintf("m%d", tagN), false))
		}
		w.runPhase(ops)

		model := map[string]map[types.Uid]*c09Marks{} // model of marks, checked against cache and store
		storeLag := map[string]int{}                  // "topic/user" -> stored recv left behind by the known read-drags-recv defect
		syncModel := func(sn *Snapshot) {
			// (re)initialise the model for subscriptions it does not know yet (first sight, or after resubscribe)
			for name, ts := range sn.Topics {
				if ts.Cat != types.TopicCatGrp && ts.Cat != types.TopicCatP2P {
					continue
				}
				if model[name] == nil {
					model[name] = map[types.Uid]*c09Marks{}
				}
				for uid, pud := range ts.PerUser {
					if pud.Deleted {
						delete(model[name], uid) // unsubscribed p2p participant: a resubscribe restarts at zero
						continue
					}
					if model[name][uid] == nil {
						model[name][uid] = &c09Marks{pud.ReadID, pud.RecvID}
					}
				}
			}
		}
		checkBounds := func(sn *Snapshot, where string) {
			for name, ts := range sn.Topics {
				if ts.Cat != types.TopicCatGrp && ts.Cat != types.TopicCatP2P {
					continue
				}
				for uid, pud := range ts.PerUser {
					if pud.IsChan {
						continue
					}
					lk := name + "/" + uid.String()
					if floor, lag := storeLag[lk]; lag && pud.ReadID > pud.RecvID && pud.RecvID >= floor {
						// consequence of the known shape after the topic was loaded again from the store
						out = append(out, vio("C09", "stored-recv-behind-read", "%s: topic %s user %s reloaded with read=%d recv=%d: the store never got the dragged recv", where, name, uid.UserId(), pud.ReadID, pud.RecvID))
						if m := model[name][uid]; m != nil {
							m.Recv = pud.RecvID
						}
						continue
					}
					if !(0 <= pud.ReadID && pud.ReadID <= pud.RecvID && pud.RecvID <= ts.LastID) {
						out = append(out, vio("C09", "bounds-cache", "%s: topic %s user %s: read=%d recv=%d last=%d", where, name, uid.UserId(), pud.ReadID, pud.RecvID, ts.LastID))
					}
					if m := model[name][uid]; m != nil && !pud.Deleted {
						if pud.ReadID < m.Read || pud.RecvID < m.Recv {
							out = append(out, vio("C09", "mark-decreased", "%s: topic %s user %s: read %d->%d recv %d->%d", where, name, uid.UserId(), m.Read, pud.ReadID, m.Recv, pud.RecvID))
						}
					}
				}
			}
			for _, sr := range w.Disk.Subs {
				if sr.DeletedAt != nil {
					continue
				}
				if tr := w.Disk.Topics[sr.Topic]; tr != nil {
					if sr.ReadSeqId > sr.RecvSeqId && sr.ReadSeqId <= tr.SeqId && sr.RecvSeqId >= 0 {
						// the specific, known shape: a {note read} above the received mark drags 'recv' in the cache only
						out = append(out, vio("C09", "stored-recv-behind-read", "%s: stored subscription %s/%s: read=%d recv=%d (topic seq %d): a read note above the received mark is stored without dragging recv", where, sr.Topic, sr.User.UserId(), sr.ReadSeqId, sr.RecvSeqId, tr.SeqId))
					} else if !(0 <= sr.ReadSeqId && sr.ReadSeqId <= sr.RecvSeqId && sr.RecvSeqId <= tr.SeqId) {
						out = append(out, vio("C09", "bounds-store", "%s: stored subscription %s/%s: read=%d recv=%d topic seq=%d", where, sr.Topic, sr.User.UserId(), sr.ReadSeqId, sr.RecvSeqId, tr.SeqId))
					}
				}
			}
		}
		sn0 := w.snapshot()
		syncModel(sn0)
		checkBounds(sn0, "after population")

		w.OnIsoFire = func(p *isoProbe) {
			if p.Sent == nil || p.Sent.Msg == nil {
				return
			}
			syncModel(p.Pre)
			c := p.C
			m := p.Sent.Msg
			if m.Pub != nil {
				return
			}
			if m.Note == nil {
				return
			}
			e := &c09Exp{What: m.Note.What, Seq: m.Note.SeqId, User: c.User.Uid, FrameLen: map[int]int{}, Relay: map[int]string{},
				StoreLen: len(simStore.Log), PushLen: len(simPush.Receipts)}
			for _, cl := range w.Clients {
				e.FrameLen[cl.Idx] = len(cl.Frames)
			}
			name := m.Note.Topic
			e.Topic = w.globalName(c, name)
			asChan := len(name) > 3 && name[:3] == "chn"
			ts := p.Pre.Topics[e.Topic]
			var sess *SessSnap
			for _, s := range p.Pre.Sessions {
				if s.Client == c.Idx {
					sess = s
				}
			}
			attached := false
			if sess != nil {
				for _, s := range sess.Subs {
					if s == e.Topic {
						attached = true
					}
				}
			}
			p.Exp = e
			if mm := model[e.Topic][e.User]; mm != nil {
				e.Want = *mm
			}
			reject := func(r string) { e.Valid, e.Reason = false, r }
			switch {
			case sess == nil || !c.Connected:
				reject("no-session")
				return
			case !attached && e.What != "recv":
				reject("not-attached") // answered 409 (documented), no effect
				return
			case ts == nil:
				reject("topic-not-loaded")
				return
			case ts.Status&(topicStatusPaused|topicStatusMarkedDeleted) != 0:
				reject("inactive")
				return
			}
			pud, ok := ts.PerUser[e.User]
			mode := pud.Want & pud.Given
			if !ok || pud.Deleted {
				mode = 0
			}
			if asChan && !ts.IsChan {
				reject("chan-name")
				return
			}
			if asChan && ok && !pud.Deleted && !pud.IsChan {
				// a full member (e.g. a former reader who unsubscribed from chnX and was invited to grpX) using the
				// channel name: there is no reader subscription for the marks to go to
				// (the server writes them into the deleted reader row; not judged either way)
				simrt.Probe("c09.chan_name_by_member")
				p.Exp = nil
				return
			}
			cur := model[e.Topic][e.User]
			if cur == nil {
				cur = &c09Marks{}
			}
			e.Want = *cur
			what := e.What
			if c.Transport == TransportGRPC && what != "kp" && what != "read" && what != "recv" && what != "call" {
				what = "" // the protobuf enum carries only kp/read/recv/call: anything else arrives as an unknown kind
			}
			switch what {
			case "read", "recv":
				switch {
				case e.Seq <= 0:
					reject("seq<=0")
				case e.Seq > ts.LastID:
					reject("seq>last")
				case mode&types.ModeRead == 0:
					reject("no-R")
				case e.What == "read" && e.Seq <= cur.Read:
					reject("stale-read")
				case e.What == "recv" && e.Seq <= cur.Recv:
					reject("stale-recv")
				default:
					e.Valid, e.MarkMove = true, true
					if e.What == "read" {
						e.Want.Read = e.Seq
						if e.Want.Recv < e.Seq {
							e.Want.Recv = e.Seq
						}
					} else {
						e.Want.Recv = e.Seq
						if e.Want.Recv < e.Want.Read {
							e.Want.Recv = e.Want.Read // received can never stay below read
						}
					}
				}
			case "kp", "kpa", "kpv":
				switch {
				case e.Seq != 0:
					reject("kp-with-seq")
				case mode&types.ModeWrite == 0:
					reject("no-W")
				case ts.Status&topicStatusReadOnly != 0:
					reject("read-only")
				case !attached:
					reject("not-attached")
				default:
					e.Valid = true
				}
			default:
				reject("unknown-kind")
			}
			if asChan {
				// channel readers' notes are stored but never relayed
				if e.Valid {
					e.Reason = "chan-reader"
				}
				return
			}
			if !e.Valid {
				return
			}
			// who must be told: sessions attached to the topic (not the origin, users with R, not channel readers,
			// kp never to the typist); sessions attached only to 'me' of subscribers with R and P.
			for sid, uid := range ts.Sessions {
				ss := p.Pre.Sessions[sid]
				if ss == nil || ss.Client < 0 || ss.Client == c.Idx {
					continue
				}
				rp := ts.PerUser[uid]
				if ts.ChanSess[sid] || (rp.Want&rp.Given&types.ModeRead) == 0 {
					continue
				}
				if (e.What == "kp" || e.What == "kpa" || e.What == "kpv") && uid == e.User && e.What == "kp" {
					continue
				}
				e.Relay[ss.Client] = "topic"
			}
			for uid, rp := range ts.PerUser {
				rm := rp.Want & rp.Given
				if rp.Deleted || rp.IsChan || rm&types.ModeRead == 0 || rm&types.ModePres == 0 {
					continue
				}
				me := p.Pre.Topics[uid.UserId()]
				if me == nil {
					continue
				}
				for sid := range me.Sessions {
					ss := p.Pre.Sessions[sid]
					if ss == nil || ss.Client < 0 || ss.Client == c.Idx {
						continue
					}
					if _, onTopic := ts.Sessions[sid]; onTopic {
						continue
					}
					if e.What == "kp" && uid == e.User {
						continue
					}
					if _, dup := e.Relay[ss.Client]; !dup {
						e.Relay[ss.Client] = "me"
					}
				}
			}
		}
		w.OnIsoDone = func(p *isoProbe, post *Snapshot) {
			syncModel(post)
			if p.Sent != nil && p.Sent.Msg != nil && p.Sent.Msg.Pub != nil && p.Sent.Code == 202 {
				// own publish drags both marks to the new message
				tname := w.globalName(p.C, p.Sent.Msg.Pub.Topic)
				seq := toInt(p.Sent.Ctrl.Params.(map[string]any)["seq"])
				// ... if the author reads the topic (the store records 'read by sender' for readers only)
				reader := false
				if ts := p.Pre.Topics[tname]; ts != nil {
					pud := ts.PerUser[p.C.User.Uid]
					reader = pud.Want&pud.Given&types.ModeRead != 0
				}
				failed := simStore.Fault != nil && simStore.Fault.Fired
				if failed {
					simrt.Probe("fault.store_err")
				}
				if reader && !failed && model[tname] != nil && model[tname][p.C.User.Uid] != nil {
					*model[tname][p.C.User.Uid] = c09Marks{seq, seq}
				}
				// the author's marks, cached and stored, are where the model says (moved for a reader whose
				// read-by-sender write went through, untouched otherwise)
				if mm := model[tname][p.C.User.Uid]; mm != nil {
					if ts := post.Topics[tname]; ts != nil {
						if pud, ok := ts.PerUser[p.C.User.Uid]; ok && !pud.Deleted && (pud.ReadID != mm.Read || pud.RecvID != mm.Recv) {
							out = append(out, vio("C09", "marks-cache after-publish", "after publish seq=%d by user %d on %s (reader=%v, read-by-sender write failed=%v): cached read=%d recv=%d, model read=%d recv=%d", seq, p.C.User.Idx, tname, reader, failed, pud.ReadID, pud.RecvID, mm.Read, mm.Recv))
						}
					}
					if sr := w.Disk.Subs[simdbSubKey(tname, p.C.User.Uid)]; sr != nil && sr.DeletedAt == nil && storeLag[tname+"/"+p.C.User.Uid.String()] == 0 {
						if _, lag := storeLag[tname+"/"+p.C.User.Uid.String()]; !lag && (sr.ReadSeqId != mm.Read || sr.RecvSeqId != mm.Recv) {
							out = append(out, vio("C09", "marks-store after-publish", "after publish seq=%d by user %d on %s (reader=%v, write failed=%v): stored read=%d recv=%d, model read=%d recv=%d", seq, p.C.User.Idx, tname, reader, failed, sr.ReadSeqId, sr.RecvSeqId, mm.Read, mm.Recv))
						}
					}
				}
			}
			simStore.Fault = nil
			e, _ := p.Exp.(*c09Exp)
			if e != nil {
				kinds[e.What] = true
				infoFrames := 0
				for _, cl := range w.Clients {
					var infos []*MsgServerInfo
					for _, f := range cl.Frames[e.FrameLen[cl.Idx]:] {
						if f.Msg.Info != nil {
							infos = append(infos, f.Msg.Info)
						}
						if !e.Valid && e.Reason != "not-attached" && e.Reason != "no-session" {
							out = append(out, vio("C09", "invalid-note-caused-frame "+e.Reason, "invalid %s note seq=%d (%s) by user %d caused a frame at client %d: %s", e.What, e.Seq, e.Reason, p.C.User.Idx, cl.Idx, frameSummary(f.Msg)))
						}
					}
					infoFrames += len(infos)
					where, must := e.Relay[cl.Idx]
					if e.Valid && e.Reason != "chan-reader" {
						if must && len(infos) != 1 {
							out = append(out, vio("C09", fmt.Sprintf("relay-copies-%d", len(infos)), "%s note seq=%d by user %d on %s: client %d (via %s) must get exactly one {info}, got %d", e.What, e.Seq, p.C.User.Idx, e.Topic, cl.Idx, where, len(infos)))
						}
						if !must && len(infos) > 0 {
							out = append(out, vio("C09", "relay-to-ineligible", "%s note by user %d on %s was relayed to client %d (user %d): %+v", e.What, p.C.User.Idx, e.Topic, cl.Idx, cl.User.Idx, *infos[0]))
						}
						for _, in := range infos {
							if in.From != e.User.UserId() {
								out = append(out, vio("C09", "relay-wrong-sender", "{info} from=%q, the note was sent by %q", in.From, e.User.UserId()))
							}
							nm := in.Topic
							if in.Topic == "me" {
								nm = in.Src
							}
							if w.globalName(cl, nm) != e.Topic {
								out = append(out, vio("C09", "relay-wrong-topic", "{info} at client %d names topic %q (src %q), expected the recipient's name for %s", cl.Idx, in.Topic, in.Src, e.Topic))
							}
						}
					} else if len(infos) > 0 {
						out = append(out, vio("C09", "invalid-note-relayed "+e.Reason, "invalid %s note seq=%d (%s) was relayed to client %d", e.What, e.Seq, e.Reason, cl.Idx))
					}
				}
				if !e.Valid {
					invalid++
					if e.Reason != "no-session" {
						for _, sc := range simStore.Log[e.StoreLen:] {
							if sc.Method == "SubsUpdate" || sc.Method == "MessageSave" || sc.Method == "TopicUpdate" {
								out = append(out, vio("C09", "invalid-note-store-call "+e.Reason, "invalid %s note seq=%d (%s) caused store call %s%v", e.What, e.Seq, e.Reason, sc.Method, sc.Args))
							}
						}
						if len(simPush.Receipts) > e.PushLen {
							out = append(out, vio("C09", "invalid-note-push "+e.Reason, "invalid %s note (%s) caused a push", e.What, e.Reason))
						}
					}
				}
				// marks: exact model
				if ts := post.Topics[e.Topic]; ts != nil {
					if pud, ok := ts.PerUser[e.User]; ok && !pud.IsChan && !pud.Deleted {
						want := e.Want
						if e.Valid || e.Reason != "no-session" {
							if pud.ReadID != want.Read || pud.RecvID != want.Recv {
								out = append(out, vio("C09", "marks-cache "+e.Reason, "after %s note seq=%d (valid=%v %s) by user %d on %s: cached read=%d recv=%d, model read=%d recv=%d", e.What, e.Seq, e.Valid, e.Reason, p.C.User.Idx, e.Topic, pud.ReadID, pud.RecvID, want.Read, want.Recv))
							}
						}
						if sr := w.Disk.Subs[simdbSubKey(e.Topic, e.User)]; sr != nil && sr.DeletedAt == nil {
							lk := e.Topic + "/" + e.User.String()
							if floor, lagging := storeLag[lk]; lagging && sr.ReadSeqId == want.Read && sr.RecvSeqId >= floor && sr.RecvSeqId <= want.Recv {
								// the stored recv still lags from an earlier, already reported occurrence of the known shape
								if sr.RecvSeqId >= sr.ReadSeqId {
									delete(storeLag, lk) // a later recv note or publish repaired the stored pair
								}
							} else if sr.ReadSeqId == want.Read && sr.RecvSeqId < want.Recv && want.Recv == want.Read && e.What == "read" && e.Valid {
								storeLag[lk] = sr.RecvSeqId
								out = append(out, vio("C09", "stored-recv-behind-read", "after read note seq=%d by user %d on %s: stored read=%d recv=%d, cache/model read=%d recv=%d", e.Seq, p.C.User.Idx, e.Topic, sr.ReadSeqId, sr.RecvSeqId, want.Read, want.Recv))
							} else if sr.ReadSeqId != want.Read || sr.RecvSeqId != want.Recv {
								out = append(out, vio("C09", "marks-store "+e.Reason, "after %s note seq=%d (valid=%v %s) by user %d on %s: stored read=%d recv=%d, model read=%d recv=%d", e.What, e.Seq, e.Valid, e.Reason, p.C.User.Idx, e.Topic, sr.ReadSeqId, sr.RecvSeqId, want.Read, want.Recv))
							}
						}
						if model[e.Topic] != nil && model[e.Topic][e.User] != nil {
							*model[e.Topic][e.User] = want
						}
					}
				}
			}
			checkBounds(post, "after probe")
		}

		for _, a := range prog.Acts {
			c := w.Clients[a.Client%len(w.Clients)]
			name := c01TopicName(sc, c, a.Topic)
			gname := w.globalName(c, mustResolve(w, name))
			var op *Op
			switch a.Kind {
			case "note":
				seq := 0
				last, cur := 0, 0
				if tr := w.Disk.Topics[gname]; tr != nil {
					last = tr.SeqId
				}
				if m := model[gname][c.User.Uid]; m != nil {
					cur = m.Read
					if a.What == "recv" {
						cur = m.Recv
					}
				}
				switch a.SeqRef {
				case "zero":
					seq = 0
				case "neg":
					seq = -3
				case "one":
					seq = 1
				case "stale":
					seq = cur - 1
				case "cur":
					seq = cur
				case "curp1":
					seq = cur + 1
				case "mid":
					seq = (cur + last + 1) / 2
				case "last":
					seq = last
				case "lastp1":
					seq = last + 1
				case "huge":
					seq = 1 << 30
				}
				if a.What == "kp" || a.What == "kpa" {
					if a.SeqRef != "one" {
						seq = 0
					}
				}
				op = opNote(name, a.What, seq)
			case "pub":
				tagN++
				op = opPub(name, fmt.Sprintf("m%d", tagN), false)
				if a.Fail {
					simStore.Fault = &faultPlan{FailAt: 1, FailMethod: "SubsUpdate"}
					simrt.Probe("fault.store_armed")
				}
			case "leave":
				op = opLeave(name, false)
			case "sub":
				op = opSub(name, "", "")
			case "unsub":
				op = opLeave(name, true)
				// a later resubscribe legitimately restarts the marks at zero
				delete(model[gname], c.User.Uid)
			case "want":
				op = opSetSub(name, "", a.Mode)
			case "given":
				ti := a.Topic % ntop
				if ti >= len(sc.Groups) || a.Target%sc.NUsers == sc.Groups[ti].Owner {
					continue
				}
				oc := w.clientsOf(sc.Groups[ti].Owner)[0]
				op = opSetSub(fmt.Sprintf("@grp%d", ti), fmt.Sprintf("@usr%d", a.Target%sc.NUsers), a.Mode)
				c = oc
			case "reload":
				lv := map[int][]*Op{}
				for _, oc := range w.Clients {
					lv[oc.Idx] = []*Op{opLeave(c01TopicName(sc, oc, a.Topic), false)}
				}
				w.runPhase(lv)
				simrt.Probe("c09.reload")
				back := map[int][]*Op{}
				for _, oc := range w.Clients {
					back[oc.Idx] = []*Op{opSub(c01TopicName(sc, oc, a.Topic), "", "")}
				}
				w.setOps(back)
				w.rt.Run(500*time.Millisecond, nil)
				sn := w.snapshot()
				syncModel(sn)
				checkBounds(sn, "after reload")
				continue
			}
			op.Isolated = true
			w.setOps(map[int][]*Op{c.Idx: {op}})
			if r := w.rt.Run(500*time.Millisecond, nil); r != simrt.RunQuiescent {
				return append(out, vio("C14", "livelock", "run result %d", r))
			}
			w.Enabled(true)
			if a.Kind == "unsub" {
				delete(model[gname], c.User.Uid)
			}
		}
		w.settle()
		return out
	})
	st.Trigger = len(kinds) >= 2 && invalid >= 1
	st.ProgHash = hashOf(prog)
	return viol, st
}

// mustResolve resolves @-placeholders in a topic name against the world.
func mustResolve(w *simWorld, name string) string {
	msg := w.resolve(w.Clients[0], opGet(name, "desc"))
	if msg == nil || msg.Get == nil {
		return name
	}
	return msg.Get.Topic
}

func simdbSubKey(topic string, u types.Uid) string { return topic + "\x00" + u.String() }

func TestSim_C09(t *testing.T) {
	rapid.Check(t, func(rt *rapid.T) {
		sched := genSchedule(rt)
		prog := genC09(rt)
		viol, st := runC09(t, sched, prog)
		reportRun(rt, "C09", viol, st, map[string]any{"schedule": sched, "program": prog})
	})
}
