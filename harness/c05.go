//go:build verif

package main

// C05 (the clause a simulator can decide) — every party that tracks permissions from change notifications
// ends up with exactly the permissions the authoritative topic holds.
//
// The 'perm' workload (sequences of {sub}/{set sub}/{del sub}/{leave unsub}/... by owners, administrators,
// members and strangers, with reloads) is replayed through trackers: for every client session, the recorded
// frames are folded the way a client SDK does it - full modes from {meta sub} listings on 'me', from {meta desc}
// and from the {ctrl params.acs} answers to the session's own requests, textual deltas (dacs) from
// {pres what=acs} applied with AccessMode.ApplyMutation (as the cluster proxy of a topic does) - and at the end of the run the tracked (want, given) of the
// session's own user on every topic is compared with what the loaded topic (else the store) holds.
// The algebraic clauses of C05 (canonical text form, parse/print round trip, delta laws over all pairs) are pure
// functions and are not claimed.

import (
	"fmt"
	"sort"
	"strings"
	"testing"

	"github.com/tinode/chat/server/simrt"
	"github.com/tinode/chat/server/store/types"
	"pgregory.net/rapid"
)

type c05Acs struct {
	Want, Given types.AccessMode
	Known       bool
	Gone        bool
	NoBase      bool // the first thing the session was told about the topic was a delta
	Trail       []string
}

func c05Track(w *simWorld, sn *Snapshot, detachedSet map[string]bool) (out []Violation, judged int) {
	parse := func(s string) (types.AccessMode, bool) {
		if s == "" {
			return types.ModeNone, false
		}
		m, err := types.ParseAcs([]byte(s))
		if err != nil {
			return types.ModeNone, false
		}
		return m, true
	}
	for _, c := range w.Clients {
		if c.User == nil || !c.Connected || !c.Attached["me"] {
			continue
		}
		self := c.User.Uid.UserId()
		st := map[string]*c05Acs{}
		get := func(topic string) *c05Acs {
			if st[topic] == nil {
				st[topic] = &c05Acs{}
			}
			return st[topic]
		}
		setFull := func(topic string, acs *MsgAccessMode, why string) {
			if acs == nil {
				return
			}
			a := get(topic)
			if m, ok := parse(acs.Want); ok {
				a.Want = m
			}
			if m, ok := parse(acs.Given); ok {
				a.Given = m
			}
			a.Known, a.Gone, a.NoBase = true, false, false
			a.Trail = append(a.Trail, fmt.Sprintf("%s want=%s given=%s", why, acs.Want, acs.Given))
		}
		for _, f := range c.Frames {
			if f.Inc != w.Inc {
				continue
			}
			m := f.Msg
			switch {
			case m.Meta != nil && m.Meta.Topic == "me":
				for _, sub := range m.Meta.Sub {
					if sub.Topic != "" && !types.IsChannel(sub.Topic) && (sub.Acs.Want != "" || sub.Acs.Given != "") {
						acs := sub.Acs
						setFull(w.globalName(c, sub.Topic), &acs, "meta-sub")
					}
				}
			case m.Meta != nil && m.Meta.Desc != nil && m.Meta.Desc.Acs != nil && m.Meta.Topic != "me" && m.Meta.Topic != "fnd" && !types.IsChannel(m.Meta.Topic):
				setFull(w.globalName(c, m.Meta.Topic), m.Meta.Desc.Acs, "meta-desc")
			case m.Ctrl != nil && m.Ctrl.Id != "":
				s := c.byID[m.Ctrl.Id]
				if s == nil || s.Msg == nil || m.Ctrl.Code >= 300 {
					continue
				}
				pm, _ := m.Ctrl.Params.(map[string]any)
				am, _ := pm["acs"].(map[string]any)
				if am == nil {
					continue
				}
				if u, _ := pm["user"].(string); u != "" && u != self {
					continue // somebody else's mode (answer to {set sub user=...})
				}
				topic := m.Ctrl.Topic
				if topic == "" || types.IsChannel(topic) {
					continue // a reader's subscription to chnX is another subscription than a member's to grpX
				}
				acs := &MsgAccessMode{}
				acs.Want, _ = am["want"].(string)
				acs.Given, _ = am["given"].(string)
				setFull(w.globalName(c, topic), acs, "ctrl "+m.Ctrl.Id)
			case m.Pres != nil:
				p := m.Pres
				src := p.Topic
				if src == "me" {
					src = p.Src
				}
				if src == "" || src == "me" {
					continue
				}
				g := w.globalName(c, src)
				if types.IsChannel(src) {
					continue
				}
				switch p.What {
				case "acs":
					// who is affected: on 'me' the recipient itself unless a target is named (requests shown to
					// administrators); on a topic the user named by tgt, else by src
					affected := p.AcsTarget
					if affected == "" {
						if p.Topic == "me" || p.Src == "" {
							affected = self // names are cleared when they would name the recipient
						} else {
							affected = p.Src
						}
					}
					if affected != self {
						continue
					}
					if p.Acs == nil {
						continue
					}
					a := get(g)
					if !a.Known && (strings.HasPrefix(p.Acs.Want, "+") || strings.HasPrefix(p.Acs.Want, "-") || strings.HasPrefix(p.Acs.Given, "+") || strings.HasPrefix(p.Acs.Given, "-")) {
						a.NoBase = true
					}
					w0, g0 := a.Want, a.Given
					if err := a.Want.ApplyMutation(p.Acs.Want); err != nil {
						out = append(out, vio("C05", "delta-not-applicable", "client %d: delta want=%q on %s cannot be applied: %v", c.Idx, p.Acs.Want, g, err))
					}
					if err := a.Given.ApplyMutation(p.Acs.Given); err != nil {
						out = append(out, vio("C05", "delta-not-applicable", "client %d: delta given=%q on %s cannot be applied: %v", c.Idx, p.Acs.Given, g, err))
					}
					a.Known, a.Gone = true, false
					a.Trail = append(a.Trail, fmt.Sprintf("pres-acs dw=%s dg=%s: %v/%v -> %v/%v", p.Acs.Want, p.Acs.Given, w0, g0, a.Want, a.Given))
				case "gone":
					a := get(g)
					a.Gone = true
					a.Trail = append(a.Trail, "gone")
				}
			}
		}
		var topics []string
		for tname := range st {
			topics = append(topics, tname)
		}
		sort.Strings(topics)
		for _, tname := range topics {
			a := st[tname]
			if !a.Known {
				continue
			}
			cat := types.GetTopicCat(tname)
			if cat != types.TopicCatGrp && cat != types.TopicCatP2P {
				continue
			}
			// authoritative: the loaded topic, else the store
			var want, given types.AccessMode
			exists := false
			if ts := sn.Topics[tname]; ts != nil {
				if pud, ok := ts.PerUser[c.User.Uid]; ok && !pud.Deleted && !pud.IsChan {
					want, given, exists = pud.Want, pud.Given, true
				}
			} else if sr := w.Disk.Subs[simdbSubKey(tname, c.User.Uid)]; sr != nil && sr.DeletedAt == nil {
				want, given, exists = sr.ModeWant, sr.ModeGiven, true
			}
			if !exists {
				continue // removed: no permissions to agree on (the "gone" notice is presence, C10)
			}
			if a.Gone {
				continue
			}
			judged++
			if a.Want&types.ModeBitmask != want&types.ModeBitmask || a.Given&types.ModeBitmask != given&types.ModeBitmask {
				trail := a.Trail
				if len(trail) > 8 {
					trail = trail[len(trail)-8:]
				}
				key := "tracked-permissions-diverged"
				// recorded finding: a change is announced to the user's sessions attached to the topic at once and
				// to the others through 'me', where "attached to the topic" is evaluated later (SkipTopic): a
				// session whose own {sub} is processed in between gets neither notice, and a {sub} that changes
				// nothing reports no acs
				raced := false
				var mySubs []*Sent
				for _, sx := range c.Sents {
					if sx.Msg != nil && sx.Msg.Sub != nil && sx.Code >= 200 && sx.Code < 300 && w.globalName(c, sx.Msg.Sub.Topic) == tname {
						mySubs = append(mySubs, sx)
					}
				}
				for _, mySub := range mySubs {
					for _, oc := range w.clientsOf(c.User.Idx) {
						if oc == c {
							continue
						}
						for _, sx := range oc.Sents {
							if sx.Msg == nil || sx.Code >= 300 {
								continue
							}
							name := ""
							if sx.Msg.Sub != nil {
								name = sx.Msg.Sub.Topic
							} else if sx.Msg.Set != nil {
								name = sx.Msg.Set.Topic
							}
							if name == "" || w.globalName(oc, name) != tname {
								continue
							}
							end := sx.CtrlEv
							if end == 0 {
								end = 1 << 30 // reply not seen (yet): still in flight
							}
							if sx.Ev < mySub.CtrlEv+40 && end+40 > mySub.Ev {
								raced = true
							}
						}
					}
				}
				// a {set sub} of the same user served while the sending session was not attached (replyOfflineTopicSetSub,
				// topic loaded or not): only the requester is told
				offline := detachedSet[tname+"/"+self]
				for _, oc := range w.clientsOf(c.User.Idx) {
					if oc == c {
						continue
					}
					for _, sx := range oc.Sents {
						if sx.Detached && sx.Msg.Set.Sub != nil && (sx.Msg.Set.Sub.User == "" || sx.Msg.Set.Sub.User == self) && sx.Code >= 200 && sx.Code < 300 && w.globalName(oc, sx.Msg.Set.Topic) == tname {
							offline = true
						}
					}
				}
				// recorded finding (C10 p2p-presence-diverged after-partner-subscription-restored): the user deleted its own
				// p2p subscription, the partner attaching later restores it in initTopicP2P without any {pres acs}
				restored := false
				if cat == types.TopicCatP2P {
					for _, oc := range w.clientsOf(c.User.Idx) {
						for _, sx := range oc.Sents {
							if sx.Msg == nil || sx.Code < 200 || sx.Code >= 300 {
								continue
							}
							if (sx.Msg.Leave != nil && sx.Msg.Leave.Unsub && w.globalName(oc, sx.Msg.Leave.Topic) == tname) ||
								(sx.Msg.Del != nil && sx.Msg.Del.What == "topic" && w.globalName(oc, sx.Msg.Del.Topic) == tname) {
								restored = true
							}
						}
					}
				}
				// recorded finding (C08 refused-request-changed-store sub-p2p unloaded): a {sub} to a p2p topic that is not
				// loaded writes the requester's rows while the topic loads, before the requested mode is evaluated and
				// refused: the store changes, the requester is told 4xx and nobody else anything
				refusedP2P := false
				if cat == types.TopicCatP2P {
					for _, oc := range w.Clients { // either party's request: it creates both subscriptions of a new topic
						for _, sx := range oc.Sents {
							if oc.User != nil && sx.Msg != nil && sx.Msg.Sub != nil && sx.Code >= 400 && w.globalName(oc, sx.Msg.Sub.Topic) == tname {
								refusedP2P = true
							}
						}
					}
				}
				_ = restored // (repaired: a p2p subscription restored by the partner's {sub} is announced now)
				if refusedP2P {
					key = "tracked-permissions-diverged after-refused-p2p-sub"
				} else if raced {
					key = "tracked-permissions-diverged attach-raced-notification"
				} else if a.NoBase {
					// recorded finding: a refused first {sub} to a p2p topic creates the subscription while the topic
					// loads and never announces it; the first notice the user's other sessions get is a later delta
					key = "tracked-permissions-diverged first-told-a-delta"
				} else if offline {
					// recorded finding: a {set} from a session that is not attached is served from the store
					// (replyOfflineTopicSetSub): only the requester is told, no {pres acs} goes to the other sessions
					key = "tracked-permissions-diverged after-detached-set"
				}
				out = append(out, vio("C05", key, "client %d (user %d) tracks want=%v given=%v on %s, the topic holds want=%v given=%v; what the session was told: %v", c.Idx, c.User.Idx, a.Want, a.Given, tname, want, given, trail))
			}
		}
	}
	return
}

func TestSim_C05(t *testing.T) {
	rapid.Check(t, func(rt *rapid.T) {
		sched := genSchedule(rt)
		prog := genPerm(rt, false)
		prog.Track = true
		viol, st, ps := runPerm(t, sched, prog)
		st.Trigger = ps.tracked >= 2 && ps.requests >= 4
		proc.Extra["c05.tracked_pairs_judged"] += float64(ps.tracked)
		reportRun(rt, "C05", viol, st, map[string]any{"schedule": sched, "program": prog})
	})
}

var _ = simrt.Probe
