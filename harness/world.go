//go:build verif

package main

// The simulated world around one server: clients, transports, the external-action queue the scheduler
// draws from, crash/restart, quiescence.

import (
	"context"
	"encoding/json"
	"fmt"
	"io"
	"net"
	"sort"
	"strings"
	"time"

	"github.com/tinode/chat/pbx"
	"github.com/tinode/chat/server/db/simdb"
	"github.com/tinode/chat/server/simrt"
	"github.com/tinode/chat/server/store"
	"google.golang.org/grpc/metadata"
	"google.golang.org/grpc/peer"
)

// Frame is one server message as received by a client.
type Frame struct {
	Ev  int // global event number at delivery
	At  time.Duration
	Inc int // server incarnation
	Msg *ServerComMessage
}

// Sent is one client request as handed to the transport.
type Sent struct {
	Ev   int
	At   time.Duration
	Inc  int
	Conn int
	Op   *Op
	Msg  *ClientComMessage
	Id   string
	// Reply bookkeeping
	Answered   bool
	FirstReply int // event number of first frame carrying the id
	Code       int // code of the first {ctrl} carrying the id (0 = none yet)
	CtrlEv     int
	Ctrl       *MsgServerCtrl
	TimedOut   bool
	Detached   bool // a {set} sent while this client was not attached to the topic it names
}

// SimClient is one client connection slot (it may reconnect: Conn counts connections).
type SimClient struct {
	Idx       int
	W         *simWorld
	User      *simUser // identity this client logs in as (nil = anonymous / not logging in)
	Conn      int
	Connected bool
	in        chan *pbx.ClientMsg
	stall     chan struct{} // non-nil while the client is a slow consumer (not reading)
	Frames    []Frame
	Sents     []*Sent
	byID      map[string]*Sent
	Ops       []*Op
	next      int
	lastSent  *Sent
	readyAt   time.Duration
	nextID    int
	Transport int
	inLP      chan []byte
	lpSid     string
	lpCancel  context.CancelFunc
	RawFrames []string
	// Protocol state as the client understands it
	HiDone, LoggedIn bool
	Sid              string
	Attached         map[string]bool // by the name the client uses
}

type grpcStream struct {
	c    *SimClient
	conn int
	ctx  context.Context
	in   chan *pbx.ClientMsg // this connection's inbound queue
}

func (s *grpcStream) Recv() (*pbx.ClientMsg, error) {
	m, ok := simrt.RecvOk("client.grpc.recv", s.in)
	if !ok {
		return nil, io.EOF
	}
	return m, nil
}

func (s *grpcStream) Send(m *pbx.ServerMsg) error {
	c := s.c
	if c.Conn != s.conn || !c.Connected {
		return io.ErrClosedPipe
	}
	if st := c.stall; st != nil {
		simrt.Probe("client.slow_consumer.blocked")
		simrt.Recv("client.grpc.stalled", st)
		if c.Conn != s.conn || !c.Connected {
			return io.ErrClosedPipe
		}
	}
	msg := pbServDeserialize(m)
	if d := m.GetData(); d != nil && msg.Data != nil && d.GetTimestamp() > 0 {
		// pbServDeserialize's int64ToTime reads the millisecond remainder as nanoseconds (a codec helper used
		// only on this simulated client side); take the timestamp from the wire value instead.
		msg.Data.Timestamp = time.UnixMilli(d.GetTimestamp()).UTC()
	}
	c.deliver(msg)
	return nil
}

func (s *grpcStream) SetHeader(metadata.MD) error  { return nil }
func (s *grpcStream) SendHeader(metadata.MD) error { return nil }
func (s *grpcStream) SetTrailer(metadata.MD)       {}
func (s *grpcStream) Context() context.Context     { return s.ctx }
func (s *grpcStream) SendMsg(any) error            { return nil }
func (s *grpcStream) RecvMsg(any) error            { return nil }

func (c *SimClient) deliver(msg *ServerComMessage) {
	w := c.W
	w.ev++
	if msg.Data != nil {
		msg.Data.Content = decodeContent(msg.Data.Content)
	}
	f := Frame{Ev: w.ev, At: w.rt.Now(), Inc: w.Inc, Msg: msg}
	c.Frames = append(c.Frames, f)
	id := frameID(msg)
	if w.rt.KeepTrace || true {
		w.rt.Logf("deliver c%d %s", c.Idx, frameSummary(msg))
	}
	if id != "" {
		if s := c.byID[id]; s != nil {
			if !s.Answered {
				s.Answered = true
				s.FirstReply = f.Ev
			}
			if msg.Ctrl != nil && s.Code == 0 {
				s.Code = msg.Ctrl.Code
				s.CtrlEv = f.Ev
				s.Ctrl = msg.Ctrl
			}
		}
	}
	c.observe(msg)
	if msg.Ctrl != nil && msg.Ctrl.Code == 205 && msg.Ctrl.Topic == "" && msg.Ctrl.Id == "" {
		// the server evicted the whole session (account suspended/deleted): a real client sees the stream end
		w.rt.Logf("evicted c%d", c.Idx)
		c.disconnect()
	}
}

func frameID(m *ServerComMessage) string {
	switch {
	case m.Ctrl != nil:
		return m.Ctrl.Id
	case m.Meta != nil:
		return m.Meta.Id
	}
	return ""
}

func frameSummary(m *ServerComMessage) string {
	switch {
	case m.Ctrl != nil:
		return fmt.Sprintf("ctrl id=%s code=%d topic=%s %v", m.Ctrl.Id, m.Ctrl.Code, m.Ctrl.Topic, canon(m.Ctrl.Params))
	case m.Data != nil:
		return fmt.Sprintf("data topic=%s from=%s seq=%d head=%v content=%v", m.Data.Topic, m.Data.From, m.Data.SeqId, canon(m.Data.Head), canon(m.Data.Content))
	case m.Pres != nil:
		p := m.Pres
		s := fmt.Sprintf("pres topic=%s src=%s what=%s seq=%d clear=%d tgt=%s act=%s", p.Topic, p.Src, p.What, p.SeqId, p.DelId, p.AcsTarget, p.AcsActor)
		if p.Acs != nil {
			s += " dacs=" + p.Acs.describe()
		}
		return s
	case m.Info != nil:
		i := m.Info
		return fmt.Sprintf("info topic=%s from=%s what=%s seq=%d ev=%s src=%s", i.Topic, i.From, i.What, i.SeqId, i.Event, i.Src)
	case m.Meta != nil:
		return "meta id=" + m.Meta.Id + " " + canon(m.Meta)
	}
	return "empty"
}

// canon renders any JSON-able value deterministically.
func canon(v any) string {
	if v == nil {
		return "nil"
	}
	b, err := json.Marshal(v)
	if err != nil {
		return fmt.Sprintf("%#v", v)
	}
	return string(b)
}

// observe updates the client's own view of the protocol state from a received frame.
func (c *SimClient) observe(m *ServerComMessage) {
	if m.Ctrl == nil {
		return
	}
	if m.Ctrl.Code == 205 && m.Ctrl.Id == "" && m.Ctrl.Topic != "" {
		delete(c.Attached, m.Ctrl.Topic) // evicted from that topic
		return
	}
	s := c.byID[m.Ctrl.Id]
	if s == nil || s.Msg == nil {
		return
	}
	ok := m.Ctrl.Code >= 200 && m.Ctrl.Code < 300
	// the mode reported back: a mode without J means the session is not (or no longer) attached
	noJoin := false
	if pm, _ := m.Ctrl.Params.(map[string]any); pm != nil && ok {
		if am, _ := pm["acs"].(map[string]any); am != nil {
			if u, _ := pm["user"].(string); u == "" {
				if mode, _ := am["mode"].(string); mode != "" && !strings.ContainsAny(mode, "Jj") {
					noJoin = true
				}
			}
		}
	}
	switch {
	case s.Msg.Hi != nil && ok:
		c.HiDone = true
	case s.Msg.Login != nil && ok:
		c.LoggedIn = true
	case s.Msg.Sub != nil && (ok || m.Ctrl.Code == 304):
		name := s.Msg.Sub.Topic
		if strings.HasPrefix(name, "new") || strings.HasPrefix(name, "nch") {
			name = m.Ctrl.Topic
			c.W.noteCreated(s, name)
		}
		c.Attached[name] = true
		if noJoin {
			delete(c.Attached, name)
		}
	case s.Msg.Leave != nil && (ok || m.Ctrl.Code == 304):
		delete(c.Attached, s.Msg.Leave.Topic)
	case s.Msg.Set != nil && noJoin:
		delete(c.Attached, s.Msg.Set.Topic)
	}
}

// ---------------------------------------------------------------------------------------------

type simWorld struct {
	rt           *simrt.World
	Disk         *simdb.Disk
	Inc          int // server incarnation (bumped by every restart)
	ev           int
	Users        []*simUser
	Clients      []*SimClient
	Groups       []string // names of group topics known to the workload (seeded or created)
	created      map[*Sent]string
	Timeout      time.Duration // client-side reply timeout (simulated)
	Crashes      int
	OnFire       func(c *SimClient, s *Sent)
	Unanswered   []*Sent
	iso          *isoProbe
	IsoCloneDisk bool
	OnIsoFire    func(p *isoProbe)
	OnIsoDone    func(p *isoProbe, post *Snapshot)
}

func newSimWorld(sched simrt.Schedule, disk *simdb.Disk) *simWorld {
	ch := simrt.NewChooser(sched)
	rt := simrt.NewWorld(ch)
	w := &simWorld{rt: rt, Disk: disk, Inc: 1, Timeout: 20 * time.Second, created: map[*Sent]string{}}
	rt.Ext = w
	curWorld = w
	simStore.reset()
	simCred.reset()
	simLog.reset()
	simBoot(disk)
	return w
}

func (w *simWorld) noteCreated(s *Sent, name string) {
	if _, ok := w.created[s]; ok {
		return
	}
	w.created[s] = name
	if s.Op != nil && s.Op.CreatesGroup >= 0 {
		for len(w.Groups) <= s.Op.CreatesGroup {
			w.Groups = append(w.Groups, "")
		}
		w.Groups[s.Op.CreatesGroup] = name
	}
}

func (w *simWorld) addClient(u *simUser) *SimClient {
	c := &SimClient{Idx: len(w.Clients), W: w, User: u, byID: map[string]*Sent{}, Attached: map[string]bool{}}
	w.Clients = append(w.Clients, c)
	return c
}

// connect opens a new gRPC stream for the client: the real MessageLoop runs as a task.
func (c *SimClient) connect() {
	if c.Connected {
		return
	}
	c.Conn++
	c.Connected = true
	c.HiDone, c.LoggedIn = false, false
	c.Attached = map[string]bool{}
	c.in = make(chan *pbx.ClientMsg, 1024)
	c.stall = nil
	if c.Transport == TransportLP {
		c.connectLP()
		return
	}
	ctx := peer.NewContext(context.Background(), &peer.Peer{Addr: &net.TCPAddr{IP: net.IPv4(10, 0, 0, byte(1+c.Idx)), Port: 1000 + c.Conn}})
	st := &grpcStream{c: c, conn: c.Conn, ctx: ctx, in: c.in}
	srv := &grpcNodeServer{}
	conn := c.Conn
	simrt.Go(fmt.Sprintf("client%d.MessageLoop", c.Idx), func() {
		srv.MessageLoop(st)
		// the handler returned: gRPC closes the stream, the client sees the end of it
		if c.Conn == conn && c.Connected {
			c.W.rt.Logf("server closed c%d", c.Idx)
			simrt.Probe("client.stream_closed_by_server")
			c.disconnect()
		}
	})
}

// disconnect drops the connection abruptly.
func (c *SimClient) disconnect() {
	if !c.Connected {
		return
	}
	c.Connected = false
	close(c.in)
	if c.Transport == TransportLP {
		if c.lpCancel != nil {
			c.lpCancel()
		}
		if c.inLP != nil {
			close(c.inLP)
			c.inLP = nil
		}
	}
	if c.stall != nil {
		close(c.stall)
		c.stall = nil
	}
	c.Attached = map[string]bool{}
	c.HiDone, c.LoggedIn = false, false
}

func (c *SimClient) newID() string {
	c.nextID++
	return fmt.Sprintf("c%d.%d", c.Idx, c.nextID)
}

// send hands a request to the transport (never blocks: the inbound queue is large).
func (c *SimClient) send(op *Op, msg *ClientComMessage) *Sent {
	w := c.W
	w.ev++
	s := &Sent{Ev: w.ev, At: w.rt.Now(), Inc: w.Inc, Conn: c.Conn, Op: op, Msg: msg, Id: msgID(msg)}
	c.Sents = append(c.Sents, s)
	if s.Id != "" {
		c.byID[s.Id] = s
	}
	if msg != nil && msg.Set != nil && !c.Attached[msg.Set.Topic] {
		s.Detached = true
	}
	w.rt.Logf("send c%d %s", c.Idx, canon(msg))
	if !c.Connected {
		s.TimedOut = true
		return s
	}
	if c.Transport == TransportLP {
		raw := op.Raw
		if raw == nil {
			raw, _ = json.Marshal(msg)
			if op.Mut != 0 {
				raw = mutateJSON(raw, op.Mut, op.MutArg)
			}
		}
		if len(raw) == 0 {
			raw = []byte("\n") // an empty body would be a poll, not a message
		}
		select {
		case c.inLP <- raw:
		default:
			panic("simclient: inbound queue full")
		}
		return s
	}
	select {
	case c.in <- pbCliSerialize(msg):
	default:
		panic("simclient: inbound queue full")
	}
	return s
}

func msgID(m *ClientComMessage) string {
	switch {
	case m.Hi != nil:
		return m.Hi.Id
	case m.Acc != nil:
		return m.Acc.Id
	case m.Login != nil:
		return m.Login.Id
	case m.Sub != nil:
		return m.Sub.Id
	case m.Leave != nil:
		return m.Leave.Id
	case m.Pub != nil:
		return m.Pub.Id
	case m.Get != nil:
		return m.Get.Id
	case m.Set != nil:
		return m.Set.Id
	case m.Del != nil:
		return m.Del.Id
	}
	return ""
}

// ---- simrt.External ---------------------------------------------------------------------------

func (c *SimClient) opReady(now time.Duration) (ready bool, deadline time.Duration, hasDeadline bool) {
	if c.next >= len(c.Ops) {
		return false, 0, false
	}
	op := c.Ops[c.next]
	at := c.readyAt + op.Delay
	if ls := c.lastSent; ls != nil && !op.NoWait && ls.Id != "" && !ls.Answered && !ls.TimedOut && ls.Inc == c.W.Inc && ls.Conn == c.Conn && c.Connected {
		// waiting for the reply to the previous request, up to the client timeout
		to := ls.At + c.W.Timeout
		if now < to {
			return false, to - now, true
		}
		ls.TimedOut = true
		c.W.Unanswered = append(c.W.Unanswered, ls)
	}
	if now < at {
		return false, at - now, true
	}
	return true, 0, false
}

// isoProbe is an isolated operation: fired only when the world is idle and nothing else is in flight,
// so that the white-box snapshot taken at fire time is the state the request is processed against.
type isoProbe struct {
	C       *SimClient
	Op      *Op
	Sent    *Sent
	Pre     *Snapshot
	PreDisk *simdb.Disk
	FireEv  int
	Exp     any
}

func (w *simWorld) inFlight() bool {
	for _, c := range w.Clients {
		if ls := c.lastSent; ls != nil && ls.Id != "" && !ls.Answered && !ls.TimedOut && ls.Inc == w.Inc && ls.Conn == c.Conn && c.Connected {
			return true
		}
	}
	return false
}

func (w *simWorld) Enabled(idle bool) []int {
	now := w.rt.Now()
	if w.iso != nil {
		if !idle {
			return nil
		}
		p := w.iso
		w.iso = nil
		if w.OnIsoDone != nil {
			simPush.drain()
			w.OnIsoDone(p, w.snapshot())
		}
	}
	var out []int
	for _, c := range w.Clients {
		if ok, _, _ := c.opReady(now); ok {
			if c.Ops[c.next].Isolated {
				if !idle || w.inFlight() {
					continue
				}
				if len(out) == 0 {
					// an isolated operation fires alone
					return []int{c.Idx}
				}
				continue
			}
			out = append(out, c.Idx)
		}
	}
	return out
}

func (w *simWorld) NextDeadline() (time.Duration, bool) {
	now := w.rt.Now()
	var best time.Duration
	has := false
	for _, c := range w.Clients {
		if ok, d, hd := c.opReady(now); !ok && hd {
			if !has || d < best {
				best, has = d, true
			}
		}
	}
	return best, has
}

func (w *simWorld) Fire(id int) {
	c := w.Clients[id]
	op := c.Ops[c.next]
	c.next++
	c.readyAt = w.rt.Now()
	if op.Isolated {
		simPush.drain()
		p := &isoProbe{C: c, Op: op, Pre: w.snapshot(), FireEv: w.ev}
		if w.IsoCloneDisk {
			p.PreDisk = w.Disk.Clone()
		}
		nSent := len(c.Sents)
		w.exec(c, op)
		if len(c.Sents) > nSent {
			p.Sent = c.Sents[nSent]
		}
		w.iso = p
		if w.OnIsoFire != nil {
			w.OnIsoFire(p)
		}
		return
	}
	w.exec(c, op)
}

// exec performs one client operation.
func (w *simWorld) exec(c *SimClient, op *Op) {
	switch op.Kind {
	case OpConnect:
		c.connect()
		return
	case OpDisconnect:
		w.rt.Logf("disconnect c%d", c.Idx)
		simrt.Probe("fault.disconnect")
		c.disconnect()
		return
	case OpStall:
		if c.Connected && c.stall == nil {
			c.stall = make(chan struct{})
			simrt.Probe("fault.slow_consumer")
		}
		return
	case OpUnstall:
		if c.stall != nil {
			close(c.stall)
			c.stall = nil
		}
		return
	case OpSleep:
		return
	}
	if !c.Connected {
		if op.Kind == OpHi || op.AutoConnect {
			c.connect()
		} else {
			return
		}
	}
	msg := w.resolve(c, op)
	if msg == nil {
		w.rt.Logf("skip c%d %s", c.Idx, op.Kind)
		return
	}
	s := c.send(op, msg)
	c.lastSent = s
	if w.OnFire != nil {
		w.OnFire(c, s)
	}
	if op.Dup {
		simrt.Probe("fault.dup_req")
		c.send(op, msg)
	}
}

// ---- run control ------------------------------------------------------------------------------

// setOps replaces the clients' pending operation queues (start of a phase).
func (w *simWorld) setOps(ops map[int][]*Op) {
	now := w.rt.Now()
	for _, c := range w.Clients {
		c.Ops = ops[c.Idx]
		c.next = 0
		c.readyAt = now
		c.lastSent = nil
	}
}

const settleTime = 12 * time.Second

// settle runs the world to quiescence: nothing runnable and no client action for settleTime of
// simulated time (above the 4 s idle-topic, 5 s deferred-notification and call timers).
func (w *simWorld) settle() simrt.RunResult {
	r := w.rt.Run(settleTime, nil)
	simPush.drain()
	if w.iso != nil && r == simrt.RunQuiescent {
		w.Enabled(true)
	}
	return r
}

// crashRestart kills every task (simulated kill -9) and boots a new incarnation on the same Disk.
func (w *simWorld) crashRestart() {
	w.rt.Logf("CRASH inc=%d", w.Inc)
	simrt.Probe("fault.crash")
	w.rt.CrashReq = false
	w.rt.KillAll()
	for _, c := range w.Clients {
		c.Connected = false
		c.stall = nil
		c.Attached = map[string]bool{}
		c.HiDone, c.LoggedIn = false, false
	}
	simStore.Fault = nil
	store.Store.Close()
	w.Inc++
	w.Crashes++
	simBoot(w.Disk)
}

// shutdown ends the run: all tasks are killed so that the bubble can close.
func (w *simWorld) shutdown() {
	w.rt.KillAll()
	store.Store.Close()
	simPush.reset()
	simrt.W = nil
}

// liveTasks lists tasks that are neither done nor dormant, as "site@wait".
func (w *simWorld) liveTasks() []string {
	var out []string
	for _, t := range w.rt.Tasks() {
		out = append(out, fmt.Sprintf("%s[%s@%s]", t.Site, t.State, t.WaitAt))
	}
	sort.Strings(out)
	return out
}
