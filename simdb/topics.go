package simdb

import (
	"errors"
	"sort"
	"strings"
	"time"

	"github.com/tinode/chat/server/db/common"
	t "github.com/tinode/chat/server/store/types"
)

// topicFromRow converts a DB row to a topic object. Nothing in the result aliases the row.
func topicFromRow(r *TopicRow, withOwner bool) t.Topic {
	var tt t.Topic
	tt.Id = r.Name
	tt.CreatedAt = r.CreatedAt
	tt.UpdatedAt = r.UpdatedAt
	tt.State = r.State
	tt.StateAt = cpTimePtr(r.StateAt)
	tt.TouchedAt = r.TouchedAt
	tt.UseBt = r.UseBt
	tt.Access = r.Access
	if withOwner {
		tt.Owner = r.Owner.String()
	}
	tt.SeqId = r.SeqId
	tt.DelId = r.DelId
	tt.Public = fromJSON(r.Public)
	tt.Trusted = fromJSON(r.Trusted)
	tt.Tags = t.StringSlice(cpStrings(r.Tags))
	return tt
}

// subFromRow converts a DB row to a subscription with the columns
// createdat,updatedat,deletedat,topic,delid,recvseqid,readseqid,modewant,modegiven.
// User and Private are not assigned.
func subFromRow(r *SubRow) t.Subscription {
	var sub t.Subscription
	sub.CreatedAt = r.CreatedAt
	sub.UpdatedAt = r.UpdatedAt
	sub.DeletedAt = cpTimePtr(r.DeletedAt)
	sub.Topic = r.Topic
	sub.DelId = r.DelId
	sub.RecvSeqId = r.RecvSeqId
	sub.ReadSeqId = r.ReadSeqId
	sub.ModeWant = r.ModeWant
	sub.ModeGiven = r.ModeGiven
	return sub
}

// checkTopicCreate validates what topicCreate is going to do.
func checkTopicCreate(d *Disk, topic *t.Topic) error {
	if _, ok := d.Topics[topic.Id]; ok {
		// Not converted to ErrDuplicate by the SQL adapter.
		return errDupEntry("topics", "topics_name")
	}
	if topic.Access.Auth.IsInvalid() || topic.Access.Anon.IsInvalid() {
		return errors.New("AccessMode invalid")
	}
	// Save topic's tags to a separate table to make topic findable.
	if hasDupStrings(topic.Tags) {
		return t.ErrDuplicate
	}
	return nil
}

// topicCreate inserts the topic and its tags. Must be validated by checkTopicCreate first.
func topicCreate(d *Disk, topic *t.Topic) {
	d.AutoInc.Topics++
	d.Topics[topic.Id] = &TopicRow{
		Id:        d.AutoInc.Topics,
		CreatedAt: normTime(topic.CreatedAt),
		UpdatedAt: normTime(topic.UpdatedAt),
		State:     topic.State,
		TouchedAt: normTime(topic.TouchedAt),
		Name:      topic.Id,
		UseBt:     topic.UseBt,
		Owner:     t.ParseUid(topic.Owner),
		Access:    normAccess(topic.Access),
		Public:    toJSON(topic.Public),
		Trusted:   toJSON(topic.Trusted),
		Tags:      cpStrings(topic.Tags),
	}
	setTags(d.TopicTags, topic.Id, topic.Tags)
}

// TopicCreate saves topic object to database.
func (a *Adapter) TopicCreate(topic *t.Topic) error {
	return a.call("TopicCreate", []any{topic}, func(d *Disk) error {
		if err := checkTopicCreate(d, topic); err != nil {
			return err
		}
		topicCreate(d, topic)
		return nil
	})
}

// checkCreateSubscription validates what createSubscription is going to do:
// the only constraint which can fail is the foreign key subscriptions.userid -> users.id.
func checkCreateSubscription(d *Disk, sub *t.Subscription) error {
	if _, ok := d.Users[t.ParseUid(sub.User)]; !ok {
		return errForeignKey("subscriptions.userid", "users.id")
	}
	return nil
}

// createSubscription inserts or updates a subscription.
// If undelete = true - keep 'private' of an existing subscription, otherwise overwrite it too.
// Must be validated by checkCreateSubscription first.
func createSubscription(d *Disk, sub *t.Subscription, undelete bool) {
	isOwner := (sub.ModeGiven & sub.ModeWant).IsOwner()

	jpriv := toJSON(sub.Private)
	uid := t.ParseUid(sub.User)
	key := SubKey(sub.Topic, uid)
	if row, ok := d.Subs[key]; ok {
		row.CreatedAt = normTime(sub.CreatedAt)
		row.UpdatedAt = normTime(sub.UpdatedAt)
		row.DeletedAt = nil
		row.ModeWant = normMode(sub.ModeWant)
		row.ModeGiven = normMode(sub.ModeGiven)
		row.DelId = 0
		row.RecvSeqId = 0
		row.ReadSeqId = 0
		if !undelete {
			row.Private = jpriv
		}
	} else {
		d.AutoInc.Subs++
		d.Subs[key] = &SubRow{
			Id:        d.AutoInc.Subs,
			CreatedAt: normTime(sub.CreatedAt),
			UpdatedAt: normTime(sub.UpdatedAt),
			User:      uid,
			Topic:     sub.Topic,
			ModeWant:  normMode(sub.ModeWant),
			ModeGiven: normMode(sub.ModeGiven),
			Private:   jpriv,
		}
	}
	if isOwner {
		if tr, ok := d.Topics[sub.Topic]; ok {
			tr.Owner = uid
		}
	}
}

// TopicCreateP2P given two users creates a p2p topic
func (a *Adapter) TopicCreateP2P(initiator, invited *t.Subscription) error {
	return a.call("TopicCreateP2P", []any{initiator, invited}, func(d *Disk) error {
		topic := &t.Topic{ObjHeader: t.ObjHeader{Id: initiator.Topic}}
		topic.ObjHeader.MergeTimes(&initiator.ObjHeader)
		topic.TouchedAt = initiator.GetTouchedAt()

		if err := checkCreateSubscription(d, initiator); err != nil {
			return err
		}
		if err := checkCreateSubscription(d, invited); err != nil {
			return err
		}
		if err := checkTopicCreate(d, topic); err != nil {
			return err
		}

		createSubscription(d, initiator, false)
		createSubscription(d, invited, true)
		topicCreate(d, topic)
		return nil
	})
}

// TopicGet loads a single topic by name, if it exists. If the topic does not exist the call returns (nil, nil)
func (a *Adapter) TopicGet(topic string) (*t.Topic, error) {
	var res *t.Topic
	err := a.call("TopicGet", []any{topic}, func(d *Disk) error {
		if r, ok := d.Topics[topic]; ok {
			tt := topicFromRow(r, true)
			res = &tt
		}
		return nil
	})
	return res, err
}

// TopicsForUser loads user's contact list: p2p and grp topics, except for 'me' & 'fnd' subscriptions.
// Reads and denormalizes Public value.
func (a *Adapter) TopicsForUser(uid t.Uid, keepDeleted bool, opts *t.QueryOpt) ([]t.Subscription, error) {
	var res []t.Subscription
	err := a.call("TopicsForUser", []any{uid, keepDeleted, opts}, func(d *Disk) error {
		maxResults := a.maxResults()

		// Fetch ALL user's subscriptions, even those which has not been modified recently.
		limit := 0
		ims := time.Time{}
		onlyTopic := ""
		if opts != nil {
			onlyTopic = opts.Topic

			// Apply the limit only when the client does not manage the cache (or cold start).
			// Otherwise have to get all subscriptions and do a manual join with users/topics.
			if opts.IfModifiedSince == nil {
				if opts.Limit > 0 && opts.Limit < maxResults {
					limit = opts.Limit
				} else {
					limit = maxResults
				}
			} else {
				ims = *opts.IfModifiedSince
			}
		} else {
			limit = maxResults
		}

		rows := d.subsSorted(func(s *SubRow) bool {
			if s.User != uid {
				return false
			}
			if !keepDeleted && s.DeletedAt != nil {
				return false
			}
			return onlyTopic == "" || s.Topic == onlyTopic
		})
		if limit > 0 && len(rows) > limit {
			rows = rows[:limit]
		}

		// Fetch subscriptions. Two queries are needed: users table (p2p) and topics table (grp).
		// Prepare a list of separate subscriptions to users vs topics
		join := make(map[string]t.Subscription) // Keeping these to make a join with table for .private and .access
		var order []string                      // Keys of join in the order of first insertion.
		topq := make([]string, 0, 16)
		usrq := make([]t.Uid, 0, 16)
		for _, r := range rows {
			sub := subFromRow(r)
			tname := sub.Topic
			sub.User = uid.String()
			tcat := t.GetTopicCat(tname)

			if tcat == t.TopicCatMe || tcat == t.TopicCatFnd {
				// One of 'me', 'fnd' subscriptions, skip. Don't skip 'sys' subscription.
				continue
			} else if tcat == t.TopicCatP2P {
				// P2P subscription, find the other user to get user.Public and user.Trusted.
				uid1, uid2, _ := t.ParseP2P(tname)
				if uid1 == uid {
					usrq = append(usrq, uid2)
					sub.SetWith(uid2.UserId())
				} else {
					usrq = append(usrq, uid1)
					sub.SetWith(uid1.UserId())
				}
				topq = append(topq, tname)
			} else {
				// Group or 'sys' subscription.
				if tcat == t.TopicCatGrp {
					// Maybe convert channel name to topic name.
					tname = t.ChnToGrp(tname)
				}
				topq = append(topq, tname)
			}
			sub.Private = fromJSON(r.Private)
			if _, ok := join[tname]; !ok {
				order = append(order, tname)
			}
			join[tname] = sub
		}

		if len(join) == 0 {
			return nil
		}

		// Fetch grp topics and join to subscriptions.
		if len(topq) > 0 {
			inq := make(map[string]struct{}, len(topq))
			for _, name := range topq {
				inq[name] = struct{}{}
			}
			var tops []*TopicRow
			for _, tr := range d.topicsSorted() {
				if _, ok := inq[tr.Name]; !ok {
					continue
				}
				if !keepDeleted && tr.State == t.StateDeleted {
					// Optionally skip deleted topics.
					continue
				}
				if !ims.IsZero() && !tr.TouchedAt.After(ims) {
					// Use cache timestamp if provided: get newer entries only.
					continue
				}
				tops = append(tops, tr)
			}
			if !ims.IsZero() && limit > 0 && limit < len(topq) {
				// No point in fetching more than the requested limit.
				sort.SliceStable(tops, func(i, j int) bool { return tops[i].TouchedAt.Before(tops[j].TouchedAt) })
				if len(tops) > limit {
					tops = tops[:limit]
				}
			}

			for _, tr := range tops {
				sub := join[tr.Name]
				// Check if sub.UpdatedAt needs to be adjusted to earlier or later time.
				sub.UpdatedAt = common.SelectLatestTime(sub.UpdatedAt, tr.UpdatedAt)
				sub.SetState(tr.State)
				sub.SetTouchedAt(tr.TouchedAt)
				sub.SetSeqId(tr.SeqId)
				if t.GetTopicCat(sub.Topic) == t.TopicCatGrp {
					sub.SetPublic(fromJSON(tr.Public))
					sub.SetTrusted(fromJSON(tr.Trusted))
				}
				// Put back the updated value of a subsription, will process further below
				join[tr.Name] = sub
			}
		}

		// Fetch p2p users and join to p2p subscriptions.
		if len(usrq) > 0 {
			inq := make(map[t.Uid]struct{}, len(usrq))
			for _, id := range usrq {
				inq[id] = struct{}{}
			}
			for _, ur := range d.usersSorted() {
				if _, ok := inq[ur.Id]; !ok {
					continue
				}
				if !keepDeleted && ur.State == t.StateDeleted {
					// Optionally skip deleted users.
					continue
				}

				// Ignoring ims: we need all users to get LastSeen and UserAgent.

				joinOn := uid.P2PName(ur.Id)
				if sub, ok := join[joinOn]; ok {
					sub.UpdatedAt = common.SelectLatestTime(sub.UpdatedAt, ur.UpdatedAt)
					sub.SetState(ur.State)
					sub.SetPublic(fromJSON(ur.Public))
					sub.SetTrusted(fromJSON(ur.Trusted))
					sub.SetDefaultAccess(ur.Access.Auth, ur.Access.Anon)
					sub.SetLastSeenAndUA(ur.LastSeen, ur.UserAgent)
					join[joinOn] = sub
				}
			}
		}

		// The SQL adapter ranges over the map here (random order). Use the order of rows.
		subs := make([]t.Subscription, 0, len(join))
		for _, tname := range order {
			subs = append(subs, join[tname])
		}

		res = common.SelectEarliestUpdatedSubs(subs, opts, maxResults)
		return nil
	})
	return res, err
}

// UsersForTopic loads users subscribed to the given topic.
// The difference between UsersForTopic vs SubsForTopic is that the former loads user.Public,
// the latter does not.
func (a *Adapter) UsersForTopic(topic string, keepDeleted bool, opts *t.QueryOpt) ([]t.Subscription, error) {
	var res []t.Subscription
	err := a.call("UsersForTopic", []any{topic, keepDeleted, opts}, func(d *Disk) error {
		tcat := t.GetTopicCat(topic)

		limit := a.maxResults()
		var oneUser t.Uid
		var filterUser t.Uid
		if opts != nil {
			// Ignore IfModifiedSince: loading all entries because a topic cannot have too many subscribers.
			// Those unmodified will be stripped of Public & Private.

			if !opts.User.IsZero() {
				// For p2p topics we have to fetch both users otherwise public cannot be swapped.
				if tcat != t.TopicCatP2P {
					filterUser = opts.User
				}
				oneUser = opts.User
			}
			if opts.Limit > 0 && opts.Limit < limit {
				limit = opts.Limit
			}
		}

		// Fetch all subscribed users. The number of users is not large
		rows := d.subsSorted(func(s *SubRow) bool {
			if s.Topic != topic {
				return false
			}
			ur, ok := d.Users[s.User]
			if !ok {
				// JOIN users.
				return false
			}
			if !keepDeleted {
				// Filter out rows with users deleted
				if ur.State == t.StateDeleted {
					return false
				}
				// For p2p topics we must load all subscriptions including deleted.
				// Otherwise it will be impossible to swipe Public values.
				if tcat != t.TopicCatP2P && s.DeletedAt != nil {
					// Filter out deleted subscriptions.
					return false
				}
			}
			return filterUser.IsZero() || s.User == filterUser
		})
		if len(rows) > limit {
			rows = rows[:limit]
		}

		// Fetch subscriptions
		var subs []t.Subscription
		for _, r := range rows {
			ur := d.Users[r.User]
			sub := subFromRow(r)
			sub.User = r.User.String()
			sub.Private = fromJSON(r.Private)
			sub.SetPublic(fromJSON(ur.Public))
			sub.SetTrusted(fromJSON(ur.Trusted))
			sub.SetLastSeenAndUA(ur.LastSeen, ur.UserAgent)
			subs = append(subs, sub)
		}

		if tcat == t.TopicCatP2P && len(subs) > 0 {
			// Swap public & lastSeen values of P2P topics as expected.
			if len(subs) == 1 {
				// The other user is deleted, nothing we can do.
				subs[0].SetPublic(nil)
				subs[0].SetTrusted(nil)
				subs[0].SetLastSeenAndUA(nil, "")
			} else {
				tmp := subs[0].GetPublic()
				subs[0].SetPublic(subs[1].GetPublic())
				subs[1].SetPublic(tmp)

				tmp = subs[0].GetTrusted()
				subs[0].SetTrusted(subs[1].GetTrusted())
				subs[1].SetTrusted(tmp)

				lastSeen := subs[0].GetLastSeen()
				userAgent := subs[0].GetUserAgent()
				subs[0].SetLastSeenAndUA(subs[1].GetLastSeen(), subs[1].GetUserAgent())
				subs[1].SetLastSeenAndUA(lastSeen, userAgent)
			}

			// Remove deleted and unneeded subscriptions
			if !keepDeleted || !oneUser.IsZero() {
				var xsubs []t.Subscription
				for i := range subs {
					if (subs[i].DeletedAt != nil && !keepDeleted) || (!oneUser.IsZero() && subs[i].Uid() != oneUser) {
						continue
					}
					xsubs = append(xsubs, subs[i])
				}
				subs = xsubs
			}
		}

		res = subs
		return nil
	})
	return res, err
}

// OwnTopics loads a slice of topic names where the user is the owner.
func (a *Adapter) OwnTopics(uid t.Uid) ([]string, error) {
	var res []string
	err := a.call("OwnTopics", []any{uid}, func(d *Disk) error {
		var names []string
		for _, tr := range d.topicsSorted() {
			if tr.Owner == uid {
				names = append(names, tr.Name)
			}
		}
		res = names
		return nil
	})
	return res, err
}

// ChannelsForUser loads a slice of topic names where the user is a channel reader and notifications (P) are enabled.
func (a *Adapter) ChannelsForUser(uid t.Uid) ([]string, error) {
	var res []string
	err := a.call("ChannelsForUser", []any{uid}, func(d *Disk) error {
		var names []string
		for _, s := range d.subsSorted(func(s *SubRow) bool {
			return s.User == uid && strings.HasPrefix(s.Topic, "chn") &&
				s.ModeWant.IsPresencer() && s.ModeGiven.IsPresencer() && s.DeletedAt == nil
		}) {
			names = append(names, s.Topic)
		}
		res = names
		return nil
	})
	return res, err
}

// TopicShare creates topic subscriptions.
func (a *Adapter) TopicShare(shares []*t.Subscription) error {
	return a.call("TopicShare", []any{shares}, func(d *Disk) error {
		for _, sub := range shares {
			if err := checkCreateSubscription(d, sub); err != nil {
				return err
			}
		}
		for _, sub := range shares {
			createSubscription(d, sub, true)
		}
		return nil
	})
}

// TopicDelete deletes specified topic.
func (a *Adapter) TopicDelete(topic string, isChan, hard bool) error {
	return a.call("TopicDelete", []any{topic, isChan, hard}, func(d *Disk) error {
		// If the topic is a channel, must try to delete subscriptions under both grpXXX and chnXXX names.
		names := []string{topic}
		if isChan {
			names = append(names, t.GrpToChn(topic))
		}

		if hard {
			// Delete subscriptions. If this is a channel, delete both group subscriptions and channel subscriptions.
			for key, s := range d.Subs {
				if containsString(names, s.Topic) {
					delete(d.Subs, key)
				}
			}

			messageDeleteAll(d, topic)

			delete(d.TopicTags, topic)

			if _, ok := d.Topics[topic]; ok {
				delete(d.Topics, topic)
				// filemsglinks by ON DELETE CASCADE.
				d.dropFileLinks(func(l *FileLinkRow) bool { return l.Topic != "" && l.Topic == topic })
			}
		} else {
			now := t.TimeNow()

			for _, s := range d.Subs {
				if containsString(names, s.Topic) {
					s.UpdatedAt = now
					s.DeletedAt = timePtr(now)
				}
			}

			if tr, ok := d.Topics[topic]; ok {
				tr.UpdatedAt = now
				tr.TouchedAt = now
				tr.State = t.StateDeleted
				tr.StateAt = timePtr(now)
			}
		}
		return nil
	})
}

// TopicUpdateOnMessage updates topic's SeqId and TouchedAt.
func (a *Adapter) TopicUpdateOnMessage(topic string, msg *t.Message) error {
	return a.call("TopicUpdateOnMessage", []any{topic, msg}, func(d *Disk) error {
		if tr, ok := d.Topics[topic]; ok {
			tr.SeqId = msg.SeqId
			tr.TouchedAt = normTime(msg.CreatedAt)
		}
		return nil
	})
}

// TopicUpdate updates topic record.
func (a *Adapter) TopicUpdate(topic string, update map[string]any) error {
	return a.call("TopicUpdate", []any{topic, update}, func(d *Disk) error {
		if tch, upd := update["TouchedAt"], update["UpdatedAt"]; tch == nil && upd != nil {
			update["TouchedAt"] = upd
		}
		setters, err := a.topicSetters(update)
		if err != nil {
			return err
		}

		// Tags are also stored in a separate table
		tags := extractTags(update)
		if tags != nil {
			if _, ok := d.Topics[topic]; !ok && len(tags) > 0 {
				return errForeignKey("topictags.topic", "topics.name")
			}
			if hasDupStrings(tags) {
				return t.ErrDuplicate
			}
		}

		if tr, ok := d.Topics[topic]; ok {
			for _, set := range setters {
				set(tr)
			}
		}

		if tags != nil {
			// First delete all topic tags, then insert new tags.
			setTags(d.TopicTags, topic, tags)
		}
		return nil
	})
}

// TopicOwnerChange updates topic's owner.
func (a *Adapter) TopicOwnerChange(topic string, newOwner t.Uid) error {
	return a.call("TopicOwnerChange", []any{topic, newOwner}, func(d *Disk) error {
		if tr, ok := d.Topics[topic]; ok {
			tr.Owner = newOwner
		}
		return nil
	})
}
