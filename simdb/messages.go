package simdb

import (
	"encoding/json"
	"errors"
	"sort"

	t "github.com/tinode/chat/server/store/types"
)

// MessageSave saves message to database.
func (a *Adapter) MessageSave(msg *t.Message) error {
	return a.call("MessageSave", []any{msg}, func(d *Disk) error {
		// MessageHeaders.Value(): nil map is stored as JSON 'null', not as SQL NULL.
		head, err := json.Marshal(msg.Head)
		if err != nil {
			return err
		}
		content := toJSON(msg.Content)

		msgs := d.Messages[msg.Topic]
		at := sort.Search(len(msgs), func(i int) bool { return msgs[i].SeqId >= msg.SeqId })
		if at < len(msgs) && msgs[at].SeqId == msg.SeqId {
			// Not converted to ErrDuplicate by the SQL adapter.
			return errDupEntry("messages", "messages_topic_seqid")
		}
		if _, ok := d.Topics[msg.Topic]; !ok {
			return errForeignKey("messages.topic", "topics.name")
		}

		// store assignes message ID, but we don't use it. Message IDs are not used anywhere.
		// Using a sequential ID provided by the database.
		d.AutoInc.Messages++
		row := &MessageRow{
			Id:        d.AutoInc.Messages,
			CreatedAt: normTime(msg.CreatedAt),
			UpdatedAt: normTime(msg.UpdatedAt),
			SeqId:     msg.SeqId,
			Topic:     msg.Topic,
			From:      t.ParseUid(msg.From),
			Head:      head,
			Content:   content,
		}
		msgs = append(msgs, nil)
		copy(msgs[at+1:], msgs[at:])
		msgs[at] = row
		d.Messages[msg.Topic] = msgs

		// Replacing ID given by store by ID given by the DB.
		msg.SetUid(t.Uid(row.Id))
		return nil
	})
}

// MessageGetAll returns messages matching the query.
func (a *Adapter) MessageGetAll(topic string, forUser t.Uid, opts *t.QueryOpt) ([]t.Message, error) {
	var res []t.Message
	err := a.call("MessageGetAll", []any{topic, forUser, opts}, func(d *Disk) error {
		var limit = a.maxMessageResults()
		var lower = 0
		var upper = 1<<31 - 1

		if opts != nil {
			if opts.Since > 0 {
				lower = opts.Since
			}
			if opts.Before > 0 {
				// BETWEEN is inclusive-inclusive, Tinode API requires inclusive-exclusive, thus -1
				upper = opts.Before - 1
			}

			if opts.Limit > 0 && opts.Limit < limit {
				limit = opts.Limit
			}
		}

		// Ranges of messages deleted for the user (or for everyone when forUser is zero).
		var ranges []*DellogRow
		for _, l := range d.Dellog {
			if l.Topic == topic && l.DeletedFor == forUser {
				ranges = append(ranges, l)
			}
		}

		msgs := make([]t.Message, 0, limit)
		rows := d.Messages[topic]
		// ORDER BY m.seqid DESC LIMIT ?
	Rows:
		for i := len(rows) - 1; i >= 0 && len(msgs) < limit; i-- {
			r := rows[i]
			if r.DelId != 0 || r.SeqId < lower || r.SeqId > upper {
				continue
			}
			for _, l := range ranges {
				if r.SeqId >= l.Low && r.SeqId <= l.Hi-1 {
					continue Rows
				}
			}

			var msg t.Message
			msg.CreatedAt = r.CreatedAt
			msg.UpdatedAt = r.UpdatedAt
			msg.DeletedAt = cpTimePtr(r.DeletedAt)
			msg.DelId = r.DelId
			msg.SeqId = r.SeqId
			msg.Topic = r.Topic
			msg.From = r.From.String()
			if r.Head != nil {
				// The SQL adapter panics on NULL head (unchecked type assertion in MessageHeaders.Scan);
				// that's reachable only for hard-deleted messages with DelId=0. NULL is read as nil here.
				if err := json.Unmarshal(r.Head, &msg.Head); err != nil {
					return err
				}
			}
			msg.Content = fromJSON(r.Content)
			msgs = append(msgs, msg)
		}
		res = msgs
		return nil
	})
	return res, err
}

// MessageGetDeleted returns ranges of deleted messages.
func (a *Adapter) MessageGetDeleted(topic string, forUser t.Uid, opts *t.QueryOpt) ([]t.DelMessage, error) {
	var res []t.DelMessage
	err := a.call("MessageGetDeleted", []any{topic, forUser, opts}, func(d *Disk) error {
		var limit = a.maxResults()
		var lower = 0
		var upper = 1<<31 - 1

		if opts != nil {
			if opts.Since > 0 {
				lower = opts.Since
			}
			if opts.Before > 1 {
				// DelRange is inclusive-exclusive, while BETWEEN is inclusive-inclisive.
				upper = opts.Before - 1
			}

			if opts.Limit > 0 && opts.Limit < limit {
				limit = opts.Limit
			}
		}

		// Fetch log of deletions
		var rows []*DellogRow
		for _, l := range d.Dellog {
			if l.Topic == topic && l.DelId >= lower && l.DelId <= upper &&
				(l.DeletedFor.IsZero() || l.DeletedFor == forUser) {
				rows = append(rows, l)
			}
		}
		// ORDER BY delid through the index (topic,delid,deletedfor) + primary key.
		sort.SliceStable(rows, func(i, j int) bool {
			if rows[i].DelId != rows[j].DelId {
				return rows[i].DelId < rows[j].DelId
			}
			if rows[i].DeletedFor != rows[j].DeletedFor {
				// Zero (hard-deleted) first.
				return rows[i].DeletedFor.IsZero()
			}
			return rows[i].Id < rows[j].Id
		})
		if len(rows) > limit {
			rows = rows[:limit]
		}

		var dmsgs []t.DelMessage
		var dmsg t.DelMessage
		for _, dellog := range rows {
			hi := dellog.Hi
			if dellog.DelId != dmsg.DelId {
				if dmsg.DelId > 0 {
					dmsgs = append(dmsgs, dmsg)
				}
				dmsg.DelId = dellog.DelId
				dmsg.Topic = dellog.Topic
				if !dellog.DeletedFor.IsZero() {
					dmsg.DeletedFor = dellog.DeletedFor.String()
				} else {
					dmsg.DeletedFor = ""
				}
				dmsg.SeqIdRanges = nil
			}
			if hi <= dellog.Low+1 {
				hi = 0
			}
			dmsg.SeqIdRanges = append(dmsg.SeqIdRanges, t.Range{Low: dellog.Low, Hi: hi})
		}

		if dmsg.DelId > 0 {
			dmsgs = append(dmsgs, dmsg)
		}

		res = dmsgs
		return nil
	})
	return res, err
}

// messageDeleteAll deletes all messages of the topic and its log of deletions.
func messageDeleteAll(d *Disk, topic string) {
	// Whole topic is being deleted, thus also deleting all messages.
	d.dropDellog(func(l *DellogRow) bool { return l.Topic == topic })
	// filemsglinks will be deleted because of ON DELETE CASCADE
	d.dropMessages(topic)
}

// MessageDeleteList deletes messages in the given topic with seqIds from the list
func (a *Adapter) MessageDeleteList(topic string, toDel *t.DelMessage) error {
	return a.call("MessageDeleteList", []any{topic, toDel}, func(d *Disk) error {
		if toDel == nil {
			messageDeleteAll(d, topic)
			return nil
		}

		// Only some messages are being deleted
		forUser := t.ParseUid(toDel.DeletedFor)

		// Phase one: validate and compute, no changes to the Disk.

		// Start with making log entries
		var entries []*DellogRow
		// Counter of deleted messages
		seqCount := 0
		for _, rng := range toDel.SeqIdRanges {
			if rng.Hi == 0 {
				// Dellog must contain valid Low and *Hi*.
				rng.Hi = rng.Low + 1
			}
			seqCount += rng.Hi - rng.Low
			if _, ok := d.Topics[topic]; !ok {
				return errForeignKey("dellog.topic", "topics.name")
			}
			entries = append(entries, &DellogRow{Topic: topic, DeletedFor: forUser, DelId: toDel.DelId, Low: rng.Low, Hi: rng.Hi})
		}

		var victims []*MessageRow
		if toDel.DeletedFor == "" {
			// Hard-deleting messages requires updates to the messages table
			var match func(seq int) bool
			// Same as the SQL adapter: panics when the list of ranges is empty.
			if len(toDel.SeqIdRanges) > 1 || toDel.SeqIdRanges[0].Hi == 0 {
				// m.seqid IN (?,?...): the number of placeholders is seqCount, the number of arguments is count.
				count := 0
				for _, r := range toDel.SeqIdRanges {
					if r.Hi == 0 {
						count++
					} else if r.Hi > r.Low {
						count += r.Hi - r.Low
					}
				}
				if seqCount-1 < 0 {
					// Same as the SQL adapter.
					panic("strings: negative Repeat count")
				}
				if seqCount != count {
					return errors.New("simdb: sql: wrong number of arguments for the statement")
				}
				ranges := toDel.SeqIdRanges
				match = func(seq int) bool {
					for _, r := range ranges {
						if r.Hi == 0 {
							if seq == r.Low {
								return true
							}
						} else if seq >= r.Low && seq < r.Hi {
							return true
						}
					}
					return false
				}
			} else {
				// Optimizing for a special case of single range low..hi.
				low, hi := toDel.SeqIdRanges[0].Low, toDel.SeqIdRanges[0].Hi-1
				match = func(seq int) bool { return seq >= low && seq <= hi }
			}
			for _, m := range d.Messages[topic] {
				if match(m.SeqId) && m.DeletedAt == nil {
					victims = append(victims, m)
				}
			}
		}

		// Phase two: apply.
		for _, l := range entries {
			d.AutoInc.Dellog++
			l.Id = d.AutoInc.Dellog
			d.Dellog = append(d.Dellog, l)
		}

		if toDel.DeletedFor == "" {
			if len(victims) > 0 {
				ids := make(map[int64]struct{}, len(victims))
				for _, m := range victims {
					ids[m.Id] = struct{}{}
				}
				d.dropFileLinks(func(l *FileLinkRow) bool {
					_, ok := ids[l.MsgId]
					return l.MsgId != 0 && ok
				})
			}
			now := t.TimeNow()
			for _, m := range victims {
				m.DeletedAt = timePtr(now)
				m.DelId = toDel.DelId
				m.Head = nil
				m.Content = nil
			}
		}
		return nil
	})
}
