package simdb

import (
	"database/sql/driver"
	"errors"
	"fmt"
	"reflect"
	"sort"
	"strings"
	"time"

	t "github.com/tinode/chat/server/store/types"
)

// This file is the counterpart of updateByMap() of the SQL adapter: the keys of the update map are
// lowercased and used as column names, the values become column values. Updates are compiled into
// setters first (which validates column names and value types) and applied later, so that a bad
// update leaves no partial effect.

// errSyntax is what an UPDATE with an empty SET list produces.
var errSyntax = errors.New("simdb: You have an error in your SQL syntax (empty SET list)")

func errUnknownColumn(table, col string) error {
	return fmt.Errorf("simdb: Unknown column '%s' in 'field list' of table '%s'", col, table)
}

func errBadValue(col string, val any) error {
	return fmt.Errorf("simdb: unsupported value of type %T for column '%s'", val, col)
}

func errNotNull(col string) error {
	return fmt.Errorf("simdb: Column '%s' cannot be null", col)
}

// sortedUpdateKeys returns keys of the update in a deterministic order.
func sortedUpdateKeys(update map[string]any) []string {
	keys := make([]string, 0, len(update))
	for k := range update {
		keys = append(keys, k)
	}
	sort.Strings(keys)
	return keys
}

// deref unwraps pointers and driver.Valuers the way database/sql does; returns nil for NULL.
func deref(val any) any {
	if val == nil {
		return nil
	}
	rv := reflect.ValueOf(val)
	for rv.Kind() == reflect.Ptr {
		if rv.IsNil() {
			return nil
		}
		rv = rv.Elem()
	}
	return rv.Interface()
}

// asTimePtr converts value to a timestamp: nil for NULL.
func asTimePtr(col string, val any) (*time.Time, error) {
	val = deref(val)
	if val == nil {
		return nil, nil
	}
	if tm, ok := val.(time.Time); ok {
		tm = normTime(tm)
		return &tm, nil
	}
	return nil, errBadValue(col, val)
}

// asTime converts value to a non-NULL timestamp.
func asTime(col string, val any) (time.Time, error) {
	tm, err := asTimePtr(col, val)
	if err != nil {
		return time.Time{}, err
	}
	if tm == nil {
		return time.Time{}, errNotNull(col)
	}
	return *tm, nil
}

// asInt converts a value of any integer kind (or a Valuer producing int64, like ObjState) to int.
func asInt(col string, val any) (int, error) {
	orig := val
	val = deref(val)
	if val == nil {
		return 0, errNotNull(col)
	}
	if vv, ok := val.(driver.Valuer); ok {
		dv, err := vv.Value()
		if err != nil {
			return 0, err
		}
		val = dv
		if val == nil {
			return 0, errNotNull(col)
		}
	}
	rv := reflect.ValueOf(val)
	switch rv.Kind() {
	case reflect.Int, reflect.Int8, reflect.Int16, reflect.Int32, reflect.Int64:
		return int(rv.Int()), nil
	case reflect.Uint, reflect.Uint8, reflect.Uint16, reflect.Uint32, reflect.Uint64:
		return int(rv.Uint()), nil
	case reflect.Bool:
		if rv.Bool() {
			return 1, nil
		}
		return 0, nil
	}
	return 0, errBadValue(col, orig)
}

// asString converts a value to string; NULL becomes an empty string and ok=false.
func asString(col string, val any) (string, bool, error) {
	val = deref(val)
	if val == nil {
		return "", false, nil
	}
	switch s := val.(type) {
	case string:
		return s, true, nil
	case []byte:
		if s == nil {
			return "", false, nil
		}
		return string(s), true, nil
	}
	return "", false, errBadValue(col, val)
}

// asMode converts a value to access mode as it would be read back from a CHAR(8) column.
func asMode(col string, val any) (t.AccessMode, error) {
	val = deref(val)
	switch m := val.(type) {
	case t.AccessMode:
		if m.IsInvalid() {
			// AccessMode.Value() fails.
			return 0, errors.New("AccessMode invalid")
		}
		return normMode(m), nil
	case string:
		var mode t.AccessMode
		if err := mode.UnmarshalText([]byte(m)); err != nil {
			return 0, errBadValue(col, val)
		}
		return normMode(mode), nil
	}
	return 0, errBadValue(col, val)
}

// asAccess converts a value to default access (JSON column).
func asAccess(col string, val any) (t.DefaultAccess, error) {
	val = deref(val)
	if da, ok := val.(t.DefaultAccess); ok {
		if da.Auth.IsInvalid() || da.Anon.IsInvalid() {
			return t.DefaultAccess{}, errors.New("AccessMode invalid")
		}
		return normAccess(da), nil
	}
	return t.DefaultAccess{}, errBadValue(col, val)
}

// asTags converts a value to the content of the 'tags' JSON column.
func asTags(col string, val any) ([]string, error) {
	val = deref(val)
	if val == nil {
		return nil, nil
	}
	if ss, ok := val.(t.StringSlice); ok {
		return cpStrings(ss), nil
	}
	// []string is not a valid driver value.
	return nil, errBadValue(col, val)
}

// asUid converts a value to a Uid.
func asUid(col string, val any) (t.Uid, error) {
	val = deref(val)
	switch u := val.(type) {
	case t.Uid:
		return u, nil
	case string:
		if u == "" {
			return t.ZeroUid, nil
		}
		uid := t.ParseUid(u)
		if uid.IsZero() {
			return t.ZeroUid, errBadValue(col, val)
		}
		return uid, nil
	}
	return t.ZeroUid, errBadValue(col, val)
}

// extractTags: if Tags field is updated, get the tags so the tags index can be updated too.
// Same quirks as the SQL adapter: only a non-nil t.StringSlice counts.
func extractTags(update map[string]any) []string {
	var tags []string

	if val := update["Tags"]; val != nil {
		tags, _ = val.(t.StringSlice)
	}

	return []string(tags)
}

// userSetters compiles an update of the 'users' table.
func (a *Adapter) userSetters(update map[string]any) ([]func(*UserRow), error) {
	if len(update) == 0 {
		return nil, errSyntax
	}
	var setters []func(*UserRow)
	for _, key := range sortedUpdateKeys(update) {
		val := update[key]
		col := strings.ToLower(key)
		switch col {
		case "createdat":
			tm, err := asTime(col, val)
			if err != nil {
				return nil, err
			}
			setters = append(setters, func(r *UserRow) { r.CreatedAt = tm })
		case "updatedat":
			tm, err := asTime(col, val)
			if err != nil {
				return nil, err
			}
			setters = append(setters, func(r *UserRow) { r.UpdatedAt = tm })
		case "state":
			state, err := asInt(col, val)
			if err != nil {
				return nil, err
			}
			setters = append(setters, func(r *UserRow) { r.State = t.ObjState(state) })
		case "stateat":
			tm, err := asTimePtr(col, val)
			if err != nil {
				return nil, err
			}
			setters = append(setters, func(r *UserRow) { r.StateAt = cpTimePtr(tm) })
		case "access":
			acs, err := asAccess(col, val)
			if err != nil {
				return nil, err
			}
			setters = append(setters, func(r *UserRow) { r.Access = acs })
		case "lastseen":
			tm, err := asTimePtr(col, val)
			if err != nil {
				return nil, err
			}
			if tm != nil {
				tm = timePtr(a.coarse(*tm))
			}
			setters = append(setters, func(r *UserRow) { r.LastSeen = cpTimePtr(tm) })
		case "useragent":
			ua, _, err := asString(col, val)
			if err != nil {
				return nil, err
			}
			setters = append(setters, func(r *UserRow) { r.UserAgent = ua })
		case "public":
			jval := toJSON(val)
			setters = append(setters, func(r *UserRow) { r.Public = cpBytes(jval) })
		case "trusted":
			jval := toJSON(val)
			setters = append(setters, func(r *UserRow) { r.Trusted = cpBytes(jval) })
		case "tags":
			tags, err := asTags(col, val)
			if err != nil {
				return nil, err
			}
			setters = append(setters, func(r *UserRow) { r.Tags = cpStrings(tags) })
		default:
			return nil, errUnknownColumn("users", col)
		}
	}
	return setters, nil
}

// topicSetters compiles an update of the 'topics' table.
func (a *Adapter) topicSetters(update map[string]any) ([]func(*TopicRow), error) {
	if len(update) == 0 {
		return nil, errSyntax
	}
	var setters []func(*TopicRow)
	for _, key := range sortedUpdateKeys(update) {
		val := update[key]
		col := strings.ToLower(key)
		switch col {
		case "createdat":
			tm, err := asTime(col, val)
			if err != nil {
				return nil, err
			}
			setters = append(setters, func(r *TopicRow) { r.CreatedAt = tm })
		case "updatedat":
			tm, err := asTime(col, val)
			if err != nil {
				return nil, err
			}
			setters = append(setters, func(r *TopicRow) { r.UpdatedAt = tm })
		case "touchedat":
			tm, err := asTime(col, val)
			if err != nil {
				return nil, err
			}
			setters = append(setters, func(r *TopicRow) { r.TouchedAt = tm })
		case "state":
			state, err := asInt(col, val)
			if err != nil {
				return nil, err
			}
			setters = append(setters, func(r *TopicRow) { r.State = t.ObjState(state) })
		case "stateat":
			tm, err := asTimePtr(col, val)
			if err != nil {
				return nil, err
			}
			setters = append(setters, func(r *TopicRow) { r.StateAt = cpTimePtr(tm) })
		case "usebt":
			v, err := asInt(col, val)
			if err != nil {
				return nil, err
			}
			setters = append(setters, func(r *TopicRow) { r.UseBt = v != 0 })
		case "owner":
			uid, err := asUid(col, val)
			if err != nil {
				return nil, err
			}
			setters = append(setters, func(r *TopicRow) { r.Owner = uid })
		case "access":
			acs, err := asAccess(col, val)
			if err != nil {
				return nil, err
			}
			setters = append(setters, func(r *TopicRow) { r.Access = acs })
		case "seqid":
			v, err := asInt(col, val)
			if err != nil {
				return nil, err
			}
			setters = append(setters, func(r *TopicRow) { r.SeqId = v })
		case "delid":
			v, err := asInt(col, val)
			if err != nil {
				return nil, err
			}
			setters = append(setters, func(r *TopicRow) { r.DelId = v })
		case "public":
			jval := toJSON(val)
			setters = append(setters, func(r *TopicRow) { r.Public = cpBytes(jval) })
		case "trusted":
			jval := toJSON(val)
			setters = append(setters, func(r *TopicRow) { r.Trusted = cpBytes(jval) })
		case "tags":
			tags, err := asTags(col, val)
			if err != nil {
				return nil, err
			}
			setters = append(setters, func(r *TopicRow) { r.Tags = cpStrings(tags) })
		default:
			return nil, errUnknownColumn("topics", col)
		}
	}
	return setters, nil
}

// subSetters compiles an update of the 'subscriptions' table.
func (a *Adapter) subSetters(update map[string]any) ([]func(*SubRow), error) {
	if len(update) == 0 {
		return nil, errSyntax
	}
	var setters []func(*SubRow)
	for _, key := range sortedUpdateKeys(update) {
		val := update[key]
		col := strings.ToLower(key)
		switch col {
		case "createdat":
			tm, err := asTime(col, val)
			if err != nil {
				return nil, err
			}
			setters = append(setters, func(r *SubRow) { r.CreatedAt = tm })
		case "updatedat":
			tm, err := asTime(col, val)
			if err != nil {
				return nil, err
			}
			setters = append(setters, func(r *SubRow) { r.UpdatedAt = tm })
		case "deletedat":
			tm, err := asTimePtr(col, val)
			if err != nil {
				return nil, err
			}
			setters = append(setters, func(r *SubRow) { r.DeletedAt = cpTimePtr(tm) })
		case "delid":
			v, err := asInt(col, val)
			if err != nil {
				return nil, err
			}
			setters = append(setters, func(r *SubRow) { r.DelId = v })
		case "recvseqid":
			v, err := asInt(col, val)
			if err != nil {
				return nil, err
			}
			setters = append(setters, func(r *SubRow) { r.RecvSeqId = v })
		case "readseqid":
			v, err := asInt(col, val)
			if err != nil {
				return nil, err
			}
			setters = append(setters, func(r *SubRow) { r.ReadSeqId = v })
		case "modewant":
			m, err := asMode(col, val)
			if err != nil {
				return nil, err
			}
			setters = append(setters, func(r *SubRow) { r.ModeWant = m })
		case "modegiven":
			m, err := asMode(col, val)
			if err != nil {
				return nil, err
			}
			setters = append(setters, func(r *SubRow) { r.ModeGiven = m })
		case "private":
			jval := toJSON(val)
			setters = append(setters, func(r *SubRow) { r.Private = cpBytes(jval) })
		default:
			return nil, errUnknownColumn("subscriptions", col)
		}
	}
	return setters, nil
}
