package simdb

import (
	"encoding/json"
	"fmt"
	"sort"
	"strings"
	"time"

	"github.com/tinode/chat/server/auth"
	t "github.com/tinode/chat/server/store/types"
)

// Row types. One struct per SQL table, holding what the table's columns hold.
// JSON columns filled from `any` values (public, trusted, private, content) and message head are
// kept as JSON bytes; nil means SQL NULL.

// UserRow is a row of the 'users' table.
type UserRow struct {
	// Seq is the insertion order of the row. MySQL keys users by the decoded snowflake id which
	// grows with creation time; Seq stands for that order.
	Seq       int64
	Id        t.Uid
	CreatedAt time.Time
	UpdatedAt time.Time
	State     t.ObjState
	StateAt   *time.Time
	Access    t.DefaultAccess
	LastSeen  *time.Time
	UserAgent string
	Public    []byte
	Trusted   []byte
	// Tags is the 'tags' JSON column (the denormalized copy; the index is Disk.UserTags).
	Tags []string
}

// AuthRow is a row of the 'auth' table.
type AuthRow struct {
	Id      int64
	Uname   string
	User    t.Uid
	Scheme  string
	AuthLvl auth.Level
	Secret  []byte
	Expires *time.Time
}

// TopicRow is a row of the 'topics' table.
type TopicRow struct {
	Id        int64
	CreatedAt time.Time
	UpdatedAt time.Time
	State     t.ObjState
	StateAt   *time.Time
	TouchedAt time.Time
	Name      string
	UseBt     bool
	Owner     t.Uid
	Access    t.DefaultAccess
	SeqId     int
	DelId     int
	Public    []byte
	Trusted   []byte
	// Tags is the 'tags' JSON column (the denormalized copy; the index is Disk.TopicTags).
	Tags []string
}

// SubRow is a row of the 'subscriptions' table.
type SubRow struct {
	Id        int64
	CreatedAt time.Time
	UpdatedAt time.Time
	DeletedAt *time.Time
	User      t.Uid
	Topic     string
	DelId     int
	RecvSeqId int
	ReadSeqId int
	ModeWant  t.AccessMode
	ModeGiven t.AccessMode
	Private   []byte
}

// MessageRow is a row of the 'messages' table.
type MessageRow struct {
	Id        int64
	CreatedAt time.Time
	UpdatedAt time.Time
	DeletedAt *time.Time
	DelId     int
	SeqId     int
	Topic     string
	From      t.Uid
	Head      []byte
	Content   []byte
}

// DellogRow is a row of the 'dellog' table. DeletedFor is zero for hard-deleted ranges.
type DellogRow struct {
	Id         int64
	Topic      string
	DeletedFor t.Uid
	DelId      int
	Low        int
	Hi         int
}

// DeviceRow is a row of the 'devices' table.
type DeviceRow struct {
	Id       int64
	User     t.Uid
	Hash     string
	DeviceId string
	Platform string
	LastSeen time.Time
	Lang     string
}

// CredRow is a row of the 'credentials' table.
type CredRow struct {
	Id        int64
	CreatedAt time.Time
	UpdatedAt time.Time
	DeletedAt *time.Time
	Method    string
	Value     string
	Synthetic string
	User      t.Uid
	Resp      string
	Done      bool
	Retries   int
}

// FileRow is a row of the 'fileuploads' table.
type FileRow struct {
	// Seq is the insertion order (stands for the order of decoded snowflake ids).
	Seq       int64
	Id        t.Uid
	CreatedAt time.Time
	UpdatedAt time.Time
	User      t.Uid
	Status    int
	MimeType  string
	Size      int64
	Location  string
}

// FileLinkRow is a row of the 'filemsglinks' table. Exactly one of MsgId (messages.id),
// Topic, User is set; the unset ones are zero values (SQL NULL).
type FileLinkRow struct {
	Id        int64
	CreatedAt time.Time
	FileId    t.Uid
	MsgId     int64
	Topic     string
	User      t.Uid
}

// KVRow is a row of the 'kvmeta' table.
type KVRow struct {
	Key       string
	CreatedAt *time.Time
	Value     string
}

// AutoInc holds per-table autoincrement counters: the last value handed out.
type AutoInc struct {
	Users       int64
	Auth        int64
	Topics      int64
	Subs        int64
	Messages    int64
	Dellog      int64
	Devices     int64
	Credentials int64
	FileUploads int64
	FileLinks   int64
}

// Disk is the entire persistent state of the database.
type Disk struct {
	// Users by user id.
	Users map[t.Uid]*UserRow
	// UserTags is the 'usertags' index: user id -> sorted list of unique tags. No entry when user has no tags.
	UserTags map[t.Uid][]string
	// Auth records by unique name (uname).
	Auth map[string]*AuthRow
	// Topics by name.
	Topics map[string]*TopicRow
	// TopicTags is the 'topictags' index: topic name -> sorted list of unique tags. No entry when topic has no tags.
	TopicTags map[string][]string
	// Subs by SubKey(topic, user).
	Subs map[string]*SubRow
	// Messages by topic name, sorted by SeqId ascending. No entry when topic has no messages.
	Messages map[string][]*MessageRow
	// Dellog in insertion (Id) order.
	Dellog []*DellogRow
	// Devices by hash of the device id.
	Devices map[string]*DeviceRow
	// Credentials by the synthetic unique key.
	Credentials map[string]*CredRow
	// FileUploads by file id.
	FileUploads map[t.Uid]*FileRow
	// FileLinks in insertion (Id) order.
	FileLinks []*FileLinkRow
	// KV is the 'kvmeta' table by key.
	KV map[string]*KVRow

	// AutoInc are autoincrement counters.
	AutoInc AutoInc
}

// SubKey makes a key for the Disk.Subs map.
func SubKey(topic string, user t.Uid) string {
	return topic + "\x00" + user.String()
}

// NewDisk creates a freshly initialized database: empty tables, the 'sys' topic and the version record.
func NewDisk() *Disk {
	d := &Disk{
		Users:       make(map[t.Uid]*UserRow),
		UserTags:    make(map[t.Uid][]string),
		Auth:        make(map[string]*AuthRow),
		Topics:      make(map[string]*TopicRow),
		TopicTags:   make(map[string][]string),
		Subs:        make(map[string]*SubRow),
		Messages:    make(map[string][]*MessageRow),
		Devices:     make(map[string]*DeviceRow),
		Credentials: make(map[string]*CredRow),
		FileUploads: make(map[t.Uid]*FileRow),
		KV:          make(map[string]*KVRow),
	}

	// createSystemTopic
	now := normTime(DiskEpoch)
	d.AutoInc.Topics++
	d.Topics["sys"] = &TopicRow{
		Id:        d.AutoInc.Topics,
		CreatedAt: now,
		UpdatedAt: now,
		State:     t.StateOK,
		TouchedAt: now,
		Name:      "sys",
		Access:    t.DefaultAccess{Auth: t.ModeNone, Anon: t.ModeNone},
		Public:    []byte(`{"fn": "System"}`),
	}
	d.KV["version"] = &KVRow{Key: "version", Value: fmt.Sprint(adpVersion)}

	return d
}

// Clone makes a deep copy of the Disk.
func (d *Disk) Clone() *Disk {
	c := &Disk{
		Users:       make(map[t.Uid]*UserRow, len(d.Users)),
		UserTags:    make(map[t.Uid][]string, len(d.UserTags)),
		Auth:        make(map[string]*AuthRow, len(d.Auth)),
		Topics:      make(map[string]*TopicRow, len(d.Topics)),
		TopicTags:   make(map[string][]string, len(d.TopicTags)),
		Subs:        make(map[string]*SubRow, len(d.Subs)),
		Messages:    make(map[string][]*MessageRow, len(d.Messages)),
		Devices:     make(map[string]*DeviceRow, len(d.Devices)),
		Credentials: make(map[string]*CredRow, len(d.Credentials)),
		FileUploads: make(map[t.Uid]*FileRow, len(d.FileUploads)),
		KV:          make(map[string]*KVRow, len(d.KV)),
		AutoInc:     d.AutoInc,
	}
	for k, v := range d.Users {
		r := *v
		r.StateAt = cpTimePtr(v.StateAt)
		r.LastSeen = cpTimePtr(v.LastSeen)
		r.Public = cpBytes(v.Public)
		r.Trusted = cpBytes(v.Trusted)
		r.Tags = cpStrings(v.Tags)
		c.Users[k] = &r
	}
	for k, v := range d.UserTags {
		c.UserTags[k] = cpStrings(v)
	}
	for k, v := range d.Auth {
		r := *v
		r.Secret = cpBytes(v.Secret)
		r.Expires = cpTimePtr(v.Expires)
		c.Auth[k] = &r
	}
	for k, v := range d.Topics {
		r := *v
		r.StateAt = cpTimePtr(v.StateAt)
		r.Public = cpBytes(v.Public)
		r.Trusted = cpBytes(v.Trusted)
		r.Tags = cpStrings(v.Tags)
		c.Topics[k] = &r
	}
	for k, v := range d.TopicTags {
		c.TopicTags[k] = cpStrings(v)
	}
	for k, v := range d.Subs {
		r := *v
		r.DeletedAt = cpTimePtr(v.DeletedAt)
		r.Private = cpBytes(v.Private)
		c.Subs[k] = &r
	}
	for k, v := range d.Messages {
		msgs := make([]*MessageRow, len(v))
		for i, m := range v {
			r := *m
			r.DeletedAt = cpTimePtr(m.DeletedAt)
			r.Head = cpBytes(m.Head)
			r.Content = cpBytes(m.Content)
			msgs[i] = &r
		}
		c.Messages[k] = msgs
	}
	if d.Dellog != nil {
		c.Dellog = make([]*DellogRow, len(d.Dellog))
		for i, v := range d.Dellog {
			r := *v
			c.Dellog[i] = &r
		}
	}
	for k, v := range d.Devices {
		r := *v
		c.Devices[k] = &r
	}
	for k, v := range d.Credentials {
		r := *v
		r.DeletedAt = cpTimePtr(v.DeletedAt)
		c.Credentials[k] = &r
	}
	for k, v := range d.FileUploads {
		r := *v
		c.FileUploads[k] = &r
	}
	if d.FileLinks != nil {
		c.FileLinks = make([]*FileLinkRow, len(d.FileLinks))
		for i, v := range d.FileLinks {
			r := *v
			c.FileLinks[i] = &r
		}
	}
	for k, v := range d.KV {
		r := *v
		r.CreatedAt = cpTimePtr(v.CreatedAt)
		c.KV[k] = &r
	}
	return c
}

// Dump produces a deterministic, canonical, human-readable dump of the entire state.
// Two Disks are equal iff their dumps are equal. Timestamps are printed as Unix milliseconds.
func (d *Disk) Dump() string {
	var b strings.Builder

	fmt.Fprintf(&b, "autoinc users=%d auth=%d topics=%d subs=%d messages=%d dellog=%d devices=%d credentials=%d fileuploads=%d filelinks=%d\n",
		d.AutoInc.Users, d.AutoInc.Auth, d.AutoInc.Topics, d.AutoInc.Subs, d.AutoInc.Messages, d.AutoInc.Dellog,
		d.AutoInc.Devices, d.AutoInc.Credentials, d.AutoInc.FileUploads, d.AutoInc.FileLinks)

	b.WriteString("== users\n")
	for _, r := range d.usersSorted() {
		fmt.Fprintf(&b, "user %s seq=%d created=%d updated=%d state=%d stateat=%s access=%s/%s lastseen=%s ua=%q public=%s trusted=%s tags=%s\n",
			uidStr(r.Id), r.Seq, ms(r.CreatedAt), ms(r.UpdatedAt), int(r.State), msPtr(r.StateAt),
			r.Access.Auth.String(), r.Access.Anon.String(), msPtr(r.LastSeen), r.UserAgent,
			jsonStr(r.Public), jsonStr(r.Trusted), tagsStr(r.Tags))
	}

	b.WriteString("== usertags\n")
	{
		uids := make([]t.Uid, 0, len(d.UserTags))
		for uid := range d.UserTags {
			uids = append(uids, uid)
		}
		sort.Slice(uids, func(i, j int) bool { return uids[i] < uids[j] })
		for _, uid := range uids {
			fmt.Fprintf(&b, "usertags %s %s\n", uidStr(uid), tagsStr(d.UserTags[uid]))
		}
	}

	b.WriteString("== auth\n")
	for _, k := range sortedKeys(d.Auth) {
		r := d.Auth[k]
		fmt.Fprintf(&b, "auth %q id=%d user=%s scheme=%q lvl=%d secret=%x expires=%s\n",
			r.Uname, r.Id, uidStr(r.User), r.Scheme, int(r.AuthLvl), r.Secret, msPtr(r.Expires))
	}

	b.WriteString("== topics\n")
	for _, k := range sortedKeys(d.Topics) {
		r := d.Topics[k]
		fmt.Fprintf(&b, "topic %q id=%d created=%d updated=%d state=%d stateat=%s touched=%d usebt=%t owner=%s access=%s/%s seqid=%d delid=%d public=%s trusted=%s tags=%s\n",
			r.Name, r.Id, ms(r.CreatedAt), ms(r.UpdatedAt), int(r.State), msPtr(r.StateAt), ms(r.TouchedAt),
			r.UseBt, uidStr(r.Owner), r.Access.Auth.String(), r.Access.Anon.String(), r.SeqId, r.DelId,
			jsonStr(r.Public), jsonStr(r.Trusted), tagsStr(r.Tags))
	}

	b.WriteString("== topictags\n")
	for _, k := range sortedKeys(d.TopicTags) {
		fmt.Fprintf(&b, "topictags %q %s\n", k, tagsStr(d.TopicTags[k]))
	}

	b.WriteString("== subscriptions\n")
	for _, k := range sortedKeys(d.Subs) {
		r := d.Subs[k]
		fmt.Fprintf(&b, "sub %q %s id=%d created=%d updated=%d deleted=%s delid=%d recv=%d read=%d want=%s given=%s private=%s\n",
			r.Topic, uidStr(r.User), r.Id, ms(r.CreatedAt), ms(r.UpdatedAt), msPtr(r.DeletedAt),
			r.DelId, r.RecvSeqId, r.ReadSeqId, r.ModeWant.String(), r.ModeGiven.String(), jsonStr(r.Private))
	}

	b.WriteString("== messages\n")
	for _, k := range sortedKeys(d.Messages) {
		for _, r := range d.Messages[k] {
			fmt.Fprintf(&b, "msg %q seq=%d id=%d created=%d updated=%d deleted=%s delid=%d from=%s head=%s content=%s\n",
				r.Topic, r.SeqId, r.Id, ms(r.CreatedAt), ms(r.UpdatedAt), msPtr(r.DeletedAt), r.DelId,
				uidStr(r.From), jsonStr(r.Head), jsonStr(r.Content))
		}
	}

	b.WriteString("== dellog\n")
	for _, r := range d.Dellog {
		fmt.Fprintf(&b, "dellog id=%d topic=%q for=%s delid=%d low=%d hi=%d\n",
			r.Id, r.Topic, uidStr(r.DeletedFor), r.DelId, r.Low, r.Hi)
	}

	b.WriteString("== devices\n")
	for _, k := range sortedKeys(d.Devices) {
		r := d.Devices[k]
		fmt.Fprintf(&b, "device %s id=%d user=%s deviceid=%q platform=%q lastseen=%d lang=%q\n",
			r.Hash, r.Id, uidStr(r.User), r.DeviceId, r.Platform, ms(r.LastSeen), r.Lang)
	}

	b.WriteString("== credentials\n")
	for _, k := range sortedKeys(d.Credentials) {
		r := d.Credentials[k]
		fmt.Fprintf(&b, "cred %q id=%d created=%d updated=%d deleted=%s method=%q value=%q user=%s resp=%q done=%t retries=%d\n",
			r.Synthetic, r.Id, ms(r.CreatedAt), ms(r.UpdatedAt), msPtr(r.DeletedAt), r.Method, r.Value,
			uidStr(r.User), r.Resp, r.Done, r.Retries)
	}

	b.WriteString("== fileuploads\n")
	for _, r := range d.filesSorted() {
		fmt.Fprintf(&b, "file %s seq=%d created=%d updated=%d user=%s status=%d mime=%q size=%d location=%q\n",
			uidStr(r.Id), r.Seq, ms(r.CreatedAt), ms(r.UpdatedAt), uidStr(r.User), r.Status, r.MimeType, r.Size, r.Location)
	}

	b.WriteString("== filemsglinks\n")
	for _, r := range d.FileLinks {
		fmt.Fprintf(&b, "filelink id=%d created=%d file=%s msgid=%d topic=%q user=%s\n",
			r.Id, ms(r.CreatedAt), uidStr(r.FileId), r.MsgId, r.Topic, uidStr(r.User))
	}

	b.WriteString("== kvmeta\n")
	for _, k := range sortedKeys(d.KV) {
		r := d.KV[k]
		fmt.Fprintf(&b, "kv %q created=%s value=%q\n", r.Key, msPtr(r.CreatedAt), r.Value)
	}

	return b.String()
}

// Sorted views. NEVER iterate a Disk map directly where the order can leak.

// usersSorted returns user rows in primary key (insertion) order.
func (d *Disk) usersSorted() []*UserRow {
	rows := make([]*UserRow, 0, len(d.Users))
	for _, r := range d.Users {
		rows = append(rows, r)
	}
	sort.Slice(rows, func(i, j int) bool { return rows[i].Seq < rows[j].Seq })
	return rows
}

// topicsSorted returns topic rows in primary key (autoincrement id) order.
func (d *Disk) topicsSorted() []*TopicRow {
	rows := make([]*TopicRow, 0, len(d.Topics))
	for _, r := range d.Topics {
		rows = append(rows, r)
	}
	sort.Slice(rows, func(i, j int) bool { return rows[i].Id < rows[j].Id })
	return rows
}

// subsSorted returns subscription rows matching the filter in primary key (autoincrement id) order.
func (d *Disk) subsSorted(filter func(*SubRow) bool) []*SubRow {
	var rows []*SubRow
	for _, r := range d.Subs {
		if filter == nil || filter(r) {
			rows = append(rows, r)
		}
	}
	sort.Slice(rows, func(i, j int) bool { return rows[i].Id < rows[j].Id })
	return rows
}

// credsSorted returns credential rows matching the filter in primary key (autoincrement id) order.
func (d *Disk) credsSorted(filter func(*CredRow) bool) []*CredRow {
	var rows []*CredRow
	for _, r := range d.Credentials {
		if filter == nil || filter(r) {
			rows = append(rows, r)
		}
	}
	sort.Slice(rows, func(i, j int) bool { return rows[i].Id < rows[j].Id })
	return rows
}

// devicesSorted returns device rows matching the filter in primary key (autoincrement id) order.
func (d *Disk) devicesSorted(filter func(*DeviceRow) bool) []*DeviceRow {
	var rows []*DeviceRow
	for _, r := range d.Devices {
		if filter == nil || filter(r) {
			rows = append(rows, r)
		}
	}
	sort.Slice(rows, func(i, j int) bool { return rows[i].Id < rows[j].Id })
	return rows
}

// filesSorted returns file upload rows in primary key (insertion) order.
func (d *Disk) filesSorted() []*FileRow {
	rows := make([]*FileRow, 0, len(d.FileUploads))
	for _, r := range d.FileUploads {
		rows = append(rows, r)
	}
	sort.Slice(rows, func(i, j int) bool { return rows[i].Seq < rows[j].Seq })
	return rows
}

// messageById finds a message by its row id (messages.id).
func (d *Disk) messageById(id int64) *MessageRow {
	for _, msgs := range d.Messages {
		for _, m := range msgs {
			if m.Id == id {
				return m
			}
		}
	}
	return nil
}

// dropFileLinks removes file links matching the predicate.
func (d *Disk) dropFileLinks(match func(*FileLinkRow) bool) {
	if len(d.FileLinks) == 0 {
		return
	}
	kept := make([]*FileLinkRow, 0, len(d.FileLinks))
	for _, l := range d.FileLinks {
		if !match(l) {
			kept = append(kept, l)
		}
	}
	if len(kept) == 0 {
		kept = nil
	}
	d.FileLinks = kept
}

// dropDellog removes dellog rows matching the predicate.
func (d *Disk) dropDellog(match func(*DellogRow) bool) {
	if len(d.Dellog) == 0 {
		return
	}
	kept := make([]*DellogRow, 0, len(d.Dellog))
	for _, l := range d.Dellog {
		if !match(l) {
			kept = append(kept, l)
		}
	}
	if len(kept) == 0 {
		kept = nil
	}
	d.Dellog = kept
}

// dropMessages deletes all messages of the topic with cascading delete of their file links.
func (d *Disk) dropMessages(topic string) {
	msgs := d.Messages[topic]
	if len(msgs) == 0 {
		delete(d.Messages, topic)
		return
	}
	ids := make(map[int64]struct{}, len(msgs))
	for _, m := range msgs {
		ids[m.Id] = struct{}{}
	}
	d.dropFileLinks(func(l *FileLinkRow) bool {
		_, ok := ids[l.MsgId]
		return l.MsgId != 0 && ok
	})
	delete(d.Messages, topic)
}

// setTags replaces the tag index entry. The tags must be unique.
func setTags[K comparable](index map[K][]string, key K, tags []string) {
	if len(tags) == 0 {
		delete(index, key)
		return
	}
	tags = cpStrings(tags)
	sort.Strings(tags)
	index[key] = tags
}

// Helpers.

func sortedKeys[V any](m map[string]V) []string {
	keys := make([]string, 0, len(m))
	for k := range m {
		keys = append(keys, k)
	}
	sort.Strings(keys)
	return keys
}

// normTime converts time to what a DATETIME(3) column holds: UTC, rounded to milliseconds, no monotonic clock.
func normTime(tm time.Time) time.Time {
	return tm.UTC().Round(time.Millisecond)
}

func timePtr(tm time.Time) *time.Time {
	return &tm
}

func cpTimePtr(tm *time.Time) *time.Time {
	if tm == nil {
		return nil
	}
	c := *tm
	return &c
}

func cpBytes(b []byte) []byte {
	if b == nil {
		return nil
	}
	c := make([]byte, len(b))
	copy(c, b)
	return c
}

func cpStrings(s []string) []string {
	if s == nil {
		return nil
	}
	c := make([]string, len(s))
	copy(c, s)
	return c
}

func hasDupStrings(s []string) bool {
	if len(s) < 2 {
		return false
	}
	seen := make(map[string]struct{}, len(s))
	for _, v := range s {
		if _, ok := seen[v]; ok {
			return true
		}
		seen[v] = struct{}{}
	}
	return false
}

func containsString(s []string, v string) bool {
	for _, x := range s {
		if x == v {
			return true
		}
	}
	return false
}

// normMode keeps what survives a round trip of AccessMode through its text representation in a CHAR(8) column.
func normMode(m t.AccessMode) t.AccessMode {
	return m & t.ModeBitmask
}

func normAccess(da t.DefaultAccess) t.DefaultAccess {
	return t.DefaultAccess{Auth: normMode(da.Auth), Anon: normMode(da.Anon)}
}

// toJSON converts a value to JSON before storing it to a JSON field: nil stays NULL.
func toJSON(src any) []byte {
	if src == nil {
		return nil
	}

	jval, _ := json.Marshal(src)
	return jval
}

// fromJSON deserializes JSON data from DB: NULL is nil.
func fromJSON(src []byte) any {
	if src == nil {
		return nil
	}
	var out any
	json.Unmarshal(src, &out)
	return out
}

func ms(tm time.Time) int64 {
	return tm.UnixMilli()
}

func msPtr(tm *time.Time) string {
	if tm == nil {
		return "NULL"
	}
	return fmt.Sprint(tm.UnixMilli())
}

func uidStr(uid t.Uid) string {
	if uid.IsZero() {
		return "0"
	}
	return uid.String()
}

func jsonStr(b []byte) string {
	if b == nil {
		return "NULL"
	}
	return string(b)
}

func tagsStr(tags []string) string {
	if tags == nil {
		return "NULL"
	}
	b, _ := json.Marshal(tags)
	return string(b)
}
