package simdb

import (
	t "github.com/tinode/chat/server/store/types"
)

// SubscriptionGet gets a subscription of a user to a topic.
func (a *Adapter) SubscriptionGet(topic string, user t.Uid, keepDeleted bool) (*t.Subscription, error) {
	var res *t.Subscription
	err := a.call("SubscriptionGet", []any{topic, user, keepDeleted}, func(d *Disk) error {
		r, ok := d.Subs[SubKey(topic, user)]
		if !ok {
			// Nothing found - clear the error
			return nil
		}

		if !keepDeleted && r.DeletedAt != nil {
			return nil
		}

		sub := subFromRow(r)
		// The SQL adapter leaves the decimal string of the decoded (database) user id here,
		// which is not reproducible without the store's key: use the regular representation.
		sub.User = r.User.String()
		sub.Private = fromJSON(r.Private)
		res = &sub
		return nil
	})
	return res, err
}

// SubsForUser loads all user's subscriptions. Does NOT load Public or Private values and does
// not load deleted subscriptions.
func (a *Adapter) SubsForUser(forUser t.Uid) ([]t.Subscription, error) {
	var res []t.Subscription
	err := a.call("SubsForUser", []any{forUser}, func(d *Disk) error {
		var subs []t.Subscription
		for _, r := range d.subsSorted(func(s *SubRow) bool { return s.User == forUser && s.DeletedAt == nil }) {
			ss := subFromRow(r)
			ss.User = forUser.String()
			subs = append(subs, ss)
		}
		res = subs
		return nil
	})
	return res, err
}

// SubsForTopic fetches all subsciptions for a topic. Does NOT load Public value.
// The difference between UsersForTopic vs SubsForTopic is that the former loads user.public+trusted,
// the latter does not.
func (a *Adapter) SubsForTopic(topic string, keepDeleted bool, opts *t.QueryOpt) ([]t.Subscription, error) {
	var res []t.Subscription
	err := a.call("SubsForTopic", []any{topic, keepDeleted, opts}, func(d *Disk) error {
		limit := a.maxResults()
		var oneUser t.Uid
		if opts != nil {
			// Ignore IfModifiedSince - we must return all entries
			// Those unmodified will be stripped of Public & Private.

			if !opts.User.IsZero() {
				oneUser = opts.User
			}
			if opts.Limit > 0 && opts.Limit < limit {
				limit = opts.Limit
			}
		}

		rows := d.subsSorted(func(s *SubRow) bool {
			if s.Topic != topic {
				return false
			}
			if !keepDeleted && s.DeletedAt != nil {
				// Filter out deleted rows.
				return false
			}
			return oneUser.IsZero() || s.User == oneUser
		})
		if len(rows) > limit {
			rows = rows[:limit]
		}

		var subs []t.Subscription
		for _, r := range rows {
			ss := subFromRow(r)
			ss.User = r.User.String()
			ss.Private = fromJSON(r.Private)
			subs = append(subs, ss)
		}
		res = subs
		return nil
	})
	return res, err
}

// SubsUpdate updates one or multiple subscriptions to a topic.
func (a *Adapter) SubsUpdate(topic string, user t.Uid, update map[string]any) error {
	return a.call("SubsUpdate", []any{topic, user, update}, func(d *Disk) error {
		setters, err := a.subSetters(update)
		if err != nil {
			return err
		}

		for _, r := range d.Subs {
			if r.Topic != topic {
				continue
			}
			if !user.IsZero() && r.User != user {
				// Update just one topic subscription
				continue
			}
			for _, set := range setters {
				set(r)
			}
		}
		return nil
	})
}

// SubsDelete marks subscription as deleted.
func (a *Adapter) SubsDelete(topic string, user t.Uid) error {
	return a.call("SubsDelete", []any{topic, user}, func(d *Disk) error {
		now := t.TimeNow()
		r, ok := d.Subs[SubKey(topic, user)]
		if !ok || r.DeletedAt != nil {
			return t.ErrNotFound
		}
		r.UpdatedAt = now
		r.DeletedAt = timePtr(now)

		// Remove records of messages soft-deleted by this user.
		d.dropDellog(func(l *DellogRow) bool { return l.Topic == topic && l.DeletedFor == user })
		return nil
	})
}

// subsDelForUser marks user's subscriptions as deleted.
func subsDelForUser(d *Disk, user t.Uid, hard bool) {
	if hard {
		for key, r := range d.Subs {
			if r.User == user {
				delete(d.Subs, key)
			}
		}
	} else {
		now := t.TimeNow()
		for _, r := range d.Subs {
			if r.User == user && r.DeletedAt == nil {
				r.UpdatedAt = now
				r.DeletedAt = timePtr(now)
			}
		}
	}
}
