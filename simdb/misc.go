package simdb

import (
	"errors"
	"hash/fnv"
	"strconv"
	"strings"
	"time"

	t "github.com/tinode/chat/server/store/types"
)

// Devices (for push notifications).

func deviceHasher(deviceID string) string {
	// Generate custom key as [64-bit hash of device id] to ensure predictable
	// length of the key
	hasher := fnv.New64()
	hasher.Write([]byte(deviceID))
	return strconv.FormatUint(uint64(hasher.Sum64()), 16)
}

// DeviceUpsert creates or updates a device record.
func (a *Adapter) DeviceUpsert(uid t.Uid, def *t.DeviceDef) error {
	return a.call("DeviceUpsert", []any{uid, def}, func(d *Disk) error {
		hash := deviceHasher(def.DeviceId)

		if _, ok := d.Users[uid]; !ok {
			return errForeignKey("devices.userid", "users.id")
		}

		// Ensure uniqueness of the device ID: delete all records of the device ID
		delete(d.Devices, hash)

		// Actually add/update DeviceId for the new user
		d.AutoInc.Devices++
		d.Devices[hash] = &DeviceRow{
			Id:       d.AutoInc.Devices,
			User:     uid,
			Hash:     hash,
			DeviceId: def.DeviceId,
			Platform: def.Platform,
			LastSeen: a.coarse(def.LastSeen),
			Lang:     def.Lang,
		}
		return nil
	})
}

// DeviceGetAll returns all devices for a given set of users.
func (a *Adapter) DeviceGetAll(uids ...t.Uid) (map[t.Uid][]t.DeviceDef, int, error) {
	var res map[t.Uid][]t.DeviceDef
	count := 0
	err := a.call("DeviceGetAll", []any{uids}, func(d *Disk) error {
		if len(uids) == 0 {
			return errEmptyQuery
		}
		want := make(map[t.Uid]struct{}, len(uids))
		for _, uid := range uids {
			want[uid] = struct{}{}
		}

		result := make(map[t.Uid][]t.DeviceDef)
		for _, r := range d.devicesSorted(func(r *DeviceRow) bool {
			_, ok := want[r.User]
			return ok
		}) {
			result[r.User] = append(result[r.User], t.DeviceDef{
				DeviceId: r.DeviceId,
				Platform: r.Platform,
				LastSeen: r.LastSeen,
				Lang:     r.Lang,
			})
			count++
		}
		res = result
		return nil
	})
	return res, count, err
}

// deviceDelete deletes one or all devices of the user. Returns false if nothing was deleted.
func deviceDelete(d *Disk, uid t.Uid, deviceID string) bool {
	found := false
	if deviceID == "" {
		for hash, r := range d.Devices {
			if r.User == uid {
				delete(d.Devices, hash)
				found = true
			}
		}
	} else {
		hash := deviceHasher(deviceID)
		if r, ok := d.Devices[hash]; ok && r.User == uid {
			delete(d.Devices, hash)
			found = true
		}
	}
	return found
}

// DeviceDelete deletes a device record.
func (a *Adapter) DeviceDelete(uid t.Uid, deviceID string) error {
	return a.call("DeviceDelete", []any{uid, deviceID}, func(d *Disk) error {
		if !deviceDelete(d, uid, deviceID) {
			return t.ErrNotFound
		}
		return nil
	})
}

// Credential management

// CredUpsert adds or updates a validation record. Returns true if inserted, false if updated.
// 1. if credential is validated:
// 1.1 Hard-delete unconfirmed equivalent record, if exists.
// 1.2 Insert new. Report error if duplicate.
// 2. if credential is not validated:
// 2.1 Check if validated equivalent exist. If so, report an error.
// 2.2 Soft-delete all unvalidated records of the same method.
// 2.3 Undelete existing credential. Return if successful.
// 2.4 Insert new credential record.
func (a *Adapter) CredUpsert(cred *t.Credential) (bool, error) {
	inserted := false
	err := a.call("CredUpsert", []any{cred}, func(d *Disk) error {
		now := t.TimeNow()
		userId := t.ParseUid(cred.User)

		// Enforce uniqueness: if credential is confirmed, "method:value" must be unique.
		// if credential is not yet confirmed, "userid:method:value" is unique.
		synth := cred.Method + ":" + cred.Value

		if !cred.Done {
			// Check if this credential is already validated.
			if _, ok := d.Credentials[synth]; ok {
				return t.ErrDuplicate
			}
			// We are going to insert new record.
			synth = cred.User + ":" + synth

			existing, exists := d.Credentials[synth]
			if !exists {
				// The insert below must succeed or nothing is changed.
				if _, ok := d.Users[userId]; !ok {
					inserted = true
					return errForeignKey("credentials.userid", "users.id")
				}
			}

			// Adding new unvalidated credential. Deactivate all unvalidated records of this user and method.
			for _, r := range d.Credentials {
				if r.User == userId && r.Method == cred.Method && !r.Done {
					r.DeletedAt = timePtr(now)
				}
			}
			// Assume that the record exists and try to update it: undelete, update timestamp and response value.
			if exists {
				existing.UpdatedAt = normTime(cred.UpdatedAt)
				existing.DeletedAt = nil
				existing.Resp = cred.Resp
				existing.Done = false
				// If record was updated, then all is fine.
				return nil
			}
		} else {
			// The insert below must succeed or nothing is changed.
			if _, ok := d.Credentials[synth]; ok {
				inserted = true
				return t.ErrDuplicate
			}
			if _, ok := d.Users[userId]; !ok {
				inserted = true
				return errForeignKey("credentials.userid", "users.id")
			}
			// Hard-deleting unconformed record if it exists.
			delete(d.Credentials, cred.User+":"+synth)
		}
		// Add new record.
		inserted = true
		d.AutoInc.Credentials++
		d.Credentials[synth] = &CredRow{
			Id:        d.AutoInc.Credentials,
			CreatedAt: normTime(cred.CreatedAt),
			UpdatedAt: normTime(cred.UpdatedAt),
			Method:    cred.Method,
			Value:     cred.Value,
			Synthetic: synth,
			User:      userId,
			Resp:      cred.Resp,
			Done:      cred.Done,
		}
		return nil
	})
	return inserted, err
}

// credDelAll hard-deletes all credentials of the user. Returns false if there were none.
func credDelAll(d *Disk, uid t.Uid) bool {
	found := false
	for synth, r := range d.Credentials {
		if r.User == uid {
			delete(d.Credentials, synth)
			found = true
		}
	}
	return found
}

// CredDel deletes given validation method or all methods of the given user.
// 1. If user is being deleted, hard-delete all records (method == "")
// 2. If one value is being deleted:
// 2.1 Delete it if it's valiated or if there were no attempts at validation
// (otherwise it could be used to circumvent the limit on validation attempts).
// 2.2 In that case mark it as soft-deleted.
func (a *Adapter) CredDel(uid t.Uid, method, value string) error {
	return a.call("CredDel", []any{uid, method, value}, func(d *Disk) error {
		if method == "" {
			// Case 1
			if !credDelAll(d, uid) {
				return t.ErrNotFound
			}
			return nil
		}

		// Case 2.1
		found := false
		for synth, r := range d.Credentials {
			if r.User != uid || r.Method != method {
				continue
			}
			if value != "" && r.Value != value {
				continue
			}
			if r.Done || r.Retries == 0 {
				delete(d.Credentials, synth)
				found = true
			}
		}
		if found {
			return nil
		}

		// Case 2.2
		// The SQL adapter soft-deletes the remaining matching records, then reports ErrNotFound
		// regardless of the outcome (count >= 0), which rolls the soft-deletion back.
		return t.ErrNotFound
	})
}

// CredConfirm marks given credential method as confirmed.
func (a *Adapter) CredConfirm(uid t.Uid, method string) error {
	return a.call("CredConfirm", []any{uid, method}, func(d *Disk) error {
		rows := d.credsSorted(func(r *CredRow) bool {
			return r.User == uid && r.Method == method && r.DeletedAt == nil && !r.Done
		})
		// Check uniqueness of the new synthetic keys first.
		claimed := make(map[string]struct{}, len(rows))
		for _, r := range rows {
			synth := r.Method + ":" + r.Value
			if other, ok := d.Credentials[synth]; ok && other != r {
				return t.ErrDuplicate
			}
			if _, ok := claimed[synth]; ok {
				return t.ErrDuplicate
			}
			claimed[synth] = struct{}{}
		}
		if len(rows) < 1 {
			return t.ErrNotFound
		}
		now := t.TimeNow()
		for _, r := range rows {
			delete(d.Credentials, r.Synthetic)
			r.UpdatedAt = now
			r.Done = true
			r.Synthetic = r.Method + ":" + r.Value
			d.Credentials[r.Synthetic] = r
		}
		return nil
	})
}

// CredFail increments failure count of the given validation method.
func (a *Adapter) CredFail(uid t.Uid, method string) error {
	return a.call("CredFail", []any{uid, method}, func(d *Disk) error {
		now := t.TimeNow()
		for _, r := range d.Credentials {
			if r.User == uid && r.Method == method && !r.Done {
				r.UpdatedAt = now
				r.Retries++
			}
		}
		return nil
	})
}

func credFromRow(r *CredRow, user string) t.Credential {
	var cred t.Credential
	cred.CreatedAt = r.CreatedAt
	cred.UpdatedAt = r.UpdatedAt
	cred.User = user
	cred.Method = r.Method
	cred.Value = r.Value
	cred.Resp = r.Resp
	cred.Done = r.Done
	cred.Retries = r.Retries
	return cred
}

// CredGetActive returns currently active unvalidated credential of the given user and method.
func (a *Adapter) CredGetActive(uid t.Uid, method string) (*t.Credential, error) {
	var res *t.Credential
	err := a.call("CredGetActive", []any{uid, method}, func(d *Disk) error {
		rows := d.credsSorted(func(r *CredRow) bool {
			return r.User == uid && r.DeletedAt == nil && r.Method == method && !r.Done
		})
		if len(rows) > 0 {
			cred := credFromRow(rows[0], uid.String())
			res = &cred
		}
		return nil
	})
	return res, err
}

// CredGetAll returns credential records for the given user and method, all or validated only.
func (a *Adapter) CredGetAll(uid t.Uid, method string, validatedOnly bool) ([]t.Credential, error) {
	var res []t.Credential
	err := a.call("CredGetAll", []any{uid, method, validatedOnly}, func(d *Disk) error {
		user := uid.String()
		var credentials []t.Credential
		for _, r := range d.credsSorted(func(r *CredRow) bool {
			if r.User != uid || r.DeletedAt != nil {
				return false
			}
			if method != "" && r.Method != method {
				return false
			}
			return !validatedOnly || r.Done
		}) {
			credentials = append(credentials, credFromRow(r, user))
		}
		res = credentials
		return nil
	})
	return res, err
}

// FileUploads

func fileFromRow(r *FileRow) t.FileDef {
	var fd t.FileDef
	fd.Id = r.Id.String()
	fd.CreatedAt = r.CreatedAt
	fd.UpdatedAt = r.UpdatedAt
	fd.User = r.User.String()
	fd.Status = r.Status
	fd.MimeType = r.MimeType
	fd.Size = r.Size
	fd.Location = r.Location
	return fd
}

// FileStartUpload initializes a file upload
func (a *Adapter) FileStartUpload(fd *t.FileDef) error {
	return a.call("FileStartUpload", []any{fd}, func(d *Disk) error {
		id := fd.Uid()
		if _, ok := d.FileUploads[id]; ok {
			return errDupEntry("fileuploads", "PRIMARY")
		}
		var user t.Uid
		if fd.User != "" {
			user = t.ParseUid(fd.User)
		}
		d.AutoInc.FileUploads++
		d.FileUploads[id] = &FileRow{
			Seq:       d.AutoInc.FileUploads,
			Id:        id,
			CreatedAt: normTime(fd.CreatedAt),
			UpdatedAt: normTime(fd.UpdatedAt),
			User:      user,
			Status:    fd.Status,
			MimeType:  fd.MimeType,
			Size:      fd.Size,
			Location:  fd.Location,
		}
		return nil
	})
}

// FileFinishUpload marks file upload as completed, successfully or otherwise
func (a *Adapter) FileFinishUpload(fd *t.FileDef, success bool, size int64) (*t.FileDef, error) {
	var res *t.FileDef
	err := a.call("FileFinishUpload", []any{fd, success, size}, func(d *Disk) error {
		now := t.TimeNow()
		id := fd.Uid()
		if success {
			if r, ok := d.FileUploads[id]; ok {
				r.UpdatedAt = now
				r.Status = t.UploadCompleted
				r.Size = size
			}

			fd.Status = t.UploadCompleted
			fd.Size = size
		} else {
			// Deleting the record: there is no value in keeping it in the DB.
			if _, ok := d.FileUploads[id]; ok {
				delete(d.FileUploads, id)
				// filemsglinks by ON DELETE CASCADE.
				d.dropFileLinks(func(l *FileLinkRow) bool { return l.FileId == id })
			}

			fd.Status = t.UploadFailed
			fd.Size = 0
		}
		fd.UpdatedAt = now
		res = fd
		return nil
	})
	return res, err
}

// FileGet fetches a record of a specific file
func (a *Adapter) FileGet(fid string) (*t.FileDef, error) {
	var res *t.FileDef
	err := a.call("FileGet", []any{fid}, func(d *Disk) error {
		id := t.ParseUid(fid)
		if id.IsZero() {
			return t.ErrMalformed
		}

		if r, ok := d.FileUploads[id]; ok {
			fd := fileFromRow(r)
			res = &fd
		}
		return nil
	})
	return res, err
}

// FileDeleteUnused deletes file upload records.
func (a *Adapter) FileDeleteUnused(olderThan time.Time, limit int) ([]string, error) {
	var res []string
	err := a.call("FileDeleteUnused", []any{olderThan, limit}, func(d *Disk) error {
		linked := make(map[t.Uid]struct{}, len(d.FileLinks))
		for _, l := range d.FileLinks {
			linked[l.FileId] = struct{}{}
		}

		// Garbage collecting entries which as either marked as deleted, or lack message references, or have no user assigned.
		var locations []string
		var ids []t.Uid
		for _, r := range d.filesSorted() {
			if limit > 0 && len(ids) >= limit {
				break
			}
			if _, ok := linked[r.Id]; ok {
				continue
			}
			if !olderThan.IsZero() && !r.UpdatedAt.Before(olderThan) {
				continue
			}
			if r.Location != "" {
				locations = append(locations, r.Location)
			}
			ids = append(ids, r.Id)
		}

		for _, id := range ids {
			delete(d.FileUploads, id)
		}
		res = locations
		return nil
	})
	return res, err
}

// FileLinkAttachments connects given topic or message to the file record IDs from the list.
func (a *Adapter) FileLinkAttachments(topic string, userId, msgId t.Uid, fids []string) error {
	return a.call("FileLinkAttachments", []any{topic, userId, msgId, fids}, func(d *Disk) error {
		if len(fids) == 0 || (topic == "" && msgId.IsZero() && userId.IsZero()) {
			return t.ErrMalformed
		}
		now := t.TimeNow()

		link := FileLinkRow{CreatedAt: now}
		var match func(*FileLinkRow) bool
		fkOk := true
		if !msgId.IsZero() {
			link.MsgId = int64(msgId)
			fkOk = d.messageById(link.MsgId) != nil
		} else if topic != "" {
			link.Topic = topic
			match = func(l *FileLinkRow) bool { return l.Topic != "" && l.Topic == topic }
			_, fkOk = d.Topics[topic]
			// Only one attachment per topic is permitted at this time.
			fids = fids[0:1]
		} else {
			link.User = userId
			match = func(l *FileLinkRow) bool { return !l.User.IsZero() && l.User == userId }
			_, fkOk = d.Users[userId]
			// Only one attachment per user is permitted at this time.
			fids = fids[0:1]
		}

		// Decoded ids
		var dids []t.Uid
		for _, fid := range fids {
			id := t.ParseUid(fid)
			if id.IsZero() {
				return t.ErrMalformed
			}
			dids = append(dids, id)
		}

		// Foreign keys of the rows to be inserted.
		if !fkOk {
			return errForeignKey("filemsglinks", "messages.id|topics.name|users.id")
		}
		for _, id := range dids {
			if _, ok := d.FileUploads[id]; !ok {
				return errForeignKey("filemsglinks.fileid", "fileuploads.id")
			}
		}

		// Unlink earlier uploads on the same topic or user allowing them to be garbage-collected.
		if msgId.IsZero() {
			d.dropFileLinks(match)
		}

		for _, id := range dids {
			row := link
			d.AutoInc.FileLinks++
			row.Id = d.AutoInc.FileLinks
			row.FileId = id
			d.FileLinks = append(d.FileLinks, &row)
		}
		return nil
	})
}

// Persistent cache.

// PCacheGet reads a persistet cache entry.
func (a *Adapter) PCacheGet(key string) (string, error) {
	var res string
	err := a.call("PCacheGet", []any{key}, func(d *Disk) error {
		r, ok := d.KV[key]
		if !ok {
			return t.ErrNotFound
		}
		res = r.Value
		return nil
	})
	return res, err
}

// PCacheUpsert creates or updates a persistent cache entry.
func (a *Adapter) PCacheUpsert(key string, value string, failOnDuplicate bool) error {
	return a.call("PCacheUpsert", []any{key, value, failOnDuplicate}, func(d *Disk) error {
		if strings.Contains(key, "%") {
			// Do not allow % in keys: it interferes with LIKE query.
			return t.ErrMalformed
		}

		if _, ok := d.KV[key]; ok && failOnDuplicate {
			return t.ErrDuplicate
		}
		d.KV[key] = &KVRow{Key: key, CreatedAt: timePtr(t.TimeNow()), Value: value}
		return nil
	})
}

// PCacheDelete deletes one persistent cache entry.
func (a *Adapter) PCacheDelete(key string) error {
	return a.call("PCacheDelete", []any{key}, func(d *Disk) error {
		delete(d.KV, key)
		return nil
	})
}

// PCacheExpire expires old entries with the given key prefix.
func (a *Adapter) PCacheExpire(keyPrefix string, olderThan time.Time) error {
	return a.call("PCacheExpire", []any{keyPrefix, olderThan}, func(d *Disk) error {
		if keyPrefix == "" {
			return t.ErrMalformed
		}

		pattern := keyPrefix + "%"
		for key, r := range d.KV {
			if r.CreatedAt != nil && r.CreatedAt.Before(olderThan) && sqlLike(key, pattern) {
				delete(d.KV, key)
			}
		}
		return nil
	})
}

// sqlLike matches string against SQL LIKE pattern: '%' is any sequence, '_' is any single character,
// backslash escapes the next character. Case-sensitive.
func sqlLike(s, pattern string) bool {
	sr, pr := []rune(s), []rune(pattern)
	var match func(si, pi int) bool
	match = func(si, pi int) bool {
		for pi < len(pr) {
			switch pr[pi] {
			case '%':
				for pi < len(pr) && pr[pi] == '%' {
					pi++
				}
				if pi == len(pr) {
					return true
				}
				for ; si <= len(sr); si++ {
					if match(si, pi) {
						return true
					}
				}
				return false
			case '_':
				if si >= len(sr) {
					return false
				}
			case '\\':
				if pi+1 < len(pr) {
					pi++
				}
				fallthrough
			default:
				if si >= len(sr) || sr[si] != pr[pi] {
					return false
				}
			}
			si++
			pi++
		}
		return si == len(sr)
	}
	return match(0, 0)
}

// errNegativeLimit is what a negative LIMIT produces.
var errNegativeLimit = errors.New("simdb: You have an error in your SQL syntax (negative LIMIT)")
