package simdb

import (
	"testing"
	"time"

	t "github.com/tinode/chat/server/store/types"
)

func TestTopicCreateAndGet(tt *testing.T) {
	a := newAdp(tt)
	mkUser(tt, a, uA)
	mkGrp(tt, a, "grpOne", uA, "x", "y")

	got, err := a.TopicGet("grpOne")
	must(tt, err)
	if got.Id != "grpOne" || got.Owner != uA.String() || got.Access.Auth != t.ModeCPublic || !got.TouchedAt.Equal(t0) {
		tt.Fatalf("TopicGet: %+v", got)
	}
	eq(tt, "public", got.Public, map[string]any{"fn": "grpOne"})
	eq(tt, "tags", got.Tags, t.StringSlice{"x", "y"})
	eq(tt, "tag index", a.Disk.TopicTags["grpOne"], []string{"x", "y"})

	if missing, err := a.TopicGet("grpMissing"); missing != nil || err != nil {
		tt.Fatal("missing topic must be nil, nil")
	}
	sys, _ := a.TopicGet("sys")
	if sys == nil || sys.Owner != "" {
		tt.Fatal("sys topic must exist with empty owner")
	}
	eq(tt, "sys public", sys.Public, map[string]any{"fn": "System"})

	before := a.Disk.Dump()
	dup := &t.Topic{}
	dup.Id = "grpOne"
	wantRawErr(tt, a.TopicCreate(dup))
	bad := &t.Topic{Tags: t.StringSlice{"q", "q"}}
	bad.Id = "grpTwo"
	wantErr(tt, a.TopicCreate(bad), t.ErrDuplicate)
	if a.Disk.Dump() != before {
		tt.Fatal("failed TopicCreate left a partial effect")
	}

	// Deleted-state topics are returned.
	must(tt, a.TopicDelete("grpOne", false, false))
	got, _ = a.TopicGet("grpOne")
	if got == nil || got.State != t.StateDeleted || got.StateAt == nil {
		tt.Fatal("soft-deleted topic must be returned with the state")
	}
}

func TestTopicShareUndelete(tt *testing.T) {
	a := newAdp(tt)
	mkUser(tt, a, uA)
	mkUser(tt, a, uB)
	mkGrp(tt, a, "grpOne", uA)
	must(tt, a.TopicShare([]*t.Subscription{mkSub("grpOne", uB, t.ModeCPublic, t.ModeCPublic, map[string]any{"note": "mine"})}))
	must(tt, a.SubsUpdate("grpOne", uB, map[string]any{"ReadSeqId": 5, "RecvSeqId": 6, "DelId": 2}))
	must(tt, a.SubsDelete("grpOne", uB))
	row := a.Disk.Subs[SubKey("grpOne", uB)]
	id := row.Id
	if row.DeletedAt == nil || row.ReadSeqId != 5 {
		tt.Fatal("soft-deleted row must keep the marks")
	}

	// Re-share with the owner bit: resets everything but private, sets topics.owner.
	t1 := t0.Add(time.Hour)
	again := mkSub("grpOne", uB, t.ModeCFull, t.ModeCFull, "new private is ignored")
	again.CreatedAt, again.UpdatedAt = t1, t1
	must(tt, a.TopicShare([]*t.Subscription{again}))
	row = a.Disk.Subs[SubKey("grpOne", uB)]
	if row.Id != id || row.DeletedAt != nil || !row.CreatedAt.Equal(t1) || !row.UpdatedAt.Equal(t1) ||
		row.DelId != 0 || row.RecvSeqId != 0 || row.ReadSeqId != 0 || row.ModeWant != t.ModeCFull || row.ModeGiven != t.ModeCFull {
		tt.Fatalf("TopicShare on existing row: %+v", row)
	}
	eq(tt, "private kept", string(row.Private), `{"note":"mine"}`)
	eq(tt, "owner changed", a.Disk.Topics["grpOne"].Owner, uB)

	// Owner bit must be in both modes.
	must(tt, a.TopicShare([]*t.Subscription{mkSub("grpOne", uA, t.ModeCFull, t.ModeCPublic, nil)}))
	eq(tt, "owner unchanged", a.Disk.Topics["grpOne"].Owner, uB)

	// Unknown user in the middle of the list: nothing is applied.
	before := a.Disk.Dump()
	err := a.TopicShare([]*t.Subscription{
		mkSub("grpTwo", uA, t.ModeCPublic, t.ModeCPublic, nil),
		mkSub("grpTwo", uD, t.ModeCPublic, t.ModeCPublic, nil),
	})
	wantRawErr(tt, err)
	if a.Disk.Dump() != before {
		tt.Fatal("failed TopicShare left a partial effect")
	}
}

func TestTopicCreateP2P(tt *testing.T) {
	a := newAdp(tt)
	mkUser(tt, a, uA)
	mkUser(tt, a, uB)
	name := uA.P2PName(uB)

	// Pre-existing subscriptions of both users (e.g. left from a deleted topic).
	must(tt, a.TopicShare([]*t.Subscription{
		mkSub(name, uA, t.ModeCP2P, t.ModeCP2P, "old-ini"),
		mkSub(name, uB, t.ModeCP2P, t.ModeCP2P, "old-inv"),
	}))
	must(tt, a.SubsUpdate(name, t.ZeroUid, map[string]any{"ReadSeqId": 3}))
	must(tt, a.SubsDelete(name, uB))

	t1 := t0.Add(time.Hour)
	ini := mkSub(name, uA, t.ModeCP2P, t.ModeCP2P, "new-ini")
	ini.CreatedAt, ini.UpdatedAt = t1, t1
	ini.SetTouchedAt(t1)
	inv := mkSub(name, uB, t.ModeCP2P, t.ModeNone, "new-inv")
	inv.CreatedAt, inv.UpdatedAt = t1, t1
	must(tt, a.TopicCreateP2P(ini, inv))

	ra, rb := a.Disk.Subs[SubKey(name, uA)], a.Disk.Subs[SubKey(name, uB)]
	eq(tt, "initiator private overwritten", string(ra.Private), `"new-ini"`)
	eq(tt, "invited private kept", string(rb.Private), `"old-inv"`)
	if rb.DeletedAt != nil || rb.ReadSeqId != 0 || ra.ReadSeqId != 0 || rb.ModeGiven != t.ModeNone {
		tt.Fatalf("p2p subs: %+v %+v", ra, rb)
	}
	tr := a.Disk.Topics[name]
	if tr == nil || !tr.Owner.IsZero() || !tr.CreatedAt.Equal(t1) || !tr.TouchedAt.Equal(t1) || tr.Public != nil || tr.Tags != nil {
		tt.Fatalf("p2p topic: %+v", tr)
	}

	// Topic already exists: raw duplicate error, subscriptions untouched.
	before := a.Disk.Dump()
	ini2 := mkSub(name, uA, t.ModeCP2P, t.ModeCP2P, "third")
	wantRawErr(tt, a.TopicCreateP2P(ini2, mkSub(name, uB, t.ModeCP2P, t.ModeCP2P, nil)))
	// Unknown invited user.
	other := uA.P2PName(uD)
	wantRawErr(tt, a.TopicCreateP2P(mkSub(other, uA, t.ModeCP2P, t.ModeCP2P, nil), mkSub(other, uD, t.ModeCP2P, t.ModeCP2P, nil)))
	if a.Disk.Dump() != before {
		tt.Fatal("failed TopicCreateP2P left a partial effect")
	}
}

func TestSubscriptionGetAndSoftDelete(tt *testing.T) {
	a := newAdp(tt)
	mkUser(tt, a, uA)
	mkUser(tt, a, uB)
	mkGrp(tt, a, "grpOne", uA)
	must(tt, a.TopicShare([]*t.Subscription{mkSub("grpOne", uB, t.ModeCPublic, t.ModeCReadOnly, []int{1})}))
	must(tt, a.MessageDeleteList("grpOne", &t.DelMessage{DelId: 1, DeletedFor: uB.String(), SeqIdRanges: []t.Range{{Low: 1, Hi: 3}}}))
	must(tt, a.MessageDeleteList("grpOne", &t.DelMessage{DelId: 2, DeletedFor: uA.String(), SeqIdRanges: []t.Range{{Low: 1}}}))

	sub, err := a.SubscriptionGet("grpOne", uB, false)
	must(tt, err)
	if sub.User != uB.String() || sub.Topic != "grpOne" || sub.ModeWant != t.ModeCPublic || sub.ModeGiven != t.ModeCReadOnly {
		tt.Fatalf("SubscriptionGet: %+v", sub)
	}
	eq(tt, "private", sub.Private, []any{float64(1)})

	must(tt, a.SubsDelete("grpOne", uB))
	wantErr(tt, a.SubsDelete("grpOne", uB), t.ErrNotFound)
	wantErr(tt, a.SubsDelete("grpOne", uC), t.ErrNotFound)
	if sub, _ = a.SubscriptionGet("grpOne", uB, false); sub != nil {
		tt.Fatal("soft-deleted must be hidden")
	}
	sub, _ = a.SubscriptionGet("grpOne", uB, true)
	if sub == nil || sub.DeletedAt == nil || sub.ModeWant != t.ModeCPublic {
		tt.Fatal("keepDeleted must return the row with DeletedAt and old modes")
	}
	if sub, err = a.SubscriptionGet("grpOne", uC, true); sub != nil || err != nil {
		tt.Fatal("missing must be nil, nil")
	}
	// uB's dellog rows are gone, uA's stay.
	eq(tt, "dellog rows", len(a.Disk.Dellog), 1)
	eq(tt, "dellog owner", a.Disk.Dellog[0].DeletedFor, uA)
}

func TestSubsUpdateAllAndOne(tt *testing.T) {
	a := newAdp(tt)
	mkUser(tt, a, uA)
	mkUser(tt, a, uB)
	mkUser(tt, a, uC)
	mkGrp(tt, a, "grpOne", uA)
	mkGrp(tt, a, "grpTwo", uA)
	must(tt, a.TopicShare([]*t.Subscription{
		mkSub("grpOne", uB, t.ModeCPublic, t.ModeCPublic, nil),
		mkSub("grpOne", uC, t.ModeCPublic, t.ModeCPublic, nil),
		mkSub("grpTwo", uB, t.ModeCPublic, t.ModeCPublic, nil),
	}))
	must(tt, a.SubsDelete("grpOne", uC))

	// Zero user: ALL subscriptions of the topic including soft-deleted, and only this topic.
	must(tt, a.SubsUpdate("grpOne", t.ZeroUid, map[string]any{"DelId": 9}))
	for _, u := range []t.Uid{uA, uB, uC} {
		eq(tt, "delid", a.Disk.Subs[SubKey("grpOne", u)].DelId, 9)
	}
	eq(tt, "other topic", a.Disk.Subs[SubKey("grpTwo", uB)].DelId, 0)

	t1 := t0.Add(time.Minute)
	must(tt, a.SubsUpdate("grpOne", uB, map[string]any{
		"ModeWant": t.ModeCReadOnly, "ModeGiven": t.ModeNone, "Private": nil,
		"RecvSeqId": 4, "ReadSeqId": 3, "UpdatedAt": t1}))
	r := a.Disk.Subs[SubKey("grpOne", uB)]
	if r.ModeWant != t.ModeCReadOnly || r.ModeGiven != t.ModeNone || r.Private != nil || r.RecvSeqId != 4 || r.ReadSeqId != 3 || !r.UpdatedAt.Equal(t1) {
		tt.Fatalf("SubsUpdate: %+v", r)
	}
	eq(tt, "others untouched", a.Disk.Subs[SubKey("grpOne", uA)].ReadSeqId, 0)

	before := a.Disk.Dump()
	wantRawErr(tt, a.SubsUpdate("grpOne", uB, map[string]any{}))
	wantRawErr(tt, a.SubsUpdate("grpOne", uB, map[string]any{"ReadSeqId": 1, "NoSuchColumn": 1}))
	wantRawErr(tt, a.SubsUpdate("grpOne", uB, map[string]any{"ReadSeqId": "str"}))
	must(tt, a.SubsUpdate("grpMissing", uB, map[string]any{"ReadSeqId": 1}))
	if a.Disk.Dump() != before {
		tt.Fatal("failed SubsUpdate left a partial effect")
	}
}

func TestSubsForTopicAndUser(tt *testing.T) {
	a := newAdp(tt)
	for _, u := range []t.Uid{uA, uB, uC, uD} {
		mkUser(tt, a, u)
	}
	mkGrp(tt, a, "grpOne", uD)
	must(tt, a.TopicShare([]*t.Subscription{
		mkSub("grpOne", uC, t.ModeCPublic, t.ModeCPublic, "c"),
		mkSub("grpOne", uA, t.ModeCPublic, t.ModeCPublic, "a"),
		mkSub("grpOne", uB, t.ModeCPublic, t.ModeCPublic, "b"),
	}))
	must(tt, a.SubsDelete("grpOne", uA))

	subs, err := a.SubsForTopic("grpOne", false, nil)
	must(tt, err)
	// Insertion order.
	eq(tt, "live", subUsers(subs), []string{uD.String(), uC.String(), uB.String()})
	eq(tt, "private loaded", subs[1].Private, "c")

	subs, _ = a.SubsForTopic("grpOne", true, nil)
	eq(tt, "with deleted", subUsers(subs), []string{uD.String(), uC.String(), uA.String(), uB.String()})
	subs, _ = a.SubsForTopic("grpOne", true, &t.QueryOpt{Limit: 2})
	eq(tt, "limit", len(subs), 2)
	subs, _ = a.SubsForTopic("grpOne", false, &t.QueryOpt{User: uA})
	if subs != nil {
		tt.Fatal("deleted user sub must be filtered, result nil")
	}
	subs, _ = a.SubsForTopic("grpOne", true, &t.QueryOpt{User: uA})
	eq(tt, "one user", subUsers(subs), []string{uA.String()})
	a.MaxResults = 1
	subs, _ = a.SubsForTopic("grpOne", true, &t.QueryOpt{Limit: 5})
	eq(tt, "max results", len(subs), 1)
	a.MaxResults = 1024

	// SubsForUser: live only, no private, includes all categories.
	mkP2P(tt, a, uC, uB)
	subs, err = a.SubsForUser(uC)
	must(tt, err)
	eq(tt, "user subs", subTopics(subs), []string{"grpOne", uC.P2PName(uB)})
	if subs[0].Private != nil || subs[0].User != uC.String() {
		tt.Fatal("SubsForUser must not load private")
	}
	subs, _ = a.SubsForUser(uA)
	if subs != nil {
		tt.Fatal("deleted subs must not be loaded")
	}
}

func TestUsersForTopicGroup(tt *testing.T) {
	a := newAdp(tt)
	for _, u := range []t.Uid{uA, uB, uC} {
		mkUser(tt, a, u)
	}
	seen := t0.Add(time.Minute)
	must(tt, a.UserUpdate(uB, map[string]any{"LastSeen": seen, "UserAgent": "ua-b", "Trusted": map[string]any{"ok": true}}))
	mkGrp(tt, a, "grpOne", uA)
	must(tt, a.TopicShare([]*t.Subscription{
		mkSub("grpOne", uB, t.ModeCPublic, t.ModeCPublic, "b"),
		mkSub("grpOne", uC, t.ModeCPublic, t.ModeCPublic, "c"),
	}))

	subs, err := a.UsersForTopic("grpOne", false, nil)
	must(tt, err)
	eq(tt, "users", subUsers(subs), []string{uA.String(), uB.String(), uC.String()})
	eq(tt, "public", subs[1].GetPublic(), map[string]any{"fn": "user-" + uB.String()})
	eq(tt, "trusted", subs[1].GetTrusted(), map[string]any{"ok": true})
	if !subs[1].GetLastSeen().Equal(seen) || subs[1].GetUserAgent() != "ua-b" || subs[0].GetLastSeen() != nil {
		tt.Fatal("lastseen/ua")
	}

	// Soft-deleted user is dropped unless keepDeleted; soft-deleted sub likewise.
	must(tt, a.SubsDelete("grpOne", uC))
	must(tt, a.UserUpdate(uB, map[string]any{"State": t.StateDeleted}))
	subs, _ = a.UsersForTopic("grpOne", false, nil)
	eq(tt, "live", subUsers(subs), []string{uA.String()})
	subs, _ = a.UsersForTopic("grpOne", true, nil)
	eq(tt, "all", subUsers(subs), []string{uA.String(), uB.String(), uC.String()})
	subs, _ = a.UsersForTopic("grpOne", true, &t.QueryOpt{User: uC})
	eq(tt, "one", subUsers(subs), []string{uC.String()})
	subs, _ = a.UsersForTopic("grpOne", true, &t.QueryOpt{Limit: 2})
	eq(tt, "limit", len(subs), 2)
}

func TestUsersForTopicP2P(tt *testing.T) {
	a := newAdp(tt)
	mkUser(tt, a, uA)
	mkUser(tt, a, uB)
	seen := t0.Add(time.Minute)
	must(tt, a.UserUpdate(uA, map[string]any{"LastSeen": seen, "UserAgent": "ua-a"}))
	name := mkP2P(tt, a, uA, uB)

	subs, err := a.UsersForTopic(name, false, nil)
	must(tt, err)
	eq(tt, "both", subUsers(subs), []string{uA.String(), uB.String()})
	// Public and last seen are swapped: each sub carries the OTHER user's values.
	eq(tt, "A sees B", subs[0].GetPublic(), map[string]any{"fn": "user-" + uB.String()})
	eq(tt, "B sees A", subs[1].GetPublic(), map[string]any{"fn": "user-" + uA.String()})
	if subs[0].GetLastSeen() != nil || !subs[1].GetLastSeen().Equal(seen) || subs[1].GetUserAgent() != "ua-a" {
		tt.Fatal("lastseen swap")
	}
	eq(tt, "private", subs[0].Private, "ini")

	// One sub soft-deleted: both are loaded for the swap, then the deleted one is filtered.
	must(tt, a.SubsDelete(name, uB))
	subs, _ = a.UsersForTopic(name, false, nil)
	eq(tt, "live only", subUsers(subs), []string{uA.String()})
	eq(tt, "still swapped", subs[0].GetPublic(), map[string]any{"fn": "user-" + uB.String()})
	subs, _ = a.UsersForTopic(name, true, nil)
	eq(tt, "keep deleted", len(subs), 2)

	// opts.User on p2p: the filter compares the (empty) ObjHeader id, so everything is dropped.
	subs, _ = a.UsersForTopic(name, true, &t.QueryOpt{User: uA})
	if subs != nil {
		tt.Fatalf("p2p with opts.User: adapter quirk drops all rows, got %v", subUsers(subs))
	}

	// The other user is deleted: single row, public cleared.
	must(tt, a.UserUpdate(uB, map[string]any{"State": t.StateDeleted}))
	subs, _ = a.UsersForTopic(name, false, nil)
	eq(tt, "one row", subUsers(subs), []string{uA.String()})
	if subs[0].GetPublic() != nil || subs[0].GetLastSeen() != nil {
		tt.Fatal("single p2p row must have public cleared")
	}
}

func TestTopicsForUser(tt *testing.T) {
	a := newAdp(tt)
	for _, u := range []t.Uid{uA, uB, uC} {
		mkUser(tt, a, u)
	}
	// me and fnd subscriptions, as store.Users.Create makes them.
	must(tt, a.TopicShare([]*t.Subscription{
		mkSub(uA.UserId(), uA, t.ModeCSelf, t.ModeCSelf, nil),
		mkSub(uA.FndName(), uA, t.ModeCSelf, t.ModeCSelf, nil),
	}))
	mkGrp(tt, a, "grpOne", uA)
	mkGrp(tt, a, "grpChan", uB)
	must(tt, a.TopicUpdate("grpChan", map[string]any{"UseBt": true}))
	must(tt, a.TopicShare([]*t.Subscription{mkSub("chnChan", uA, t.ModeCChnReader, t.ModeCChnReader, "reader")}))
	seen := t0.Add(time.Minute)
	must(tt, a.UserUpdate(uB, map[string]any{"LastSeen": seen, "UserAgent": "ua-b"}))
	p2p := mkP2P(tt, a, uA, uB)
	mkMsg(tt, a, "grpOne", uA, 1, "m1")
	mkMsg(tt, a, "grpOne", uA, 2, "m2")

	subs, err := a.TopicsForUser(uA, false, nil)
	must(tt, err)
	eq(tt, "topics", subTopics(subs), []string{"grpOne", "chnChan", p2p})
	g, c, p := subs[0], subs[1], subs[2]
	if g.User != uA.String() || g.GetSeqId() != 2 || !g.GetTouchedAt().Equal(t0.Add(2*time.Second)) || g.GetState() != t.StateOK {
		tt.Fatalf("grp sub: %+v", g)
	}
	eq(tt, "grp public", g.GetPublic(), map[string]any{"fn": "grpOne"})
	eq(tt, "grp private", g.Private, "owner-private")
	eq(tt, "chn mapped to grp", c.GetPublic(), map[string]any{"fn": "grpChan"})
	eq(tt, "chn private", c.Private, "reader")
	eq(tt, "p2p public", p.GetPublic(), map[string]any{"fn": "user-" + uB.String()})
	if p.GetWith() != uB.UserId() || !p.GetLastSeen().Equal(seen) || p.GetUserAgent() != "ua-b" ||
		p.GetDefaultAccess() == nil || p.GetDefaultAccess().Auth != t.ModeCAuth {
		tt.Fatalf("p2p sub: %+v", p)
	}

	// opts.Topic and limit. The limit counts me/fnd rows too (applied in SQL before they are skipped).
	subs, _ = a.TopicsForUser(uA, false, &t.QueryOpt{Topic: "grpOne"})
	eq(tt, "one topic", subTopics(subs), []string{"grpOne"})
	subs, _ = a.TopicsForUser(uA, false, &t.QueryOpt{Limit: 3})
	eq(tt, "limit", subTopics(subs), []string{"grpOne"})

	// IfModifiedSince: everything is loaded, then filtered by the last modification.
	ims := t0.Add(time.Second)
	subs, _ = a.TopicsForUser(uA, false, &t.QueryOpt{IfModifiedSince: &ims})
	eq(tt, "ims", subTopics(subs), []string{"grpOne"})

	// Soft-deleted subscription and topic.
	must(tt, a.SubsDelete("chnChan", uA))
	subs, _ = a.TopicsForUser(uA, false, nil)
	eq(tt, "sub deleted", subTopics(subs), []string{"grpOne", p2p})
	subs, _ = a.TopicsForUser(uA, true, nil)
	eq(tt, "keep deleted", subTopics(subs), []string{"grpOne", "chnChan", p2p})
	if subs[1].DeletedAt == nil {
		tt.Fatal("DeletedAt must be reported")
	}

	// Peer is soft-deleted: the subscription is still listed but without the user's data.
	must(tt, a.UserUpdate(uB, map[string]any{"State": t.StateDeleted}))
	subs, _ = a.TopicsForUser(uA, false, nil)
	eq(tt, "peer deleted", subTopics(subs), []string{"grpOne", p2p})
	if subs[1].GetPublic() != nil || subs[1].GetWith() != uB.UserId() {
		tt.Fatal("deleted peer must not be joined")
	}
	subs, _ = a.TopicsForUser(uA, true, nil)
	if subs[2].GetPublic() == nil || subs[2].GetState() != t.StateDeleted {
		tt.Fatal("deleted peer must be joined with keepDeleted")
	}

	if subs, err = a.TopicsForUser(uC, false, nil); subs != nil || err != nil {
		tt.Fatal("no subscriptions must be nil, nil")
	}
}

func TestOwnTopicsAndChannels(tt *testing.T) {
	a := newAdp(tt)
	mkUser(tt, a, uA)
	mkUser(tt, a, uB)
	mkGrp(tt, a, "grpB", uA)
	mkGrp(tt, a, "grpA", uA)
	mkGrp(tt, a, "grpC", uB)
	names, err := a.OwnTopics(uA)
	must(tt, err)
	eq(tt, "own", names, []string{"grpB", "grpA"})
	must(tt, a.TopicOwnerChange("grpA", uB))
	names, _ = a.OwnTopics(uA)
	eq(tt, "own after change", names, []string{"grpB"})
	must(tt, a.TopicOwnerChange("grpMissing", uB))

	must(tt, a.TopicShare([]*t.Subscription{
		mkSub("chnB", uB, t.ModeCChnReader, t.ModeCChnReader, nil),
		mkSub("chnA", uB, t.ModeJoin|t.ModeRead, t.ModeCChnReader, nil), // no P in want
		mkSub("chnC", uB, t.ModeCChnReader, t.ModeCChnReader, nil),
		mkSub("grpB", uB, t.ModeCChnReader, t.ModeCChnReader, nil),
	}))
	must(tt, a.SubsDelete("chnC", uB))
	names, err = a.ChannelsForUser(uB)
	must(tt, err)
	eq(tt, "channels", names, []string{"chnB"})
}

func TestTopicUpdateAndOnMessage(tt *testing.T) {
	a := newAdp(tt)
	mkUser(tt, a, uA)
	mkGrp(tt, a, "grpOne", uA, "old")
	t1, t2 := t0.Add(time.Minute), t0.Add(2*time.Minute)

	upd := map[string]any{"UpdatedAt": t1, "Public": "p"}
	must(tt, a.TopicUpdate("grpOne", upd))
	tr := a.Disk.Topics["grpOne"]
	if !tr.UpdatedAt.Equal(t1) || !tr.TouchedAt.Equal(t1) || string(tr.Public) != `"p"` {
		tt.Fatalf("UpdatedAt must be copied to TouchedAt: %+v", tr)
	}
	if _, ok := upd["TouchedAt"]; !ok {
		tt.Fatal("the adapter adds TouchedAt to the caller's map")
	}
	must(tt, a.TopicUpdate("grpOne", map[string]any{"UpdatedAt": t2, "TouchedAt": t1, "DelId": 4,
		"Access": t.DefaultAccess{Auth: t.ModeCReadOnly, Anon: t.ModeNone}, "Tags": t.StringSlice{"n1", "n2"}}))
	if !tr.UpdatedAt.Equal(t2) || !tr.TouchedAt.Equal(t1) || tr.DelId != 4 || tr.Access.Auth != t.ModeCReadOnly {
		tt.Fatalf("TopicUpdate: %+v", tr)
	}
	eq(tt, "tag index", a.Disk.TopicTags["grpOne"], []string{"n1", "n2"})

	before := a.Disk.Dump()
	wantErr(tt, a.TopicUpdate("grpOne", map[string]any{"DelId": 5, "Tags": t.StringSlice{"d", "d"}}), t.ErrDuplicate)
	wantRawErr(tt, a.TopicUpdate("grpOne", map[string]any{"Bogus": 1}))
	wantRawErr(tt, a.TopicUpdate("grpMissing", map[string]any{"Tags": t.StringSlice{"d"}}))
	must(tt, a.TopicUpdate("grpMissing", map[string]any{"DelId": 5}))
	if a.Disk.Dump() != before {
		tt.Fatal("failed TopicUpdate left a partial effect")
	}

	// TopicUpdateOnMessage is unconditional: it can move seqid backwards.
	msg := &t.Message{SeqId: 7}
	msg.CreatedAt = t2
	must(tt, a.TopicUpdateOnMessage("grpOne", msg))
	msg.SeqId = 3
	msg.CreatedAt = t1
	must(tt, a.TopicUpdateOnMessage("grpOne", msg))
	if tr.SeqId != 3 || !tr.TouchedAt.Equal(t1) {
		tt.Fatalf("TopicUpdateOnMessage: %+v", tr)
	}
	must(tt, a.TopicUpdateOnMessage("grpMissing", msg))
}

func TestTopicDelete(tt *testing.T) {
	a := newAdp(tt)
	mkUser(tt, a, uA)
	mkUser(tt, a, uB)
	mkGrp(tt, a, "grpChan", uA, "tag")
	mkGrp(tt, a, "grpKeep", uA)
	must(tt, a.TopicShare([]*t.Subscription{
		mkSub("chnChan", uB, t.ModeCChnReader, t.ModeCChnReader, nil),
		mkSub("grpKeep", uB, t.ModeCPublic, t.ModeCPublic, nil),
	}))
	mkMsg(tt, a, "grpChan", uA, 1, "m")
	mkMsg(tt, a, "grpKeep", uA, 1, "m")
	must(tt, a.MessageDeleteList("grpChan", &t.DelMessage{DelId: 1, DeletedFor: uA.String(), SeqIdRanges: []t.Range{{Low: 1}}}))

	// Soft: isChan=false leaves the chn subscription alone.
	must(tt, a.TopicDelete("grpChan", false, false))
	if a.Disk.Subs[SubKey("chnChan", uB)].DeletedAt != nil || a.Disk.Subs[SubKey("grpChan", uA)].DeletedAt == nil {
		tt.Fatal("soft delete without isChan")
	}
	must(tt, a.TopicDelete("grpChan", true, false))
	if a.Disk.Subs[SubKey("chnChan", uB)].DeletedAt == nil || a.Disk.Topics["grpChan"].State != t.StateDeleted {
		tt.Fatal("soft delete with isChan")
	}
	eq(tt, "messages kept", len(a.Disk.Messages["grpChan"]), 1)

	// Hard.
	must(tt, a.TopicDelete("grpChan", true, true))
	if a.Disk.Topics["grpChan"] != nil || a.Disk.Messages["grpChan"] != nil || a.Disk.TopicTags["grpChan"] != nil ||
		a.Disk.Subs[SubKey("chnChan", uB)] != nil || a.Disk.Subs[SubKey("grpChan", uA)] != nil || len(a.Disk.Dellog) != 0 {
		tt.Fatal("hard delete must remove everything:\n" + a.Disk.Dump())
	}
	if a.Disk.Topics["grpKeep"] == nil || len(a.Disk.Messages["grpKeep"]) != 1 || a.Disk.Subs[SubKey("grpKeep", uB)] == nil {
		tt.Fatal("other topics must stay")
	}
	must(tt, a.TopicDelete("grpMissing", false, true))
}
