// Package simdb is an in-memory implementation of the tinode database adapter.
//
// It is the "simulated disk" of the deterministic simulator: all persistent state lives in a
// Disk object with exported fields, every adapter method is a single atomic transaction against
// the Disk, and every data method can be observed and faulted through Hooks.
//
// The behaviour is read off server/db/mysql/adapter.go method by method (SQL included).
package simdb

import (
	"encoding/json"
	"errors"
	"sync"
	"time"

	adapter "github.com/tinode/chat/server/db"
)

const (
	// Same schema version as the MySQL adapter.
	adpVersion = 113

	adapterName = "simdb"

	defaultMaxResults = 1024
	// This is capped by the Session's send queue limit (128).
	defaultMaxMessageResults = 100
)

// Compile-time check that the adapter implements the interface.
var _ adapter.Adapter = (*Adapter)(nil)

// ErrClosed is returned by every data method when the adapter is not open.
var ErrClosed = errors.New("simdb: adapter is not open")

// DiskEpoch is the creation timestamp given to the rows which NewDisk pre-creates (the 'sys' topic).
// It is a fixed value rather than the current time so that NewDisk() is deterministic no matter
// which clock (real or simulated) is active when it is called.
var DiskEpoch = time.Date(2020, time.January, 1, 0, 0, 0, 0, time.UTC)

// Hooks let the simulator observe and fault every call.
type Hooks struct {
	// Before is called at entry of every data method (everything except
	// Open/Close/IsOpen/GetName/Version/Stats/SetMaxResults/GetDbVersion/CheckDbVersion/CreateDb/UpgradeDb)
	// with the method name (exactly the interface method name, e.g. "TopicUpdateOnMessage") and its
	// arguments in order (variadic parameters are passed as one slice argument).
	// If it returns a non-nil error, the method returns that error (with zero values) WITHOUT touching the Disk.
	// It is called without the adapter lock held, so it may block/yield.
	Before func(method string, args ...any) error
	// After is called immediately before the method returns, with the error it is about to return
	// (also on the injected-error path). It is called without the adapter lock held.
	After func(method string, err error)
}

// Adapter is the in-memory database adapter.
type Adapter struct {
	// Disk holds all persistent state. It is swapped by the harness between runs; never nil after New().
	Disk *Disk
	// Hooks are the observation and fault injection points.
	Hooks Hooks
	// MaxResults is the value set by SetMaxResults (default 1024 like MySQL defaultMaxResults).
	// MaxMessageResults is the cap on MessageGetAll results (default 100, MySQL defaultMaxMessageResults).
	MaxResults, MaxMessageResults int
	// CoarseTime, when true, rounds the values of the columns which MySQL declares as DATETIME without
	// fractional seconds (users.lastseen, devices.lastseen, auth.expires) to whole seconds the way MySQL does.
	// Default false: millisecond precision everywhere (what the Postgres adapter does).
	CoarseTime bool

	mu   sync.Mutex
	open bool
}

// New creates a closed adapter with a fresh Disk.
func New() *Adapter {
	return &Adapter{
		Disk:              NewDisk(),
		MaxResults:        defaultMaxResults,
		MaxMessageResults: defaultMaxMessageResults,
	}
}

// call runs one data method: Before hook, then the body under the adapter lock, then After hook.
func (a *Adapter) call(method string, args []any, body func(d *Disk) error) error {
	if before := a.Hooks.Before; before != nil {
		if err := before(method, args...); err != nil {
			if after := a.Hooks.After; after != nil {
				after(method, err)
			}
			return err
		}
	}
	err := a.locked(body)
	if after := a.Hooks.After; after != nil {
		after(method, err)
	}
	return err
}

func (a *Adapter) locked(body func(d *Disk) error) error {
	a.mu.Lock()
	defer a.mu.Unlock()
	if !a.open {
		return ErrClosed
	}
	if a.Disk == nil {
		a.Disk = NewDisk()
	}
	return body(a.Disk)
}

// maxResults returns effective limit on the number of results. Must be called with the lock held.
func (a *Adapter) maxResults() int {
	if a.MaxResults <= 0 {
		return defaultMaxResults
	}
	return a.MaxResults
}

// maxMessageResults returns effective limit on the number of messages. Must be called with the lock held.
func (a *Adapter) maxMessageResults() int {
	if a.MaxMessageResults <= 0 {
		return defaultMaxMessageResults
	}
	return a.MaxMessageResults
}

// coarse converts time to the precision of a MySQL DATETIME column (no fractional seconds) if so configured.
func (a *Adapter) coarse(tm time.Time) time.Time {
	if a.CoarseTime {
		return tm.UTC().Round(time.Second)
	}
	return normTime(tm)
}

// Open marks the adapter as open. The config is ignored.
func (a *Adapter) Open(config json.RawMessage) error {
	a.mu.Lock()
	defer a.mu.Unlock()
	if a.open {
		return errors.New("simdb adapter is already connected")
	}
	if a.Disk == nil {
		a.Disk = NewDisk()
	}
	if a.MaxResults <= 0 {
		a.MaxResults = defaultMaxResults
	}
	if a.MaxMessageResults <= 0 {
		a.MaxMessageResults = defaultMaxMessageResults
	}
	a.open = true
	return nil
}

// Close marks the adapter as closed. The Disk is kept.
func (a *Adapter) Close() error {
	a.mu.Lock()
	defer a.mu.Unlock()
	a.open = false
	return nil
}

// IsOpen checks if the adapter is open.
func (a *Adapter) IsOpen() bool {
	a.mu.Lock()
	defer a.mu.Unlock()
	return a.open
}

// GetDbVersion returns current database version: always the adapter version.
func (a *Adapter) GetDbVersion() (int, error) {
	return adpVersion, nil
}

// CheckDbVersion checks whether the actual DB version matches the expected version of this adapter.
func (a *Adapter) CheckDbVersion() error {
	return nil
}

// GetName returns string that adapter uses to register itself with store.
func (a *Adapter) GetName() string {
	return adapterName
}

// SetMaxResults configures how many results can be returned in a single DB call.
func (a *Adapter) SetMaxResults(val int) error {
	a.mu.Lock()
	defer a.mu.Unlock()
	if val <= 0 {
		a.MaxResults = defaultMaxResults
	} else {
		a.MaxResults = val
	}
	return nil
}

// CreateDb initializes the storage. If reset is true the Disk is replaced with a fresh one.
func (a *Adapter) CreateDb(reset bool) error {
	a.mu.Lock()
	defer a.mu.Unlock()
	if reset || a.Disk == nil {
		a.Disk = NewDisk()
	}
	return nil
}

// UpgradeDb upgrades the database, if necessary. It's never necessary.
func (a *Adapter) UpgradeDb() error {
	return nil
}

// Version returns adapter version.
func (a *Adapter) Version() int {
	return adpVersion
}

// Stats returns DB connection stats object: there is none.
func (a *Adapter) Stats() any {
	return nil
}
