package simdb

import (
	"errors"
	"fmt"
	"sort"
	"strings"
	"time"

	"github.com/tinode/chat/server/auth"
	t "github.com/tinode/chat/server/store/types"
)

func errForeignKey(table, key string) error {
	return fmt.Errorf("simdb: Cannot add or update a child row: a foreign key constraint fails (%s -> %s)", table, key)
}

func errDupEntry(table, key string) error {
	return fmt.Errorf("simdb: Duplicate entry for key '%s.%s'", table, key)
}

// errEmptyQuery is what happens when sqlx.In is given an empty list: the query text becomes empty.
var errEmptyQuery = errors.New("simdb: Query was empty")

// userFromRow converts a DB row to a user object. Nothing in the result aliases the row.
func userFromRow(r *UserRow) t.User {
	var user t.User
	user.SetUid(r.Id)
	user.CreatedAt = r.CreatedAt
	user.UpdatedAt = r.UpdatedAt
	user.State = r.State
	user.StateAt = cpTimePtr(r.StateAt)
	user.Access = r.Access
	user.LastSeen = cpTimePtr(r.LastSeen)
	user.UserAgent = r.UserAgent
	user.Public = fromJSON(r.Public)
	user.Trusted = fromJSON(r.Trusted)
	user.Tags = t.StringSlice(cpStrings(r.Tags))
	return user
}

// UserCreate creates a new user.
func (a *Adapter) UserCreate(user *t.User) error {
	return a.call("UserCreate", []any{user}, func(d *Disk) error {
		uid := user.Uid()
		if _, ok := d.Users[uid]; ok {
			// Not converted to ErrDuplicate by the SQL adapter.
			return errDupEntry("users", "PRIMARY")
		}
		if user.Access.Auth.IsInvalid() || user.Access.Anon.IsInvalid() {
			return errors.New("AccessMode invalid")
		}
		// Save user's tags to a separate table to make user findable.
		if hasDupStrings(user.Tags) {
			return t.ErrDuplicate
		}

		d.AutoInc.Users++
		d.Users[uid] = &UserRow{
			Seq:       d.AutoInc.Users,
			Id:        uid,
			CreatedAt: normTime(user.CreatedAt),
			UpdatedAt: normTime(user.UpdatedAt),
			State:     user.State,
			Access:    normAccess(user.Access),
			Public:    toJSON(user.Public),
			Trusted:   toJSON(user.Trusted),
			Tags:      cpStrings(user.Tags),
		}
		setTags(d.UserTags, uid, user.Tags)
		return nil
	})
}

// AuthAddRecord adds user's authentication record.
func (a *Adapter) AuthAddRecord(uid t.Uid, scheme, unique string, authLvl auth.Level, secret []byte, expires time.Time) error {
	return a.call("AuthAddRecord", []any{uid, scheme, unique, authLvl, secret, expires}, func(d *Disk) error {
		var exp *time.Time
		if !expires.IsZero() {
			exp = timePtr(a.coarse(expires))
		}
		if secret == nil {
			// nil []byte is sent as NULL.
			return errNotNull("secret")
		}
		if _, ok := d.Auth[unique]; ok {
			return t.ErrDuplicate
		}
		for _, r := range d.Auth {
			if r.User == uid && r.Scheme == scheme {
				return t.ErrDuplicate
			}
		}
		if _, ok := d.Users[uid]; !ok {
			return errForeignKey("auth.userid", "users.id")
		}
		d.AutoInc.Auth++
		d.Auth[unique] = &AuthRow{
			Id:      d.AutoInc.Auth,
			Uname:   unique,
			User:    uid,
			Scheme:  scheme,
			AuthLvl: authLvl,
			Secret:  cpBytes(secret),
			Expires: exp,
		}
		return nil
	})
}

// AuthDelScheme deletes an existing authentication scheme for the user.
func (a *Adapter) AuthDelScheme(user t.Uid, scheme string) error {
	return a.call("AuthDelScheme", []any{user, scheme}, func(d *Disk) error {
		for key, r := range d.Auth {
			if r.User == user && r.Scheme == scheme {
				delete(d.Auth, key)
			}
		}
		return nil
	})
}

// AuthDelAllRecords deletes all authentication records for the user.
func (a *Adapter) AuthDelAllRecords(user t.Uid) (int, error) {
	count := 0
	err := a.call("AuthDelAllRecords", []any{user}, func(d *Disk) error {
		for key, r := range d.Auth {
			if r.User == user {
				delete(d.Auth, key)
				count++
			}
		}
		return nil
	})
	return count, err
}

// AuthUpdRecord updates user's authentication unique, secret, auth level.
func (a *Adapter) AuthUpdRecord(uid t.Uid, scheme, unique string, authLvl auth.Level, secret []byte, expires time.Time) error {
	return a.call("AuthUpdRecord", []any{uid, scheme, unique, authLvl, secret, expires}, func(d *Disk) error {
		var row *AuthRow
		for _, r := range d.Auth {
			if r.User == uid && r.Scheme == scheme {
				row = r
				break
			}
		}
		if row == nil {
			return t.ErrNotFound
		}

		upd := *row
		upd.AuthLvl = authLvl
		if unique != "" {
			upd.Uname = unique
		}
		if len(secret) > 0 {
			upd.Secret = cpBytes(secret)
		}
		if !expires.IsZero() {
			upd.Expires = timePtr(a.coarse(expires))
		}

		if upd.Uname != row.Uname {
			if _, ok := d.Auth[upd.Uname]; ok {
				return t.ErrDuplicate
			}
		}

		// MySQL reports the number of rows actually changed, not matched: an update which
		// changes nothing is reported by the SQL adapter as 'not found'.
		changed := upd.AuthLvl != row.AuthLvl || upd.Uname != row.Uname || string(upd.Secret) != string(row.Secret) ||
			(upd.Expires == nil) != (row.Expires == nil) ||
			(upd.Expires != nil && !upd.Expires.Equal(*row.Expires))
		if !changed {
			return t.ErrNotFound
		}

		if upd.Uname != row.Uname {
			delete(d.Auth, row.Uname)
			d.Auth[upd.Uname] = row
		}
		*row = upd
		return nil
	})
}

// AuthGetRecord retrieves user's authentication record.
func (a *Adapter) AuthGetRecord(uid t.Uid, scheme string) (string, auth.Level, []byte, time.Time, error) {
	var uname string
	var lvl auth.Level
	var secret []byte
	var expires time.Time
	err := a.call("AuthGetRecord", []any{uid, scheme}, func(d *Disk) error {
		for _, r := range d.Auth {
			if r.User == uid && r.Scheme == scheme {
				uname = r.Uname
				lvl = r.AuthLvl
				secret = append([]byte{}, r.Secret...)
				if r.Expires != nil {
					expires = *r.Expires
				}
				return nil
			}
		}
		// Nothing found - use standard error.
		return t.ErrNotFound
	})
	return uname, lvl, secret, expires, err
}

// AuthGetUniqueRecord retrieves user's authentication record by the unique name.
func (a *Adapter) AuthGetUniqueRecord(unique string) (t.Uid, auth.Level, []byte, time.Time, error) {
	var uid t.Uid
	var lvl auth.Level
	var secret []byte
	var expires time.Time
	err := a.call("AuthGetUniqueRecord", []any{unique}, func(d *Disk) error {
		r, ok := d.Auth[unique]
		if !ok {
			// Nothing found - clear the error
			return nil
		}
		uid = r.User
		lvl = r.AuthLvl
		secret = append([]byte{}, r.Secret...)
		if r.Expires != nil {
			expires = *r.Expires
		}
		return nil
	})
	return uid, lvl, secret, expires, err
}

// UserGet fetches a single user by user id. If user is not found it returns (nil, nil)
func (a *Adapter) UserGet(uid t.Uid) (*t.User, error) {
	var res *t.User
	err := a.call("UserGet", []any{uid}, func(d *Disk) error {
		r, ok := d.Users[uid]
		if !ok || r.State == t.StateDeleted {
			// Clear the error if user does not exist or marked as soft-deleted.
			return nil
		}
		user := userFromRow(r)
		res = &user
		return nil
	})
	return res, err
}

// UserGetAll returns user records for a given list of user IDs.
func (a *Adapter) UserGetAll(ids ...t.Uid) ([]t.User, error) {
	var res []t.User
	err := a.call("UserGetAll", []any{ids}, func(d *Disk) error {
		if len(ids) == 0 {
			return errEmptyQuery
		}
		want := make(map[t.Uid]struct{}, len(ids))
		for _, id := range ids {
			want[id] = struct{}{}
		}
		users := []t.User{}
		for _, r := range d.usersSorted() {
			if _, ok := want[r.Id]; !ok || r.State == t.StateDeleted {
				continue
			}
			users = append(users, userFromRow(r))
		}
		res = users
		return nil
	})
	return res, err
}

// UserDelete deletes specified user: wipes completely (hard-delete) or marks as deleted.
func (a *Adapter) UserDelete(uid t.Uid, hard bool) error {
	return a.call("UserDelete", []any{uid, hard}, func(d *Disk) error {
		now := t.TimeNow()

		// Names of topics where the user is the owner.
		owned := make(map[string]struct{})
		for name, tr := range d.Topics {
			if tr.Owner == uid {
				owned[name] = struct{}{}
			}
		}

		if hard {
			// Delete user's devices.
			deviceDelete(d, uid, "")

			// Delete user's subscriptions in all topics.
			subsDelForUser(d, uid, true)

			// Delete records of messages soft-deleted for the user.
			d.dropDellog(func(l *DellogRow) bool { return l.DeletedFor == uid })

			// Delete topics where the user is the owner.

			// First delete all messages in those topics.
			d.dropDellog(func(l *DellogRow) bool {
				_, ok := owned[l.Topic]
				return ok
			})
			for name := range owned {
				d.dropMessages(name)
			}

			// Delete all subscriptions.
			for key, s := range d.Subs {
				if _, ok := owned[s.Topic]; ok {
					delete(d.Subs, key)
				}
			}

			// Delete topic tags.
			for name := range owned {
				delete(d.TopicTags, name)
			}

			// And finally delete the topics (filemsglinks by ON DELETE CASCADE).
			for name := range owned {
				delete(d.Topics, name)
			}
			d.dropFileLinks(func(l *FileLinkRow) bool {
				_, ok := owned[l.Topic]
				return l.Topic != "" && ok
			})

			// Delete user's authentication records.
			for key, r := range d.Auth {
				if r.User == uid {
					delete(d.Auth, key)
				}
			}

			// Delete all credentials.
			credDelAll(d, uid)

			delete(d.UserTags, uid)

			if _, ok := d.Users[uid]; ok {
				delete(d.Users, uid)
				// filemsglinks by ON DELETE CASCADE.
				d.dropFileLinks(func(l *FileLinkRow) bool { return !l.User.IsZero() && l.User == uid })
			}
		} else {
			// Disable all user's subscriptions. That includes p2p subscriptions. No need to delete them.
			subsDelForUser(d, uid, false)

			// Disable all subscriptions to topics where the user is the owner.
			for _, s := range d.Subs {
				if _, ok := owned[s.Topic]; ok {
					s.UpdatedAt = now
					s.DeletedAt = timePtr(now)
				}
			}
			// Disable group topics where the user is the owner.
			for name := range owned {
				tr := d.Topics[name]
				tr.UpdatedAt = now
				tr.TouchedAt = now
				tr.State = t.StateDeleted
				tr.StateAt = timePtr(now)
			}
			// Disable p2p topics with the user (p2p topic's owner is 0).
			for _, s := range d.Subs {
				if s.User != uid {
					continue
				}
				if tr, ok := d.Topics[s.Topic]; ok && tr.Owner.IsZero() {
					tr.UpdatedAt = now
					tr.TouchedAt = now
					tr.State = t.StateDeleted
					tr.StateAt = timePtr(now)
				}
			}
			// Disable the other user's subscription to a disabled p2p topic.
			p2p := make(map[string]struct{})
			for _, s := range d.Subs {
				if s.User == uid && strings.HasPrefix(s.Topic, "p2p") {
					p2p[s.Topic] = struct{}{}
				}
			}
			for _, s := range d.Subs {
				if _, ok := p2p[s.Topic]; ok {
					s.UpdatedAt = now
					s.DeletedAt = timePtr(now)
				}
			}

			// Disable user.
			if ur, ok := d.Users[uid]; ok {
				ur.UpdatedAt = now
				ur.State = t.StateDeleted
				ur.StateAt = timePtr(now)
			}
		}
		return nil
	})
}

// topicStateForUser is called by UserUpdate when the update contains state change.
func topicStateForUser(d *Disk, uid t.Uid, now time.Time, state t.ObjState) {
	if now.IsZero() {
		now = t.TimeNow()
	}
	now = normTime(now)

	// Change state of all topics where the user is the owner.
	for _, tr := range d.Topics {
		if tr.Owner == uid && tr.State != t.StateDeleted {
			tr.State = state
			tr.StateAt = timePtr(now)
		}
	}

	// Change state of p2p topics with the user (p2p topic's owner is 0)
	for _, s := range d.Subs {
		if s.User != uid {
			continue
		}
		if tr, ok := d.Topics[s.Topic]; ok && tr.Owner.IsZero() && tr.State != t.StateDeleted {
			tr.State = state
			tr.StateAt = timePtr(now)
		}
	}

	// Subscriptions don't need to be updated:
	// subscriptions of a disabled user are not disabled and still can be manipulated.
}

// UserUpdate updates user object.
func (a *Adapter) UserUpdate(uid t.Uid, update map[string]any) error {
	return a.call("UserUpdate", []any{uid, update}, func(d *Disk) error {
		// Validate everything first, then apply.
		setters, err := a.userSetters(update)
		if err != nil {
			return err
		}

		var newState t.ObjState
		stateVal, withState := update["State"]
		if withState {
			var ok bool
			if newState, ok = stateVal.(t.ObjState); !ok {
				return t.ErrMalformed
			}
		}

		// Tags are also stored in a separate table
		tags := extractTags(update)
		if tags != nil {
			if _, ok := d.Users[uid]; !ok && len(tags) > 0 {
				return errForeignKey("usertags.userid", "users.id")
			}
			if hasDupStrings(tags) {
				return t.ErrDuplicate
			}
		}

		if r, ok := d.Users[uid]; ok {
			for _, set := range setters {
				set(r)
			}
		}

		if withState {
			now, _ := update["StateAt"].(time.Time)
			topicStateForUser(d, uid, now, newState)
		}

		if tags != nil {
			// First delete all user tags, then insert new tags.
			setTags(d.UserTags, uid, tags)
		}
		return nil
	})
}

// UserUpdateTags adds or resets user's tags
func (a *Adapter) UserUpdateTags(uid t.Uid, add, remove, reset []string) ([]string, error) {
	var res []string
	err := a.call("UserUpdateTags", []any{uid, add, remove, reset}, func(d *Disk) error {
		current := cpStrings(d.UserTags[uid])
		if reset != nil {
			// Delete all tags first if resetting.
			current = nil
			add = reset
			remove = nil
		}

		// Now insert new tags. Ignore duplicates if not resetting.
		ignoreDups := reset == nil
		for _, tag := range add {
			if containsString(current, tag) {
				if ignoreDups {
					continue
				}
				return t.ErrDuplicate
			}
			if _, ok := d.Users[uid]; !ok {
				return errForeignKey("usertags.userid", "users.id")
			}
			current = append(current, tag)
		}

		// Delete tags.
		if len(remove) > 0 {
			var kept []string
			for _, tag := range current {
				if !containsString(remove, tag) {
					kept = append(kept, tag)
				}
			}
			current = kept
		}

		// The index (userid, tag) is covering for 'SELECT tag FROM usertags WHERE userid=?': sorted by tag.
		sort.Strings(current)
		var allTags []string
		if len(current) > 0 {
			allTags = current
		}

		setTags(d.UserTags, uid, allTags)
		if r, ok := d.Users[uid]; ok {
			r.Tags = cpStrings(allTags)
		}
		res = cpStrings(allTags)
		return nil
	})
	return res, err
}

// UserGetByCred returns user ID for the given validated credential.
func (a *Adapter) UserGetByCred(method, value string) (t.Uid, error) {
	var res t.Uid
	err := a.call("UserGetByCred", []any{method, value}, func(d *Disk) error {
		if r, ok := d.Credentials[method+":"+value]; ok {
			res = r.User
		}
		return nil
	})
	return res, err
}

// UserUnreadCount returns the total number of unread messages in all topics with
// the R permission.
func (a *Adapter) UserUnreadCount(ids ...t.Uid) (map[t.Uid]int, error) {
	var res map[t.Uid]int
	err := a.call("UserUnreadCount", []any{ids}, func(d *Disk) error {
		counts := make(map[t.Uid]int, len(ids))
		for _, id := range ids {
			// Ensure all original uids are always present.
			counts[id] = 0
		}
		res = counts
		if len(ids) == 0 {
			return errEmptyQuery
		}

		for _, s := range d.Subs {
			if _, ok := counts[s.User]; !ok {
				continue
			}
			tr, ok := d.Topics[s.Topic]
			if !ok || s.DeletedAt != nil || tr.State == t.StateDeleted ||
				!s.ModeWant.IsReader() || !s.ModeGiven.IsReader() {
				continue
			}
			counts[s.User] += tr.SeqId - s.ReadSeqId
		}
		return nil
	})
	return res, err
}

// UserGetUnvalidated returns a list of uids which have never logged in, have no
// validated credentials and haven't been updated since lastUpdatedBefore.
func (a *Adapter) UserGetUnvalidated(lastUpdatedBefore time.Time, limit int) ([]t.Uid, error) {
	var res []t.Uid
	err := a.call("UserGetUnvalidated", []any{lastUpdatedBefore, limit}, func(d *Disk) error {
		if limit < 0 {
			return errNegativeLimit
		}
		done := make(map[t.Uid]int)
		for _, c := range d.Credentials {
			if c.Done {
				done[c.User]++
			}
		}
		var rows []*UserRow
		// Sorted by primary key first so the stable sort below is deterministic for equal timestamps.
		for _, r := range d.usersSorted() {
			if r.LastSeen == nil && r.UpdatedAt.Before(lastUpdatedBefore) && done[r.Id] == 0 {
				rows = append(rows, r)
			}
		}
		sort.SliceStable(rows, func(i, j int) bool { return rows[i].UpdatedAt.Before(rows[j].UpdatedAt) })
		if len(rows) > limit {
			rows = rows[:limit]
		}
		var uids []t.Uid
		for _, r := range rows {
			uids = append(uids, r.Id)
		}
		res = uids
		return nil
	})
	return res, err
}
