package simdb

import (
	"errors"
	"reflect"
	"strings"
	"testing"
	"time"

	"github.com/tinode/chat/server/auth"
	t "github.com/tinode/chat/server/store/types"
)

// Test helpers.

var (
	uA = t.Uid(0x1111111111111111)
	uB = t.Uid(0x2222222222222222)
	uC = t.Uid(0x3333333333333333)
	uD = t.Uid(0x4444444444444444)
)

var t0 = time.Date(2025, time.January, 1, 12, 0, 0, 0, time.UTC)

func newAdp(tb testing.TB) *Adapter {
	tb.Helper()
	a := New()
	if err := a.Open(nil); err != nil {
		tb.Fatal(err)
	}
	return a
}

func must(tb testing.TB, err error) {
	tb.Helper()
	if err != nil {
		tb.Fatalf("unexpected error: %v", err)
	}
}

func wantErr(tb testing.TB, err, want error) {
	tb.Helper()
	if err != want {
		tb.Fatalf("error: got %v, want %v", err, want)
	}
}

// wantRawErr checks that the error is a non-sentinel one.
func wantRawErr(tb testing.TB, err error) {
	tb.Helper()
	if err == nil {
		tb.Fatal("expected an error, got nil")
	}
	var se t.StoreError
	if errors.As(err, &se) {
		tb.Fatalf("expected a raw error, got sentinel %v", err)
	}
}

func mkUser(tb testing.TB, a *Adapter, uid t.Uid, tags ...string) {
	tb.Helper()
	user := &t.User{
		Access: t.DefaultAccess{Auth: t.ModeCAuth, Anon: t.ModeNone},
		Public: map[string]any{"fn": "user-" + uid.String()},
		Tags:   tags,
	}
	user.SetUid(uid)
	user.CreatedAt = t0
	user.UpdatedAt = t0
	must(tb, a.UserCreate(user))
}

func mkSub(topic string, uid t.Uid, want, given t.AccessMode, private any) *t.Subscription {
	s := &t.Subscription{User: uid.String(), Topic: topic, ModeWant: want, ModeGiven: given, Private: private}
	s.CreatedAt = t0
	s.UpdatedAt = t0
	return s
}

func mkGrp(tb testing.TB, a *Adapter, name string, owner t.Uid, tags ...string) {
	tb.Helper()
	topic := &t.Topic{
		Access: t.DefaultAccess{Auth: t.ModeCPublic, Anon: t.ModeCReadOnly},
		Public: map[string]any{"fn": name},
		Tags:   tags,
		Owner:  owner.String(),
	}
	topic.Id = name
	topic.CreatedAt = t0
	topic.UpdatedAt = t0
	topic.TouchedAt = t0
	must(tb, a.TopicCreate(topic))
	if !owner.IsZero() {
		must(tb, a.TopicShare([]*t.Subscription{mkSub(name, owner, t.ModeCFull, t.ModeCFull, "owner-private")}))
	}
}

func mkP2P(tb testing.TB, a *Adapter, u1, u2 t.Uid) string {
	tb.Helper()
	name := u1.P2PName(u2)
	ini := mkSub(name, u1, t.ModeCP2P, t.ModeCP2P, "ini")
	ini.SetTouchedAt(t0)
	inv := mkSub(name, u2, t.ModeCP2P, t.ModeCP2P, "inv")
	must(tb, a.TopicCreateP2P(ini, inv))
	return name
}

func mkMsg(tb testing.TB, a *Adapter, topic string, from t.Uid, seq int, content any) *t.Message {
	tb.Helper()
	msg := &t.Message{SeqId: seq, Topic: topic, From: from.String(), Content: content,
		Head: t.MessageHeaders{"n": seq}}
	msg.CreatedAt = t0.Add(time.Duration(seq) * time.Second)
	msg.UpdatedAt = msg.CreatedAt
	must(tb, a.TopicUpdateOnMessage(topic, msg))
	must(tb, a.MessageSave(msg))
	return msg
}

func seqIds(msgs []t.Message) []int {
	ids := []int{}
	for _, m := range msgs {
		ids = append(ids, m.SeqId)
	}
	return ids
}

func subUsers(subs []t.Subscription) []string {
	out := []string{}
	for _, s := range subs {
		out = append(out, s.User)
	}
	return out
}

func subTopics(subs []t.Subscription) []string {
	out := []string{}
	for _, s := range subs {
		out = append(out, s.Topic)
	}
	return out
}

func eq(tb testing.TB, what string, got, want any) {
	tb.Helper()
	if !reflect.DeepEqual(got, want) {
		tb.Fatalf("%s: got %#v, want %#v", what, got, want)
	}
}

// Lifecycle, hooks, atomicity.

func TestLifecycle(tt *testing.T) {
	a := New()
	if a.IsOpen() {
		tt.Fatal("new adapter must be closed")
	}
	eq(tt, "name", a.GetName(), "simdb")
	eq(tt, "version", a.Version(), 113)
	if v, err := a.GetDbVersion(); v != 113 || err != nil {
		tt.Fatal("GetDbVersion", v, err)
	}
	must(tt, a.CheckDbVersion())
	if a.Stats() != nil {
		tt.Fatal("Stats must be nil")
	}
	_, err := a.UserGet(uA)
	wantErr(tt, err, ErrClosed)

	must(tt, a.Open([]byte(`{"whatever": 1}`)))
	if err := a.Open(nil); err == nil {
		tt.Fatal("double open must fail")
	}
	mkUser(tt, a, uA)
	disk := a.Disk
	must(tt, a.Close())
	if a.IsOpen() || a.Disk != disk {
		tt.Fatal("Close must keep the Disk")
	}
	must(tt, a.Open(nil))
	if u, err := a.UserGet(uA); err != nil || u == nil {
		tt.Fatal("user lost on restart", u, err)
	}

	must(tt, a.SetMaxResults(0))
	eq(tt, "default max results", a.MaxResults, 1024)
	must(tt, a.SetMaxResults(7))
	eq(tt, "max results", a.MaxResults, 7)
	eq(tt, "max message results", a.MaxMessageResults, 100)

	must(tt, a.CreateDb(false))
	if len(a.Disk.Users) != 1 {
		tt.Fatal("CreateDb(false) must keep the data")
	}
	must(tt, a.CreateDb(true))
	if len(a.Disk.Users) != 0 || a.Disk.Topics["sys"] == nil || a.Disk.KV["version"].Value != "113" {
		tt.Fatal("CreateDb(true) must produce a fresh disk with the 'sys' topic")
	}
	if NewDisk().Dump() != NewDisk().Dump() {
		tt.Fatal("NewDisk is not deterministic")
	}
}

func TestHooks(tt *testing.T) {
	a := newAdp(tt)
	var log []string
	var inject error
	a.Hooks.Before = func(method string, args ...any) error {
		log = append(log, "B:"+method)
		if method == "UserUnreadCount" {
			if ids, ok := args[0].([]t.Uid); !ok || len(ids) != 2 {
				tt.Errorf("variadic args must be passed as one slice: %#v", args)
			}
		}
		if method == "AuthAddRecord" && len(args) != 6 {
			tt.Errorf("AuthAddRecord args: %d", len(args))
		}
		return inject
	}
	a.Hooks.After = func(method string, err error) {
		s := "A:" + method
		if err != nil {
			s += ":" + err.Error()
		}
		log = append(log, s)
	}
	mkUser(tt, a, uA)
	must(tt, a.AuthAddRecord(uA, "basic", "basic:alice", auth.LevelAuth, []byte("x"), time.Time{}))
	if _, err := a.UserUnreadCount(uA, uB); err != nil {
		tt.Fatal(err)
	}
	before := a.Disk.Dump()

	inject = errors.New("injected")
	wantErr(tt, a.TopicUpdateOnMessage("sys", &t.Message{SeqId: 5}), inject)
	counts, err := a.UserUnreadCount(uA, uB)
	if err != inject || counts != nil {
		tt.Fatal("injected error must produce zero values", counts, err)
	}
	ins, err := a.CredUpsert(&t.Credential{User: uA.String(), Method: "email", Value: "a@b"})
	if err != inject || ins {
		tt.Fatal("injected error must produce zero values", ins, err)
	}
	usr := &t.User{}
	usr.SetUid(uB)
	wantErr(tt, a.UserCreate(usr), inject)
	if a.Disk.Dump() != before {
		tt.Fatal("injected errors must not touch the disk")
	}
	inject = nil
	_, _, _, _, err = a.AuthGetRecord(uB, "basic")
	wantErr(tt, err, t.ErrNotFound)

	want := []string{
		"B:UserCreate", "A:UserCreate", "B:AuthAddRecord", "A:AuthAddRecord",
		"B:UserUnreadCount", "A:UserUnreadCount",
		"B:TopicUpdateOnMessage", "A:TopicUpdateOnMessage:injected",
		"B:UserUnreadCount", "A:UserUnreadCount:injected",
		"B:CredUpsert", "A:CredUpsert:injected",
		"B:UserCreate", "A:UserCreate:injected",
		"B:AuthGetRecord", "A:AuthGetRecord:not found",
	}
	eq(tt, "hook log", log, want)
}

func TestCloneAndDump(tt *testing.T) {
	a := newAdp(tt)
	mkUser(tt, a, uA, "email:a@x")
	mkUser(tt, a, uB)
	mkGrp(tt, a, "grpOne", uA, "tag1")
	mkP2P(tt, a, uA, uB)
	mkMsg(tt, a, "grpOne", uA, 1, "hello")
	must(tt, a.DeviceUpsert(uA, &t.DeviceDef{DeviceId: "dev1", LastSeen: t0}))
	must(tt, a.PCacheUpsert("k", "v", false))

	c := a.Disk.Clone()
	if c.Dump() != a.Disk.Dump() {
		tt.Fatal("clone differs:\n" + c.Dump() + "\n---\n" + a.Disk.Dump())
	}
	// Mutations of the original must not leak into the clone.
	snapshot := c.Dump()
	must(tt, a.UserUpdate(uA, map[string]any{"Public": "changed", "LastSeen": t0, "Tags": t.StringSlice{"zzz"}}))
	must(tt, a.MessageDeleteList("grpOne", &t.DelMessage{DelId: 1, SeqIdRanges: []t.Range{{Low: 1}}}))
	must(tt, a.SubsUpdate("grpOne", uA, map[string]any{"Private": map[string]any{"x": 1}}))
	a.Disk.Users[uA].Tags[0] = "mutated"
	if c.Dump() != snapshot {
		tt.Fatal("clone is not deep")
	}
	if c.Dump() == a.Disk.Dump() {
		tt.Fatal("dump does not reflect changes")
	}
	if !strings.Contains(snapshot, `"grpOne"`) || !strings.Contains(snapshot, "== kvmeta") {
		tt.Fatal("dump lacks content:\n" + snapshot)
	}
}

func TestJSONRoundTripAndNoAliasing(tt *testing.T) {
	a := newAdp(tt)
	pub := map[string]any{"n": 7, "list": []int{1, 2}}
	user := &t.User{Public: pub, Trusted: nil, Tags: t.StringSlice{"a", "b"}}
	user.SetUid(uA)
	user.CreatedAt, user.UpdatedAt = t0, t0
	must(tt, a.UserCreate(user))
	// Caller mutates its objects after the call.
	pub["n"] = 8
	user.Tags[0] = "mutated"

	got, err := a.UserGet(uA)
	must(tt, err)
	eq(tt, "public", got.Public, map[string]any{"n": float64(7), "list": []any{float64(1), float64(2)}})
	if got.Trusted != nil {
		tt.Fatal("nil must stay nil")
	}
	eq(tt, "tags", got.Tags, t.StringSlice{"a", "b"})
	// Caller mutates the result.
	got.Public.(map[string]any)["n"] = 9
	got.Tags[1] = "mutated"
	again, _ := a.UserGet(uA)
	eq(tt, "public again", again.Public.(map[string]any)["n"], float64(7))
	eq(tt, "tags again", again.Tags, t.StringSlice{"a", "b"})

	// Typed nil and null.
	must(tt, a.UserUpdate(uA, map[string]any{"Public": nil, "Trusted": "str"}))
	again, _ = a.UserGet(uA)
	if again.Public != nil || again.Trusted != "str" {
		tt.Fatal("update of public/trusted", again.Public, again.Trusted)
	}
	if a.Disk.Users[uA].Public != nil {
		tt.Fatal("nil must be stored as NULL")
	}
}

// Users and auth.

func TestUserCreateErrors(tt *testing.T) {
	a := newAdp(tt)
	mkUser(tt, a, uA, "t1", "t2")
	before := a.Disk.Dump()

	dup := &t.User{}
	dup.SetUid(uA)
	wantRawErr(tt, a.UserCreate(dup))

	bad := &t.User{Tags: t.StringSlice{"x", "x"}}
	bad.SetUid(uB)
	wantErr(tt, a.UserCreate(bad), t.ErrDuplicate)
	if a.Disk.Dump() != before {
		tt.Fatal("failed UserCreate left a partial effect")
	}
	eq(tt, "tag index", a.Disk.UserTags[uA], []string{"t1", "t2"})
}

func TestAuthRecords(tt *testing.T) {
	a := newAdp(tt)
	mkUser(tt, a, uA)
	mkUser(tt, a, uB)
	exp := t0.Add(time.Hour)
	must(tt, a.AuthAddRecord(uA, "basic", "basic:alice", auth.LevelAuth, []byte("secret"), exp))
	wantErr(tt, a.AuthAddRecord(uB, "basic", "basic:alice", auth.LevelAuth, []byte("s"), exp), t.ErrDuplicate)
	wantErr(tt, a.AuthAddRecord(uA, "basic", "basic:alice2", auth.LevelAuth, []byte("s"), exp), t.ErrDuplicate)
	wantRawErr(tt, a.AuthAddRecord(uC, "basic", "basic:carol", auth.LevelAuth, []byte("s"), exp))
	wantRawErr(tt, a.AuthAddRecord(uB, "basic", "basic:bob", auth.LevelAuth, nil, exp))
	must(tt, a.AuthAddRecord(uB, "basic", "basic:bob", auth.LevelAnon, []byte("b"), time.Time{}))

	uid, lvl, secret, expires, err := a.AuthGetUniqueRecord("basic:alice")
	must(tt, err)
	if uid != uA || lvl != auth.LevelAuth || string(secret) != "secret" || !expires.Equal(exp) {
		tt.Fatal("AuthGetUniqueRecord", uid, lvl, secret, expires)
	}
	secret[0] = 'X'
	if string(a.Disk.Auth["basic:alice"].Secret) != "secret" {
		tt.Fatal("returned secret aliases the disk")
	}
	uid, _, _, expires, err = a.AuthGetUniqueRecord("basic:nobody")
	if err != nil || !uid.IsZero() || !expires.IsZero() {
		tt.Fatal("missing unique record must be zero uid, nil error")
	}
	_, _, _, expires, err = a.AuthGetRecord(uB, "basic")
	if err != nil || !expires.IsZero() {
		tt.Fatal("NULL expires must be zero time")
	}
	_, _, _, _, err = a.AuthGetRecord(uA, "token")
	wantErr(tt, err, t.ErrNotFound)

	// Update.
	wantErr(tt, a.AuthUpdRecord(uC, "basic", "basic:x", auth.LevelAuth, nil, time.Time{}), t.ErrNotFound)
	wantErr(tt, a.AuthUpdRecord(uA, "basic", "basic:bob", auth.LevelAuth, nil, time.Time{}), t.ErrDuplicate)
	// Nothing changes: MySQL reports zero affected rows which the adapter treats as not found.
	wantErr(tt, a.AuthUpdRecord(uA, "basic", "basic:alice", auth.LevelAuth, []byte("secret"), exp), t.ErrNotFound)
	must(tt, a.AuthUpdRecord(uA, "basic", "basic:alicia", auth.LevelRoot, nil, time.Time{}))
	uname, lvl, secret, expires, err := a.AuthGetRecord(uA, "basic")
	must(tt, err)
	if uname != "basic:alicia" || lvl != auth.LevelRoot || string(secret) != "secret" || !expires.Equal(exp) {
		tt.Fatal("AuthUpdRecord must update only non-default values", uname, lvl, string(secret), expires)
	}
	if _, ok := a.Disk.Auth["basic:alice"]; ok {
		tt.Fatal("old uname must be gone")
	}

	must(tt, a.AuthDelScheme(uA, "nosuch"))
	must(tt, a.AuthDelScheme(uA, "basic"))
	n, err := a.AuthDelAllRecords(uA)
	if n != 0 || err != nil {
		tt.Fatal("AuthDelAllRecords", n, err)
	}
	n, _ = a.AuthDelAllRecords(uB)
	eq(tt, "deleted count", n, 1)
}

func TestUserGetAllAndDeletedState(tt *testing.T) {
	a := newAdp(tt)
	mkUser(tt, a, uC)
	mkUser(tt, a, uA)
	mkUser(tt, a, uB)
	_, err := a.UserGetAll()
	wantRawErr(tt, err)

	users, err := a.UserGetAll(uA, uB, uC, uD, uA)
	must(tt, err)
	// Primary key (insertion) order.
	eq(tt, "order", []t.Uid{users[0].Uid(), users[1].Uid(), users[2].Uid()}, []t.Uid{uC, uA, uB})
	eq(tt, "count", len(users), 3)

	must(tt, a.UserDelete(uA, false))
	users, _ = a.UserGetAll(uA, uB)
	eq(tt, "soft-deleted hidden", len(users), 1)
	if u, _ := a.UserGet(uA); u != nil {
		tt.Fatal("soft-deleted user must be hidden")
	}
	if u, _ := a.UserGet(uD); u != nil {
		tt.Fatal("missing user must be nil, nil")
	}
	users, err = a.UserGetAll(uD)
	if err != nil || users == nil || len(users) != 0 {
		tt.Fatal("no match must be an empty non-nil slice")
	}
}

func TestUserUpdateMap(tt *testing.T) {
	a := newAdp(tt)
	mkUser(tt, a, uA, "old")
	mkUser(tt, a, uB)
	mkGrp(tt, a, "grpOwned", uA)
	mkGrp(tt, a, "grpDeleted", uA)
	must(tt, a.TopicDelete("grpDeleted", false, false))
	mkGrp(tt, a, "grpOther", uB)
	p2p := mkP2P(tt, a, uA, uB)

	wantRawErr(tt, a.UserUpdate(uA, map[string]any{}))
	wantRawErr(tt, a.UserUpdate(uA, map[string]any{"Devices": 1}))
	wantRawErr(tt, a.UserUpdate(uA, map[string]any{"Tags": []string{"x"}}))
	wantRawErr(tt, a.UserUpdate(uA, map[string]any{"UpdatedAt": "yesterday"}))

	before := a.Disk.Dump()
	// State must be ObjState; the users row update is rolled back.
	wantErr(tt, a.UserUpdate(uA, map[string]any{"State": 10, "UserAgent": "ua"}), t.ErrMalformed)
	wantErr(tt, a.UserUpdate(uA, map[string]any{"Tags": t.StringSlice{"x", "x"}, "UserAgent": "ua"}), t.ErrDuplicate)
	if a.Disk.Dump() != before {
		tt.Fatal("failed UserUpdate left a partial effect")
	}

	t1 := t0.Add(time.Minute)
	must(tt, a.UserUpdate(uA, map[string]any{
		"LastSeen": t1, "UserAgent": "agent", "UpdatedAt": t1,
		"Access": t.DefaultAccess{Auth: t.ModeCP2P, Anon: t.ModeNone},
		"Public": map[string]any{"fn": "A"}, "Trusted": nil,
		"Tags": t.StringSlice{"new1", "new2"},
	}))
	u, _ := a.UserGet(uA)
	if !u.LastSeen.Equal(t1) || u.UserAgent != "agent" || !u.UpdatedAt.Equal(t1) || u.Access.Auth != t.ModeCP2P {
		tt.Fatalf("UserUpdate: %+v", u)
	}
	eq(tt, "tags column", u.Tags, t.StringSlice{"new1", "new2"})
	eq(tt, "tags index", a.Disk.UserTags[uA], []string{"new1", "new2"})

	// State change cascades to owned and p2p topics, but not to deleted ones.
	t2 := t0.Add(2 * time.Minute)
	must(tt, a.UserUpdate(uA, map[string]any{"State": t.StateSuspended, "StateAt": t2}))
	eq(tt, "user state", a.Disk.Users[uA].State, t.StateSuspended)
	eq(tt, "owned", a.Disk.Topics["grpOwned"].State, t.StateSuspended)
	if !a.Disk.Topics["grpOwned"].StateAt.Equal(t2) {
		tt.Fatal("stateat")
	}
	eq(tt, "p2p", a.Disk.Topics[p2p].State, t.StateSuspended)
	eq(tt, "deleted stays", a.Disk.Topics["grpDeleted"].State, t.StateDeleted)
	eq(tt, "other", a.Disk.Topics["grpOther"].State, t.StateOK)

	// Missing user: no error, no effect; but tags fail on the foreign key.
	must(tt, a.UserUpdate(uD, map[string]any{"UserAgent": "x"}))
	wantRawErr(tt, a.UserUpdate(uD, map[string]any{"Tags": t.StringSlice{"x"}}))

	// Empty non-nil tags wipe the index, nil StringSlice does not touch it.
	must(tt, a.UserUpdate(uA, map[string]any{"Tags": t.StringSlice(nil)}))
	eq(tt, "index kept", a.Disk.UserTags[uA], []string{"new1", "new2"})
	must(tt, a.UserUpdate(uA, map[string]any{"Tags": t.StringSlice{}}))
	if _, ok := a.Disk.UserTags[uA]; ok {
		tt.Fatal("index must be wiped")
	}
}

func TestUserUpdateTags(tt *testing.T) {
	a := newAdp(tt)
	mkUser(tt, a, uA, "b", "a")
	tags, err := a.UserUpdateTags(uA, []string{"c", "a"}, []string{"b"}, nil)
	must(tt, err)
	eq(tt, "add/remove", tags, []string{"a", "c"})
	eq(tt, "column", a.Disk.Users[uA].Tags, []string{"a", "c"})

	before := a.Disk.Dump()
	_, err = a.UserUpdateTags(uA, nil, nil, []string{"x", "x"})
	wantErr(tt, err, t.ErrDuplicate)
	if a.Disk.Dump() != before {
		tt.Fatal("failed reset left a partial effect")
	}

	tags, err = a.UserUpdateTags(uA, []string{"ignored"}, []string{"z"}, []string{"z", "y"})
	must(tt, err)
	eq(tt, "reset", tags, []string{"y", "z"})

	tags, err = a.UserUpdateTags(uA, nil, nil, []string{})
	must(tt, err)
	if tags != nil || a.Disk.Users[uA].Tags != nil {
		tt.Fatal("empty reset must produce nil")
	}
	_, err = a.UserUpdateTags(uD, []string{"x"}, nil, nil)
	wantRawErr(tt, err)
}
