package simdb

import (
	"sort"
	"strings"

	t "github.com/tinode/chat/server/store/types"
)

// tagMatcher implements the tag query shared by FindUsers and FindTopics:
//
//	WHERE tag IN (all required and optional tags) GROUP BY object
//	HAVING COUNT(tag IN (required group) OR NULL)>=1 [AND ...]
//
// It returns the number of matching rows of the tag index (COUNT(*)) or 0 if the object does not qualify.
type tagMatcher struct {
	index map[string]struct{}
	req   [][]string
}

func newTagMatcher(req [][]string, opt []string) *tagMatcher {
	allReq := t.FlattenDoubleSlice(req)
	// Same as the SQL adapter: panics (negative Repeat count) when there are no tags at all.
	_ = strings.Repeat(",?", len(allReq)+len(opt)-1)

	index := make(map[string]struct{})
	for _, tag := range allReq {
		index[tag] = struct{}{}
	}
	for _, tag := range opt {
		index[tag] = struct{}{}
	}
	return &tagMatcher{index: index, req: req}
}

func (tm *tagMatcher) matches(tags []string) int {
	count := 0
	for _, tag := range tags {
		if _, ok := tm.index[tag]; ok {
			count++
		}
	}
	if count == 0 {
		return 0
	}
	for _, reqDisjunction := range tm.req {
		if len(reqDisjunction) == 0 {
			continue
		}
		// At least one of the tags must be present.
		found := false
		for _, tag := range reqDisjunction {
			if containsString(tags, tag) {
				found = true
				break
			}
		}
		if !found {
			return 0
		}
	}
	return count
}

func (tm *tagMatcher) foundTags(tags []string) []string {
	foundTags := make([]string, 0, 1)
	for _, tag := range tags {
		if _, ok := tm.index[tag]; ok {
			foundTags = append(foundTags, tag)
		}
	}
	return foundTags
}

// FindUsers returns a list of users who match given tags, such as "email:jdoe@example.com" or "tel:+18003287448".
func (a *Adapter) FindUsers(uid t.Uid, req [][]string, opt []string, activeOnly bool) ([]t.Subscription, error) {
	var res []t.Subscription
	err := a.call("FindUsers", []any{uid, req, opt, activeOnly}, func(d *Disk) error {
		tm := newTagMatcher(req, opt)

		type hit struct {
			row     *UserRow
			matches int
		}
		var hits []hit
		// Rows in the primary key order, then a stable sort: ties are ordered by primary key.
		for _, r := range d.usersSorted() {
			if activeOnly && r.State != t.StateOK {
				continue
			}
			if m := tm.matches(d.UserTags[r.Id]); m > 0 {
				hits = append(hits, hit{r, m})
			}
		}
		// Get users matched by tags, sort by number of matches from high to low.
		sort.SliceStable(hits, func(i, j int) bool { return hits[i].matches > hits[j].matches })
		if limit := a.maxResults(); len(hits) > limit {
			hits = hits[:limit]
		}

		var subs []t.Subscription
		for _, h := range hits {
			if h.row.Id == uid {
				// Skip the callee
				continue
			}
			var sub t.Subscription
			sub.CreatedAt = h.row.CreatedAt
			sub.UpdatedAt = h.row.UpdatedAt
			sub.User = h.row.Id.String()
			sub.SetPublic(fromJSON(h.row.Public))
			sub.SetTrusted(fromJSON(h.row.Trusted))
			sub.SetDefaultAccess(h.row.Access.Auth, h.row.Access.Anon)
			// Matched tags are taken from the 'tags' column of the users table.
			sub.Private = tm.foundTags(h.row.Tags)
			subs = append(subs, sub)
		}
		res = subs
		return nil
	})
	return res, err
}

// FindTopics returns a list of topics with matching tags.
func (a *Adapter) FindTopics(req [][]string, opt []string, activeOnly bool) ([]t.Subscription, error) {
	var res []t.Subscription
	err := a.call("FindTopics", []any{req, opt, activeOnly}, func(d *Disk) error {
		tm := newTagMatcher(req, opt)

		type hit struct {
			row     *TopicRow
			matches int
		}
		var hits []hit
		// Rows in the primary key order, then a stable sort: ties are ordered by primary key.
		for _, r := range d.topicsSorted() {
			if activeOnly && r.State != t.StateOK {
				continue
			}
			if m := tm.matches(d.TopicTags[r.Name]); m > 0 {
				hits = append(hits, hit{r, m})
			}
		}
		sort.SliceStable(hits, func(i, j int) bool { return hits[i].matches > hits[j].matches })
		if limit := a.maxResults(); len(hits) > limit {
			hits = hits[:limit]
		}

		var subs []t.Subscription
		for _, h := range hits {
			var sub t.Subscription
			sub.Topic = h.row.Name
			sub.CreatedAt = h.row.CreatedAt
			sub.UpdatedAt = h.row.UpdatedAt
			if h.row.UseBt {
				sub.Topic = t.GrpToChn(sub.Topic)
			}
			sub.SetPublic(fromJSON(h.row.Public))
			sub.SetTrusted(fromJSON(h.row.Trusted))
			sub.SetDefaultAccess(h.row.Access.Auth, h.row.Access.Anon)
			// Matched tags are taken from the 'tags' column of the topics table.
			sub.Private = tm.foundTags(h.row.Tags)
			subs = append(subs, sub)
		}
		res = subs
		return nil
	})
	return res, err
}
