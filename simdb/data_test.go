package simdb

import (
	"regexp"
	"testing"
	"time"

	t "github.com/tinode/chat/server/store/types"
)

func TestMessageSave(tt *testing.T) {
	a := newAdp(tt)
	mkUser(tt, a, uA)
	mkGrp(tt, a, "grpOne", uA)
	m1 := mkMsg(tt, a, "grpOne", uA, 1, map[string]any{"txt": "one"})
	m3 := mkMsg(tt, a, "grpOne", uA, 3, "three")
	m2 := mkMsg(tt, a, "grpOne", t.ZeroUid, 2, nil)
	// The id given by store is replaced with the autoincrement row id.
	eq(tt, "ids", []t.Uid{m1.Uid(), m3.Uid(), m2.Uid()}, []t.Uid{1, 2, 3})
	rows := a.Disk.Messages["grpOne"]
	eq(tt, "sorted by seqid", []int{rows[0].SeqId, rows[1].SeqId, rows[2].SeqId}, []int{1, 2, 3})

	before := a.Disk.Dump()
	dup := &t.Message{SeqId: 2, Topic: "grpOne"}
	wantRawErr(tt, a.MessageSave(dup))
	wantRawErr(tt, a.MessageSave(&t.Message{SeqId: 1, Topic: "grpMissing"}))
	if a.Disk.Dump() != before || !dup.Uid().IsZero() {
		tt.Fatal("failed MessageSave left a partial effect")
	}

	msgs, err := a.MessageGetAll("grpOne", uA, nil)
	must(tt, err)
	eq(tt, "newest first", seqIds(msgs), []int{3, 2, 1})
	eq(tt, "content", msgs[2].Content, map[string]any{"txt": "one"})
	eq(tt, "head", msgs[2].Head, t.MessageHeaders{"n": float64(1)})
	if msgs[1].Content != nil || msgs[1].From != "" || msgs[0].From != uA.String() || msgs[0].Id != "" {
		tt.Fatalf("message fields: %+v", msgs[1])
	}
	// nil head is stored as JSON null and read back as nil.
	nh := &t.Message{SeqId: 9, Topic: "grpOne"}
	must(tt, a.MessageSave(nh))
	eq(tt, "head null", string(a.Disk.Messages["grpOne"][3].Head), "null")
	msgs, _ = a.MessageGetAll("grpOne", uA, &t.QueryOpt{Since: 9})
	if msgs[0].Head != nil {
		tt.Fatal("null head must be nil")
	}
}

func TestMessageGetAllRanges(tt *testing.T) {
	a := newAdp(tt)
	mkUser(tt, a, uA)
	mkUser(tt, a, uB)
	mkGrp(tt, a, "grpOne", uA)
	for i := 1; i <= 10; i++ {
		mkMsg(tt, a, "grpOne", uA, i, i)
	}
	get := func(u t.Uid, opts *t.QueryOpt) []int {
		msgs, err := a.MessageGetAll("grpOne", u, opts)
		must(tt, err)
		return seqIds(msgs)
	}
	eq(tt, "since/before", get(uA, &t.QueryOpt{Since: 3, Before: 6}), []int{5, 4, 3})
	eq(tt, "limit takes newest", get(uA, &t.QueryOpt{Limit: 2}), []int{10, 9})
	eq(tt, "since+limit", get(uA, &t.QueryOpt{Since: 2, Limit: 3}), []int{10, 9, 8})
	eq(tt, "before 1", get(uA, &t.QueryOpt{Before: 1}), []int{})
	a.MaxMessageResults = 4
	eq(tt, "max message results", get(uA, &t.QueryOpt{Limit: 50}), []int{10, 9, 8, 7})
	a.MaxMessageResults = 100

	// Soft delete for uB: [2,4) and 7.
	must(tt, a.MessageDeleteList("grpOne", &t.DelMessage{DelId: 1, DeletedFor: uB.String(),
		SeqIdRanges: []t.Range{{Low: 2, Hi: 4}, {Low: 7}}}))
	eq(tt, "soft for B", get(uB, nil), []int{10, 9, 8, 6, 5, 4, 1})
	eq(tt, "A unaffected", len(get(uA, nil)), 10)
	eq(tt, "rows intact", a.Disk.Messages["grpOne"][1].DelId, 0)

	// Hard delete: single range [5,7).
	must(tt, a.MessageDeleteList("grpOne", &t.DelMessage{DelId: 2, SeqIdRanges: []t.Range{{Low: 5, Hi: 7}}}))
	eq(tt, "hard", get(uA, nil), []int{10, 9, 8, 7, 4, 3, 2, 1})
	eq(tt, "hard+soft", get(uB, nil), []int{10, 9, 8, 4, 1})
	r := a.Disk.Messages["grpOne"][4]
	if r.SeqId != 5 || r.DelId != 2 || r.DeletedAt == nil || r.Head != nil || r.Content != nil {
		tt.Fatalf("hard-deleted row: %+v", r)
	}
	// Zero user sees everything not hard-deleted.
	eq(tt, "zero user", get(t.ZeroUid, nil), []int{10, 9, 8, 7, 4, 3, 2, 1})
}

func TestMessageDeleteListHard(tt *testing.T) {
	a := newAdp(tt)
	mkUser(tt, a, uA)
	mkGrp(tt, a, "grpOne", uA)
	for i := 1; i <= 6; i++ {
		mkMsg(tt, a, "grpOne", uA, i, i)
	}
	fd := &t.FileDef{Location: "loc"}
	fd.SetUid(100)
	must(tt, a.FileStartUpload(fd))
	must(tt, a.FileLinkAttachments("", t.ZeroUid, t.Uid(a.Disk.Messages["grpOne"][1].Id), []string{fd.Id}))
	must(tt, a.FileLinkAttachments("", t.ZeroUid, t.Uid(a.Disk.Messages["grpOne"][5].Id), []string{fd.Id}))

	// Multi-range list with a single id.
	must(tt, a.MessageDeleteList("grpOne", &t.DelMessage{DelId: 1, SeqIdRanges: []t.Range{{Low: 1, Hi: 3}, {Low: 4}}}))
	for _, r := range a.Disk.Messages["grpOne"] {
		want := 0
		if r.SeqId == 1 || r.SeqId == 2 || r.SeqId == 4 {
			want = 1
		}
		eq(tt, "delid", r.DelId, want)
	}
	// Dellog rows: Hi=0 stored as Low+1, deletedfor=0.
	eq(tt, "dellog", len(a.Disk.Dellog), 2)
	if l := a.Disk.Dellog[1]; l.Low != 4 || l.Hi != 5 || !l.DeletedFor.IsZero() || l.DelId != 1 {
		tt.Fatalf("dellog row: %+v", l)
	}
	// File link of message 2 dropped, of message 6 kept.
	eq(tt, "links", len(a.Disk.FileLinks), 1)

	// Already deleted messages keep their first delid and deletedat.
	at := *a.Disk.Messages["grpOne"][0].DeletedAt
	must(tt, a.MessageDeleteList("grpOne", &t.DelMessage{DelId: 2, SeqIdRanges: []t.Range{{Low: 1, Hi: 4}}}))
	eq(tt, "first delid kept", a.Disk.Messages["grpOne"][0].DelId, 1)
	eq(tt, "new delid", a.Disk.Messages["grpOne"][2].DelId, 2)
	if !a.Disk.Messages["grpOne"][0].DeletedAt.Equal(at) {
		tt.Fatal("deletedat overwritten")
	}

	// Missing topic: foreign key failure on the log.
	wantRawErr(tt, a.MessageDeleteList("grpMissing", &t.DelMessage{DelId: 1, SeqIdRanges: []t.Range{{Low: 1}}}))

	// toDel == nil wipes the topic's messages, log and links.
	must(tt, a.MessageDeleteList("grpOne", nil))
	if a.Disk.Messages["grpOne"] != nil || a.Disk.Dellog != nil || a.Disk.FileLinks != nil {
		tt.Fatal("wipe:\n" + a.Disk.Dump())
	}
}

func TestMessageGetDeleted(tt *testing.T) {
	a := newAdp(tt)
	mkUser(tt, a, uA)
	mkUser(tt, a, uB)
	mkGrp(tt, a, "grpOne", uA)
	must(tt, a.MessageDeleteList("grpOne", &t.DelMessage{DelId: 1, SeqIdRanges: []t.Range{{Low: 1, Hi: 5}, {Low: 7}}}))
	must(tt, a.MessageDeleteList("grpOne", &t.DelMessage{DelId: 2, DeletedFor: uA.String(), SeqIdRanges: []t.Range{{Low: 10, Hi: 11}}}))
	must(tt, a.MessageDeleteList("grpOne", &t.DelMessage{DelId: 3, DeletedFor: uB.String(), SeqIdRanges: []t.Range{{Low: 20, Hi: 30}}}))
	must(tt, a.MessageDeleteList("grpOne", &t.DelMessage{DelId: 4, SeqIdRanges: []t.Range{{Low: 40, Hi: 42}}}))

	dmsgs, err := a.MessageGetDeleted("grpOne", uA, nil)
	must(tt, err)
	eq(tt, "groups", len(dmsgs), 3)
	eq(tt, "g1", dmsgs[0].SeqIdRanges, []t.Range{{Low: 1, Hi: 5}, {Low: 7, Hi: 0}})
	if dmsgs[0].DelId != 1 || dmsgs[0].DeletedFor != "" || dmsgs[0].Topic != "grpOne" {
		tt.Fatalf("g1: %+v", dmsgs[0])
	}
	// Hi == Low+1 is reported as Hi=0.
	eq(tt, "g2", dmsgs[1].SeqIdRanges, []t.Range{{Low: 10, Hi: 0}})
	eq(tt, "g2 for", dmsgs[1].DeletedFor, uA.String())
	eq(tt, "g3", dmsgs[2].DelId, 4)

	dmsgs, _ = a.MessageGetDeleted("grpOne", uB, &t.QueryOpt{Since: 2, Before: 4})
	eq(tt, "since/before", len(dmsgs), 1)
	eq(tt, "B's", dmsgs[0].DelId, 3)
	// The limit counts log rows, not groups.
	dmsgs, _ = a.MessageGetDeleted("grpOne", uA, &t.QueryOpt{Limit: 1})
	eq(tt, "limit", dmsgs[0].SeqIdRanges, []t.Range{{Low: 1, Hi: 5}})
	dmsgs, _ = a.MessageGetDeleted("grpOne", uA, &t.QueryOpt{Limit: 3})
	eq(tt, "limit 3", len(dmsgs), 2)
	// Before=1 is ignored (must be > 1).
	dmsgs, _ = a.MessageGetDeleted("grpOne", uA, &t.QueryOpt{Before: 1})
	eq(tt, "before 1", len(dmsgs), 3)
	if dmsgs, err = a.MessageGetDeleted("grpNone", uA, nil); dmsgs != nil || err != nil {
		tt.Fatal("nothing must be nil, nil")
	}
}

func TestUserDeleteHard(tt *testing.T) {
	a := newAdp(tt)
	for _, u := range []t.Uid{uA, uB, uC} {
		mkUser(tt, a, u, "tag-"+u.String())
	}
	must(tt, a.AuthAddRecord(uA, "basic", "basic:a", 20, []byte("s"), time.Time{}))
	_, err := a.CredUpsert(&t.Credential{User: uA.String(), Method: "email", Value: "a@x", Done: true})
	must(tt, err)
	must(tt, a.DeviceUpsert(uA, &t.DeviceDef{DeviceId: "devA"}))
	mkGrp(tt, a, "grpOwned", uA, "gt")
	mkGrp(tt, a, "grpOther", uB)
	must(tt, a.TopicShare([]*t.Subscription{
		mkSub("grpOwned", uB, t.ModeCPublic, t.ModeCPublic, nil),
		mkSub("grpOther", uA, t.ModeCPublic, t.ModeCPublic, nil),
	}))
	p2p := mkP2P(tt, a, uA, uB)
	mkMsg(tt, a, "grpOwned", uB, 1, "x")
	mkMsg(tt, a, "grpOther", uA, 1, "kept")
	must(tt, a.MessageDeleteList("grpOther", &t.DelMessage{DelId: 1, DeletedFor: uA.String(), SeqIdRanges: []t.Range{{Low: 1}}}))
	must(tt, a.MessageDeleteList("grpOwned", &t.DelMessage{DelId: 1, DeletedFor: uB.String(), SeqIdRanges: []t.Range{{Low: 1}}}))
	fd := &t.FileDef{Location: "avatar"}
	fd.SetUid(77)
	must(tt, a.FileStartUpload(fd))
	must(tt, a.FileLinkAttachments("", uA, t.ZeroUid, []string{fd.Id}))

	must(tt, a.UserDelete(uA, true))
	d := a.Disk
	if d.Users[uA] != nil || d.UserTags[uA] != nil || len(d.Auth) != 0 || len(d.Credentials) != 0 || len(d.Devices) != 0 {
		tt.Fatal("user records must be gone:\n" + d.Dump())
	}
	if d.Topics["grpOwned"] != nil || d.TopicTags["grpOwned"] != nil || d.Messages["grpOwned"] != nil || d.Subs[SubKey("grpOwned", uB)] != nil {
		tt.Fatal("owned topic must be gone:\n" + d.Dump())
	}
	if len(d.Dellog) != 0 || len(d.FileLinks) != 0 {
		tt.Fatal("dellog and links must be gone:\n" + d.Dump())
	}
	if d.Subs[SubKey("grpOther", uA)] != nil || d.Subs[SubKey(p2p, uA)] != nil {
		tt.Fatal("user's subscriptions must be gone")
	}
	// Messages sent to other topics, the p2p topic and the peer's subscription stay.
	if len(d.Messages["grpOther"]) != 1 || d.Topics[p2p] == nil || d.Subs[SubKey(p2p, uB)] == nil || d.FileUploads[77] == nil {
		tt.Fatal("unrelated records must stay:\n" + d.Dump())
	}
	must(tt, a.UserDelete(uA, true))
}

func TestUserDeleteSoft(tt *testing.T) {
	a := newAdp(tt)
	for _, u := range []t.Uid{uA, uB, uC} {
		mkUser(tt, a, u)
	}
	mkGrp(tt, a, "grpOwned", uA)
	mkGrp(tt, a, "grpOther", uB)
	must(tt, a.TopicShare([]*t.Subscription{
		mkSub("grpOwned", uB, t.ModeCPublic, t.ModeCPublic, nil),
		mkSub("grpOther", uA, t.ModeCPublic, t.ModeCPublic, nil),
	}))
	pAB := mkP2P(tt, a, uA, uB)
	pBC := mkP2P(tt, a, uB, uC)

	must(tt, a.UserDelete(uA, false))
	d := a.Disk
	if d.Users[uA].State != t.StateDeleted || d.Users[uA].StateAt == nil {
		tt.Fatal("user must be marked")
	}
	for _, key := range []string{SubKey("grpOwned", uA), SubKey("grpOwned", uB), SubKey("grpOther", uA), SubKey(pAB, uA), SubKey(pAB, uB)} {
		if d.Subs[key].DeletedAt == nil {
			tt.Fatalf("sub %q must be deleted", key)
		}
	}
	if d.Topics["grpOwned"].State != t.StateDeleted || d.Topics[pAB].State != t.StateDeleted {
		tt.Fatal("owned and p2p topics must be deleted")
	}
	if d.Topics["grpOther"].State != t.StateOK || d.Topics[pBC].State != t.StateOK || d.Topics["sys"].State != t.StateOK ||
		d.Subs[SubKey(pBC, uB)].DeletedAt != nil || d.Subs[SubKey("grpOther", uB)].DeletedAt != nil {
		tt.Fatal("unrelated must stay")
	}
}

func TestUnreadCountAndUnvalidated(tt *testing.T) {
	a := newAdp(tt)
	for _, u := range []t.Uid{uA, uB, uC} {
		mkUser(tt, a, u)
	}
	mkGrp(tt, a, "grpOne", uA)
	mkGrp(tt, a, "grpTwo", uA)
	mkGrp(tt, a, "grpGone", uA)
	must(tt, a.TopicShare([]*t.Subscription{
		mkSub("grpOne", uB, t.ModeCPublic, t.ModeCPublic, nil),
		mkSub("grpTwo", uB, t.ModeJoin|t.ModeWrite, t.ModeCPublic, nil), // no R in want
		mkSub("grpGone", uB, t.ModeCPublic, t.ModeCPublic, nil),
		mkSub(uB.UserId(), uB, t.ModeCSelf|t.ModeRead, t.ModeCSelf|t.ModeRead, nil),
	}))
	for i := 1; i <= 5; i++ {
		mkMsg(tt, a, "grpOne", uA, i, i)
		mkMsg(tt, a, "grpTwo", uA, i, i)
		mkMsg(tt, a, "grpGone", uA, i, i)
	}
	must(tt, a.TopicDelete("grpGone", false, false))
	must(tt, a.TopicShare([]*t.Subscription{mkSub("grpGone", uB, t.ModeCPublic, t.ModeCPublic, nil)}))
	must(tt, a.SubsUpdate("grpOne", uB, map[string]any{"ReadSeqId": 2}))
	must(tt, a.SubsUpdate("grpOne", uA, map[string]any{"ReadSeqId": 5}))
	must(tt, a.SubsUpdate("grpTwo", uA, map[string]any{"ReadSeqId": 1}))

	counts, err := a.UserUnreadCount(uA, uB, uD)
	must(tt, err)
	// uA: grpOne 0 + grpTwo 4 (+ grpGone is deleted); uB: grpOne 3 only.
	eq(tt, "counts", counts, map[t.Uid]int{uA: 4, uB: 3, uD: 0})
	counts, err = a.UserUnreadCount()
	wantRawErr(tt, err)
	if counts == nil {
		tt.Fatal("counts are returned even with an error")
	}

	// Unvalidated.
	must(tt, a.UserUpdate(uA, map[string]any{"UpdatedAt": t0.Add(-2 * time.Hour)}))
	must(tt, a.UserUpdate(uB, map[string]any{"UpdatedAt": t0.Add(-3 * time.Hour)}))
	must(tt, a.UserUpdate(uC, map[string]any{"UpdatedAt": t0.Add(-4 * time.Hour), "LastSeen": t0}))
	_, err = a.CredUpsert(&t.Credential{User: uA.String(), Method: "email", Value: "a@x"})
	must(tt, err)
	uids, err := a.UserGetUnvalidated(t0.Add(-time.Hour), 10)
	must(tt, err)
	eq(tt, "ordered by updatedat", uids, []t.Uid{uB, uA})
	uids, _ = a.UserGetUnvalidated(t0.Add(-time.Hour), 1)
	eq(tt, "limit", uids, []t.Uid{uB})
	must(tt, a.CredConfirm(uA, "email"))
	uids, _ = a.UserGetUnvalidated(t0.Add(-time.Hour), 10)
	eq(tt, "validated excluded", uids, []t.Uid{uB})
	uids, _ = a.UserGetUnvalidated(t0.Add(-5*time.Hour), 10)
	if uids != nil {
		tt.Fatal("none must be nil")
	}
}

func TestCredentials(tt *testing.T) {
	a := newAdp(tt)
	mkUser(tt, a, uA)
	mkUser(tt, a, uB)
	cred := func(u t.Uid, method, value, resp string, done bool) *t.Credential {
		c := &t.Credential{User: u.String(), Method: method, Value: value, Resp: resp, Done: done}
		c.CreatedAt, c.UpdatedAt = t0, t0
		return c
	}

	ins, err := a.CredUpsert(cred(uA, "email", "a@x", "111", false))
	if !ins || err != nil {
		tt.Fatal("first insert", ins, err)
	}
	if _, ok := a.Disk.Credentials[uA.String()+":email:a@x"]; !ok {
		tt.Fatal("unconfirmed synthetic key must include the user")
	}
	must(tt, a.CredFail(uA, "email"))
	must(tt, a.CredFail(uA, "email"))

	// A second value of the same method deactivates the first one.
	ins, err = a.CredUpsert(cred(uA, "email", "a2@x", "222", false))
	if !ins || err != nil {
		tt.Fatal("second insert", ins, err)
	}
	active, err := a.CredGetActive(uA, "email")
	must(tt, err)
	if active.Value != "a2@x" || active.Resp != "222" || active.Retries != 0 || active.User != uA.String() {
		tt.Fatalf("active: %+v", active)
	}
	all, _ := a.CredGetAll(uA, "", false)
	eq(tt, "soft-deleted hidden", len(all), 1)

	// Upsert of the first value again: undelete + update, retries are kept.
	c := cred(uA, "email", "a@x", "333", false)
	c.UpdatedAt = t0.Add(time.Minute)
	ins, err = a.CredUpsert(c)
	if ins || err != nil {
		tt.Fatal("update", ins, err)
	}
	active, _ = a.CredGetActive(uA, "email")
	if active.Value != "a@x" || active.Resp != "333" || active.Retries != 2 || !active.UpdatedAt.Equal(t0.Add(time.Minute)) {
		tt.Fatalf("active after undelete: %+v", active)
	}
	if a.Disk.Credentials[uA.String()+":email:a2@x"].DeletedAt == nil {
		tt.Fatal("the other value must be deactivated")
	}

	// Deleting a credential with failed attempts: soft-delete is rolled back by the adapter's
	// 'count >= 0' check, the call reports not found and changes nothing.
	before := a.Disk.Dump()
	wantErr(tt, a.CredDel(uA, "email", "a@x"), t.ErrNotFound)
	if a.Disk.Dump() != before {
		tt.Fatal("CredDel 2.2 must have no effect")
	}
	// No attempts: hard delete.
	must(tt, a.CredDel(uA, "email", "a2@x"))
	if _, ok := a.Disk.Credentials[uA.String()+":email:a2@x"]; ok {
		tt.Fatal("must be hard-deleted")
	}

	// Confirm.
	must(tt, a.CredConfirm(uA, "email"))
	wantErr(tt, a.CredConfirm(uA, "email"), t.ErrNotFound)
	if r := a.Disk.Credentials["email:a@x"]; r == nil || !r.Done || r.User != uA {
		tt.Fatal("confirmed synthetic key must be method:value")
	}
	uid, err := a.UserGetByCred("email", "a@x")
	if uid != uA || err != nil {
		tt.Fatal("UserGetByCred", uid, err)
	}
	uid, err = a.UserGetByCred("email", "nobody@x")
	if !uid.IsZero() || err != nil {
		tt.Fatal("missing cred must be zero uid, nil")
	}
	if active, _ = a.CredGetActive(uA, "email"); active != nil {
		tt.Fatal("no active credential after confirmation")
	}
	all, _ = a.CredGetAll(uA, "email", true)
	eq(tt, "validated", len(all), 1)

	// Another user cannot add the validated value, neither unconfirmed nor confirmed.
	ins, err = a.CredUpsert(cred(uB, "email", "a@x", "", false))
	if ins || err != t.ErrDuplicate {
		tt.Fatal("unconfirmed dup", ins, err)
	}
	before = a.Disk.Dump()
	ins, err = a.CredUpsert(cred(uB, "email", "a@x", "", true))
	if !ins || err != t.ErrDuplicate {
		tt.Fatal("confirmed dup reports inserted=true", ins, err)
	}
	ins, err = a.CredUpsert(cred(uD, "tel", "123", "", false))
	if !ins || err == nil {
		tt.Fatal("unknown user", ins, err)
	}
	if a.Disk.Dump() != before {
		tt.Fatal("failed CredUpsert left a partial effect")
	}

	// Confirm of uB's own pending record collides with uA's validated one.
	ins, err = a.CredUpsert(cred(uB, "tel", "555", "", false))
	must(tt, err)
	ins, err = a.CredUpsert(cred(uA, "tel", "555", "", false))
	must(tt, err)
	must(tt, a.CredConfirm(uA, "tel"))
	wantErr(tt, a.CredConfirm(uB, "tel"), t.ErrDuplicate)

	// Confirmed insert hard-deletes the unconfirmed twin.
	ins, err = a.CredUpsert(cred(uB, "email", "b@x", "", false))
	must(tt, err)
	ins, err = a.CredUpsert(cred(uB, "email", "b@x", "", true))
	if !ins || err != nil {
		tt.Fatal(ins, err)
	}
	if _, ok := a.Disk.Credentials[uB.String()+":email:b@x"]; ok {
		tt.Fatal("unconfirmed twin must be deleted")
	}

	// Delete everything.
	must(tt, a.CredDel(uB, "", ""))
	wantErr(tt, a.CredDel(uB, "", ""), t.ErrNotFound)
	all, _ = a.CredGetAll(uB, "", false)
	if all != nil {
		tt.Fatal("none must be nil")
	}
}

func TestDevices(tt *testing.T) {
	a := newAdp(tt)
	mkUser(tt, a, uA)
	mkUser(tt, a, uB)
	must(tt, a.DeviceUpsert(uA, &t.DeviceDef{DeviceId: "d1", Platform: "ios", LastSeen: t0, Lang: "en"}))
	must(tt, a.DeviceUpsert(uA, &t.DeviceDef{DeviceId: "d2", Platform: "web", LastSeen: t0}))
	wantRawErr(tt, a.DeviceUpsert(uD, &t.DeviceDef{DeviceId: "d1"}))

	devs, n, err := a.DeviceGetAll(uA, uB)
	must(tt, err)
	eq(tt, "count", n, 2)
	eq(tt, "order", []string{devs[uA][0].DeviceId, devs[uA][1].DeviceId}, []string{"d1", "d2"})
	if _, ok := devs[uB]; ok {
		tt.Fatal("no entry for users without devices")
	}

	// The same device id moves to another user.
	must(tt, a.DeviceUpsert(uB, &t.DeviceDef{DeviceId: "d1", Platform: "android", LastSeen: t0}))
	devs, n, _ = a.DeviceGetAll(uA, uB)
	if n != 2 || len(devs[uA]) != 1 || devs[uB][0].Platform != "android" {
		tt.Fatalf("device move: %v", devs)
	}
	wantErr(tt, a.DeviceDelete(uA, "d1"), t.ErrNotFound)
	must(tt, a.DeviceDelete(uB, "d1"))
	must(tt, a.DeviceDelete(uA, ""))
	wantErr(tt, a.DeviceDelete(uA, ""), t.ErrNotFound)
	_, _, err = a.DeviceGetAll()
	wantRawErr(tt, err)

	a.CoarseTime = true
	must(tt, a.DeviceUpsert(uA, &t.DeviceDef{DeviceId: "d3", LastSeen: t0.Add(600 * time.Millisecond)}))
	devs, _, _ = a.DeviceGetAll(uA)
	if !devs[uA][0].LastSeen.Equal(t0.Add(time.Second)) {
		tt.Fatal("CoarseTime must round to seconds")
	}
}

func TestFiles(tt *testing.T) {
	a := newAdp(tt)
	mkUser(tt, a, uA)
	mkGrp(tt, a, "grpOne", uA)
	m1 := mkMsg(tt, a, "grpOne", uA, 1, "x")
	mkFile := func(id t.Uid, user string, loc string, at time.Time) *t.FileDef {
		fd := &t.FileDef{User: user, MimeType: "text/plain", Location: loc}
		fd.SetUid(id)
		fd.CreatedAt, fd.UpdatedAt = at, at
		must(tt, a.FileStartUpload(fd))
		return fd
	}
	f1 := mkFile(101, uA.String(), "loc1", t0)
	f2 := mkFile(102, "", "loc2", t0)
	f3 := mkFile(103, uA.String(), "", t0)
	f4 := mkFile(104, uA.String(), "loc4", t0.Add(time.Hour))
	wantRawErr(tt, a.FileStartUpload(f1))

	got, err := a.FileGet(f2.Id)
	must(tt, err)
	if got.Id != f2.Id || got.User != "" || got.Status != t.UploadStarted || got.Location != "loc2" {
		tt.Fatalf("FileGet: %+v", got)
	}
	if got, err = a.FileGet(t.Uid(999).String()); got != nil || err != nil {
		tt.Fatal("missing file must be nil, nil")
	}
	_, err = a.FileGet("garbage")
	wantErr(tt, err, t.ErrMalformed)

	ret, err := a.FileFinishUpload(f1, true, 1234)
	must(tt, err)
	if ret != f1 || f1.Status != t.UploadCompleted || f1.Size != 1234 || a.Disk.FileUploads[101].Size != 1234 {
		tt.Fatal("finish success")
	}
	_, err = a.FileFinishUpload(f3, false, 0)
	must(tt, err)
	if f3.Status != t.UploadFailed || a.Disk.FileUploads[103] != nil {
		tt.Fatal("finish failure must delete the record")
	}

	// Links.
	wantErr(tt, a.FileLinkAttachments("", t.ZeroUid, t.ZeroUid, []string{f1.Id}), t.ErrMalformed)
	wantErr(tt, a.FileLinkAttachments("grpOne", t.ZeroUid, t.ZeroUid, nil), t.ErrMalformed)
	wantErr(tt, a.FileLinkAttachments("grpOne", t.ZeroUid, t.ZeroUid, []string{"bad"}), t.ErrMalformed)
	// Topic: only the first fid, replaces the previous link.
	must(tt, a.FileLinkAttachments("grpOne", t.ZeroUid, t.ZeroUid, []string{f1.Id, f2.Id}))
	eq(tt, "one link", len(a.Disk.FileLinks), 1)
	before := a.Disk.Dump()
	// Unknown file: foreign key failure, the old link is not lost.
	wantRawErr(tt, a.FileLinkAttachments("grpOne", t.ZeroUid, t.ZeroUid, []string{t.Uid(999).String()}))
	wantRawErr(tt, a.FileLinkAttachments("grpMissing", t.ZeroUid, t.ZeroUid, []string{f1.Id}))
	wantRawErr(tt, a.FileLinkAttachments("", t.ZeroUid, t.Uid(55), []string{f1.Id}))
	wantRawErr(tt, a.FileLinkAttachments("", uD, t.ZeroUid, []string{f1.Id}))
	if a.Disk.Dump() != before {
		tt.Fatal("failed FileLinkAttachments left a partial effect")
	}
	must(tt, a.FileLinkAttachments("grpOne", t.ZeroUid, t.ZeroUid, []string{f2.Id}))
	if len(a.Disk.FileLinks) != 1 || a.Disk.FileLinks[0].FileId != 102 {
		tt.Fatal("topic link must be replaced")
	}
	// Message: all fids, nothing unlinked; msgId wins over topic.
	must(tt, a.FileLinkAttachments("grpOne", t.ZeroUid, m1.Uid(), []string{f1.Id, f4.Id}))
	eq(tt, "links", len(a.Disk.FileLinks), 3)
	// User.
	must(tt, a.FileLinkAttachments("", uA, t.ZeroUid, []string{f4.Id}))
	must(tt, a.FileLinkAttachments("", uA, t.ZeroUid, []string{f1.Id}))
	eq(tt, "links", len(a.Disk.FileLinks), 4)

	// Nothing unused yet.
	locs, err := a.FileDeleteUnused(time.Time{}, 0)
	must(tt, err)
	if locs != nil {
		tt.Fatal("all files are linked", locs)
	}
	// Hard-delete the message: its links go, f4 becomes unused; f1 is still used by the user.
	must(tt, a.MessageDeleteList("grpOne", &t.DelMessage{DelId: 1, SeqIdRanges: []t.Range{{Low: 1}}}))
	locs, _ = a.FileDeleteUnused(t0.Add(time.Minute), 0)
	if locs != nil {
		tt.Fatal("f4 is newer than the cutoff")
	}
	locs, _ = a.FileDeleteUnused(time.Time{}, 5)
	eq(tt, "unused", locs, []string{"loc4"})
	if a.Disk.FileUploads[104] != nil || a.Disk.FileUploads[101] == nil {
		tt.Fatal("unused record must be deleted, used kept")
	}
}

func TestPCache(tt *testing.T) {
	a := newAdp(tt)
	_, err := a.PCacheGet("k1")
	wantErr(tt, err, t.ErrNotFound)
	wantErr(tt, a.PCacheUpsert("bad%key", "v", false), t.ErrMalformed)
	must(tt, a.PCacheUpsert("k1", "v1", true))
	wantErr(tt, a.PCacheUpsert("k1", "v2", true), t.ErrDuplicate)
	v, _ := a.PCacheGet("k1")
	eq(tt, "not overwritten", v, "v1")
	must(tt, a.PCacheUpsert("k1", "v3", false))
	v, _ = a.PCacheGet("k1")
	eq(tt, "replaced", v, "v3")
	if v, _ = a.PCacheGet("version"); v != "113" {
		tt.Fatal("version record", v)
	}

	must(tt, a.PCacheUpsert("pfx:1", "a", false))
	must(tt, a.PCacheUpsert("pfx:2", "b", false))
	must(tt, a.PCacheUpsert("other", "c", false))
	wantErr(tt, a.PCacheExpire("", time.Now()), t.ErrMalformed)
	must(tt, a.PCacheExpire("pfx:", time.Now().Add(-time.Hour)))
	eq(tt, "too new", len(a.Disk.KV), 5)
	must(tt, a.PCacheExpire("pfx:", time.Now().Add(time.Hour)))
	if _, err = a.PCacheGet("pfx:1"); err != t.ErrNotFound {
		tt.Fatal("must be expired")
	}
	if _, err = a.PCacheGet("other"); err != nil {
		tt.Fatal("other prefix must stay")
	}
	// The version record has no creation time and never expires.
	must(tt, a.PCacheExpire("v", time.Now().Add(time.Hour)))
	if _, err = a.PCacheGet("version"); err != nil {
		tt.Fatal("version must stay")
	}
	must(tt, a.PCacheDelete("other"))
	must(tt, a.PCacheDelete("other"))

	if !sqlLike("abc", "a_c") || !sqlLike("abc", "%") || sqlLike("abc", "a_") || !sqlLike("a%c", `a\%c`) || sqlLike("abc", `a\%c`) {
		tt.Fatal("sqlLike")
	}
}

func TestFindUsersAndTopics(tt *testing.T) {
	a := newAdp(tt)
	mkUser(tt, a, uA, "email:a@x", "city:nyc", "lang:en")
	mkUser(tt, a, uB, "city:nyc", "lang:en")
	mkUser(tt, a, uC, "city:sfo", "lang:en")
	mkUser(tt, a, uD, "lang:en", "city:nyc")
	must(tt, a.UserUpdate(uD, map[string]any{"State": t.StateSuspended}))

	// Optional only: ordered by the number of matches, ties by primary key; self excluded.
	subs, err := a.FindUsers(uC, nil, []string{"city:nyc", "lang:en", "email:a@x"}, false)
	must(tt, err)
	eq(tt, "optional", subUsers(subs), []string{uA.String(), uB.String(), uD.String()})
	eq(tt, "matched tags", subs[0].Private, []string{"email:a@x", "city:nyc", "lang:en"})
	eq(tt, "matched tags in column order", subs[2].Private, []string{"lang:en", "city:nyc"})
	if subs[0].GetDefaultAccess().Auth != t.ModeCAuth || subs[0].GetPublic() == nil || subs[0].Topic != "" {
		tt.Fatalf("found user: %+v", subs[0])
	}
	// activeOnly.
	subs, _ = a.FindUsers(uC, nil, []string{"city:nyc"}, true)
	eq(tt, "active only", subUsers(subs), []string{uA.String(), uB.String()})
	// Required groups: (sfo OR email) AND lang.
	subs, _ = a.FindUsers(uB, [][]string{{"city:sfo", "email:a@x"}, {"lang:en"}}, []string{"city:nyc"}, false)
	eq(tt, "required", subUsers(subs), []string{uA.String(), uC.String()})
	subs, _ = a.FindUsers(uB, [][]string{{"nosuch"}}, []string{"city:nyc"}, false)
	if subs != nil {
		tt.Fatal("no match must be nil")
	}
	// The limit is applied before the caller is skipped.
	a.MaxResults = 1
	subs, _ = a.FindUsers(uA, nil, []string{"city:nyc", "email:a@x"}, false)
	if subs != nil {
		tt.Fatal("limit 1 is consumed by the caller's own row")
	}
	a.MaxResults = 1024

	mkGrp(tt, a, "grpOne", uA, "travel", "food")
	mkGrp(tt, a, "grpTwo", uA, "travel")
	mkGrp(tt, a, "grpChan", uA, "travel", "food", "news")
	must(tt, a.TopicUpdate("grpChan", map[string]any{"UseBt": true}))
	must(tt, a.TopicUpdate("grpTwo", map[string]any{"State": t.StateSuspended}))
	subs, err = a.FindTopics(nil, []string{"travel", "food", "news"}, false)
	must(tt, err)
	eq(tt, "topics", subTopics(subs), []string{"chnChan", "grpOne", "grpTwo"})
	eq(tt, "topic tags", subs[1].Private, []string{"travel", "food"})
	subs, _ = a.FindTopics([][]string{{"food"}}, nil, true)
	eq(tt, "required+active", subTopics(subs), []string{"grpOne", "chnChan"})

	// No tags at all: the SQL adapter panics building the query.
	func() {
		defer func() {
			if recover() == nil {
				tt.Fatal("expected a panic")
			}
		}()
		a.FindTopics(nil, nil, false)
	}()
	// The adapter is still usable after the panic.
	if _, err = a.TopicGet("grpOne"); err != nil {
		tt.Fatal(err)
	}
}

var stamp = regexp.MustCompile(`\b1[0-9]{12}\b`)

// The same sequence of calls must produce the same results and the same final state.
func TestDeterminism(tt *testing.T) {
	run := func() (string, []string) {
		a := newAdp(tt)
		var trace []string
		uids := []t.Uid{uD, uB, uA, uC}
		for _, u := range uids {
			mkUser(tt, a, u, "common", "tag-"+u.String())
		}
		for i, u := range uids {
			name := "grp" + string(rune('A'+i))
			mkGrp(tt, a, name, u, "common")
			for _, v := range uids {
				if v != u {
					must(tt, a.TopicShare([]*t.Subscription{mkSub(name, v, t.ModeCPublic, t.ModeCPublic, nil)}))
				}
			}
			mkMsg(tt, a, name, u, 1, "m")
		}
		for i := range uids {
			for j := i + 1; j < len(uids); j++ {
				mkP2P(tt, a, uids[i], uids[j])
			}
		}
		for _, u := range uids {
			subs, _ := a.TopicsForUser(u, false, nil)
			trace = append(trace, subTopics(subs)...)
			ims := t0.Add(-time.Hour)
			subs, _ = a.TopicsForUser(u, true, &t.QueryOpt{IfModifiedSince: &ims, Limit: 3})
			trace = append(trace, subTopics(subs)...)
			subs, _ = a.FindUsers(u, nil, []string{"common"}, false)
			trace = append(trace, subUsers(subs)...)
			names, _ := a.OwnTopics(u)
			trace = append(trace, names...)
		}
		subs, _ := a.FindTopics(nil, []string{"common"}, false)
		trace = append(trace, subTopics(subs)...)
		// The deletions below use the wall clock (there is no fake clock in this test):
		// exact dump before them, dump with masked timestamps after.
		dump := a.Disk.Dump()
		must(tt, a.UserDelete(uB, false))
		must(tt, a.UserDelete(uC, true))
		return dump + stamp.ReplaceAllString(a.Disk.Dump(), "T"), trace
	}
	dump1, trace1 := run()
	for i := 0; i < 20; i++ {
		dump2, trace2 := run()
		if dump1 != dump2 {
			tt.Fatal("final state differs between runs")
		}
		eq(tt, "trace", trace2, trace1)
	}
}

// Oracles may call the adapter concurrently with the simulated server (race mode).
func TestConcurrentAccess(tt *testing.T) {
	a := newAdp(tt)
	mkUser(tt, a, uA)
	mkGrp(tt, a, "grpOne", uA)
	done := make(chan struct{})
	go func() {
		defer close(done)
		for i := 1; i <= 200; i++ {
			msg := &t.Message{SeqId: i, Topic: "grpOne", From: uA.String(), Content: i}
			if err := a.MessageSave(msg); err != nil {
				tt.Error(err)
				return
			}
		}
	}()
	for i := 0; i < 200; i++ {
		if _, err := a.MessageGetAll("grpOne", uA, nil); err != nil {
			tt.Fatal(err)
		}
		a.IsOpen()
	}
	<-done
	eq(tt, "saved", len(a.Disk.Messages["grpOne"]), 200)
}
